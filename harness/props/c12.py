"""C12 — stereo signs are permutation-consistent and agree with an independent toolkit (proof; toolkit agreement validated).

G  Gen/StereoTables.lean regenerated from the live `_tetrahedron_translate` / `_alkene_translate`.
P  Props/C12.lean: table = parity, translate = s xor parity for every permutation / H position, flip laws, first-atom rule …
K  exhaustive differential test of the Lean model (Drivers/C12.lean) against the real private functions on template
   molecules (every neighbour insertion order x every env permutation / triple / malformed env x stored/given sign),
   the real SMILES reader and writer on every spelling of one centre, the geometric sign functions on integer coordinates.
R  property-level oracles on the real code that never consult the Lean model (also the failing-input search):
   (a) parity oracle: translate(env1) != translate(env2) <=> env2 is an odd permutation of env1 (own inversion count);
   (b) all spellings of one configuration parse to equal molecules, spellings of the mirror image / other E-Z do not;
   (c) RDKit: canonical isomeric SMILES of the input spelling == that of chython's output string (validated, not proved).
"""
import itertools

from .. import core
from ..gen import gen_stereo

LEVEL = 'proof'
LEVEL_TEXT = ('The sign algebra (24-entry and 8-entry tables, hydrogen-last completion, env[:3], first-atom inversion, four-way '
              'end-slot analysis, determinant signs) is modelled executably in Lean and every clause about it is a universally '
              'quantified theorem over all neighbour orders, all permutations, all hydrogen placements and all integer '
              'coordinates; the tables are regenerated from /repo on every run and the model is compared exhaustively with the '
              'real private functions, reader and writer. Agreement with RDKit, "mirror images never equal" and "labels only on '
              'stereogenic centres" are validated by run-time comparison, not proved - except the label bookkeeping of fix_stereo '
              '(collection pass, restore rounds, cache state), which is modelled over an arbitrary chiral_* oracle and proved sound, '
              'complete (fixpoint), terminating, cache-fresh and order-independent, and compared with the real fix_stereo on every run; and '
              'the reference-pair choice of __differentiation (min by class), proved to depend on classes only (slot-order and '
              'renumbering invariance) and compared with the calls the real code makes.')
LEVEL_NOTE = ('Lean kernel; gen_stereo translator; hand-written model of _translate_*_sign/_format_atom/postprocess_molecule tied by '
              'exhaustive correspondence; RDKit is a black box used only as an independent oracle; float rounding of 2-D '
              'coordinates is outside the model (integer coordinates only).')
TECHNIQUE = 'Lean 4 theorems (decide on regenerated tables + case analysis) + exhaustive model-vs-code correspondence + RDKit oracle'
HAS_DRIVER = True
FINDINGS_MODULE = 'ChythonModel.Findings.C12'
SEARCH_ALWAYS_IN_THOROUGH = True
RULE = ('exhaustive: template centres (4 heavy / 3 heavy + explicit H / 3 heavy + implicit H; alkene, cumulene and allene ends with '
        '2 heavy / heavy + explicit H / heavy + implicit H) x every neighbour insertion order x every env permutation, injective '
        'triple and malformed env x stored/given sign; every spelling (start atom, branch order, ring-closure digit order) of one '
        'centre through the real reader and writer; a case is non-trivial when it reaches a table lookup or an error branch of '
        'the modelled function; distinct by the canonical request line; label-dependent units: hub (tetrahedron / double-bond end / '
        'allene end) x two, three or four constitutionally identical arms (tetrahedral, di/tri/tetra-substituted double bond, allene, '
        'with and without spacer) x all 2^k label combinations x random atom orders x constitution-preserving histories, judged by '
        'brute-force constitutional automorphisms')
TRUSTED = ['gen_stereo translator (reads the two dict literals from the live module)',
           'hand-written Lean model Model/Stereo.lean, validated by exhaustive correspondence, not derived from the Python text',
           'own spelling generator (independent mini SMILES writer) and inversion-count parity oracle in harness/props/c12.py',
           'RDKit 2026.3 (independent oracle for the validated clauses only)',
           'own brute-force automorphism judge over the spec graph (same compound <=> an automorphism carries every parity and every '
           'cis/trans relation over); hand-written Lean model Model/StereoFix.lean of fix_stereo, its chiral_* oracle answered by the real code']
ASSUMPTIONS = ['coordinates are exact integers in the geometry model; float rounding is outside the model',
               'RDKit implements the OpenSMILES chirality convention (black box)',
               'labels-only-on-stereogenic-centres and mirror-image inequality are validated on generated molecules with '
               'constitutionally distinct substituents and on hubs with constitutionally identical labelled arms, not proved',
               'fix_stereo theorems hold for whatever chiral_tetrahedrons / chiral_allenes / chiral_cis_trans compute (oracle); that those '
               'sets are the stereogenic units is validated by the automorphism judge, not proved']

_state = {}
KNOWN_SPIRO = 'C12/non-stereogenic-atom-offered-or-labelled/spiro-atom-with-symmetric-ring-next-to-ring-stereocentre'
KNOWN_CT_MAP = 'C12/written-configuration-differs/conjugated-double-bonds-in-a-ring'


def generate(ctx):
    path, tetra, alkene = gen_stereo.generate()
    _state.update(tetra=tetra, alkene=alkene)
    return [path]


# ------------------------------------------------------------------------------------------------
# helpers
# ------------------------------------------------------------------------------------------------

def tri(v):
    return -1 if v is None else int(bool(v))


def lst(xs):
    xs = list(xs)
    return [len(xs)] + xs


def outcome(f, *a):
    """canonical outcome of a real call: ok 0|1 / err <ExcName>"""
    try:
        r = f(*a)
    except (KeyError, ValueError, StopIteration) as e:
        return 'err ' + type(e).__name__
    except Exception as e:  # anything else is reported verbatim and will disagree with the model
        return 'crash ' + type(e).__name__
    if r is True or r is False:
        return f'ok {int(r)}'
    return f'ok {r}'


def build(atoms, bonds):
    """atoms: {n: symbol}; bonds: list of (n, m, order) in insertion order. Hydrogens calculated, labels set."""
    from chython import MoleculeContainer
    m = MoleculeContainer()
    for n, sym in atoms.items():
        m.add_atom(sym, n, _skip_calculation=True)
    for a, b, o in bonds:
        m.add_bond(a, b, o, _skip_calculation=True)
    m.fix_structure()
    return m


def h_atoms(mol):
    return [n for n, a in mol._atoms.items() if a.atomic_number == 1]


class Stream:
    """collect (request line, real outcome) pairs; run the driver once; diff"""

    def __init__(self, ctx, name):
        self.ctx, self.name, self.req, self.real, self.meta = ctx, name, [], [], []

    def add(self, line, real, meta=None, nontrivial=True):
        self.req.append(line)
        self.real.append(real)
        self.meta.append(meta)
        self.ctx.count(line, nontrivial)

    def run(self):
        ctx = self.ctx
        if not self.req:
            return []
        if not ctx.build_ok:
            ctx.notes.append(f'{self.name}: driver not built, {len(self.req)} requests not compared')
            return []
        model = core.run_driver('C12', self.req)
        bad = []
        if len(model) != len(self.req):
            ctx.broke('correspondence', self.name, f'driver returned {len(model)} lines for {len(self.req)} requests')
            return []
        for q, r, mo, me in zip(self.req, self.real, model, self.meta):
            ctx.dist(f'{self.name}:{r.split()[0]}' + (':' + r.split()[1] if r.startswith('err') else ''))
            if r != mo:
                if getattr(self, 'tolerate_model_reject', False) and mo.startswith('err'):
                    ctx.dist(f'{self.name}:model-rejects-accepted-input')   # accept/reject is not this property's business
                    continue
                bad.append((q, r, mo, me))
        for q, r, mo, me in bad[:1]:
            ctx.sample({'stream': self.name, 'request': q, 'real': r, 'model': mo, 'DISAGREE': True})
        if bad:
            ctx.cov['disagreements_checked'] += len(bad)
            q, r, mo, me = bad[0]
            ctx.broke('correspondence', self.name, f'{len(bad)} disagreements; first: request={q!r} real={r!r} model={mo!r} meta={me!r}')
            _state.setdefault('disagreements', []).extend((self.name, me) for *_x, me in bad[:50])
        else:
            i = len(self.req) // 2
            ctx.sample({'stream': self.name, 'request': self.req[i], 'real': self.real[i], 'model': model[i]})
        return bad


# ------------------------------------------------------------------------------------------------
# own parity oracle (property level, independent of the Lean model and of the tables)
# ------------------------------------------------------------------------------------------------

def odd(seq, ref):
    """True iff `seq` is an odd permutation of `ref` (inversion count)."""
    idx = [ref.index(x) for x in seq]
    inv = sum(1 for i in range(len(idx)) for j in range(i + 1, len(idx)) if idx[i] > idx[j])
    return inv % 2 == 1


# ------------------------------------------------------------------------------------------------
# stream 1: _translate_tetrahedron_sign on template centres
# ------------------------------------------------------------------------------------------------

TETRA_TEMPLATES = {
    # centre 1; neighbours 2..5; extra atoms: a foreign heavy atom 8 and a foreign explicit hydrogen 9 (H-H 9-10)
    'T4': ({1: 'C', 2: 'F', 3: 'Cl', 4: 'Br', 5: 'I', 8: 'O', 9: 'H', 10: 'H'}, [2, 3, 4, 5]),
    'T3H': ({1: 'C', 2: 'F', 3: 'Cl', 4: 'Br', 5: 'H', 8: 'O', 9: 'H', 10: 'H'}, [2, 3, 4, 5]),
    'T3': ({1: 'C', 2: 'F', 3: 'Cl', 4: 'Br', 8: 'O', 9: 'H', 10: 'H'}, [2, 3, 4]),
}


def tetra_envs(nbrs):
    """every permutation, every injective triple, plus malformed envs"""
    envs = []
    pool = list(nbrs)
    for k in (3, 4):
        if k <= len(pool):
            envs += [list(p) for p in itertools.permutations(pool, k)]
    a = pool
    envs += [[], a[:1], a[:2], a + [8], a + [9], a[:2] + [8], a[:2] + [9], [a[0], a[0], a[1]], [a[0], a[1], a[0]],
             [a[0], a[1], a[1], a[2]], [8, a[0], a[1]], a[:3] + [8], a[:3] + [9], [9] + a[:3], [a[0], 9, a[1], a[2]],
             [a[0], a[1], a[2], a[2]], [9, 10, a[0], a[1]], [a[0], a[1], a[2], a[0]], [1, a[0], a[1]], a[:3] + [10, 9]]
    return envs


def stream_tetra(ctx):
    st = Stream(ctx, 'translate_tetrahedron')
    rel_fail = 0
    for name, (atoms, nbrs) in TETRA_TEMPLATES.items():
        perms = list(itertools.permutations(nbrs))
        if ctx.quick:
            perms = [perms[0]] + ctx.rng.sample(perms[1:], min(7, len(perms) - 1))
        for ins in perms:
            # random renumbering of the template so that atom numbers carry no meaning
            new = dict(zip(atoms, ctx.rng.sample(range(1, 40), len(atoms))))
            mol = build({new[n]: s for n, s in atoms.items()},
                        [(new[1], new[x], 1) for x in ins] + [(new[9], new[10], 1)])
            c = new[1]
            order = list(mol.stereogenic_tetrahedrons.get(c, ()))
            hs = h_atoms(mol)
            signs = {}
            for env0 in tetra_envs(nbrs):
                env = [new[x] for x in env0]
                for stored in (None, False, True):
                    mol._atoms[c]._stereo = stored
                    for s in (None, False, True):
                        real = outcome(mol._translate_tetrahedron_sign, c, tuple(env), s)
                        st.add(' '.join(map(str, ['tt'] + lst(order) + lst(env) + lst(hs) + [tri(stored), tri(s)])), real,
                               {'kind': 'translate-tetra', 'template': name, 'insertion': list(ins), 'env': env0,
                                'stored': stored, 's': s})
                        if stored is None and s is True and real.startswith('ok') and sorted(env0[:4]) == sorted(nbrs) \
                                and len(env0) == len(nbrs):
                            signs[tuple(env0)] = real
            mol._atoms[c]._stereo = None
            # relational oracle on the real outputs: sign changes exactly under odd permutations
            ref = list(nbrs)
            if len(nbrs) == 4 and name == 'T4':
                for e, r in signs.items():
                    r3 = outcome(mol._translate_tetrahedron_sign, c, tuple(new[x] for x in e[:3]), True)
                    ctx.count(('tetra-take3', name, ins, e))
                    if r3 != r:
                        rel_fail += 1
                        ctx.fail('C12/tetrahedron-three-of-four', f'{name}: translate({list(e)})={r} but translate({list(e[:3])})={r3}',
                                 {'kind': 'translate-tetra-pair', 'template': name, 'insertion': list(ins), 'env1': list(e), 'env2': list(e[:3])})
            for e, r in signs.items():
                ctx.count(('tetra-parity', name, ins, e))
                if (r != signs[tuple(ref)]) != odd(list(e), ref):
                    rel_fail += 1
                    ctx.fail('C12/tetrahedron-parity', f'{name}: translate({ref})={signs[tuple(ref)]} translate({list(e)})={r} '
                             f'but odd={odd(list(e), ref)}',
                             {'kind': 'translate-tetra-pair', 'template': name, 'insertion': list(ins), 'env1': ref, 'env2': list(e)})
    st.run()
    ctx.dist('tetra-parity-oracle-failures', rel_fail)


# ------------------------------------------------------------------------------------------------
# streams 2, 3: _translate_cis_trans_sign / _translate_allene_sign on template double-bond systems
# ------------------------------------------------------------------------------------------------

END_KINDS = ('2heavy', 'heavyH', 'heavy')   # two heavy substituents / heavy + explicit H / heavy + implicit H


def ends_template(n_cum, left, right, swap_ins, rng):
    """chain of `n_cum` double-bonded carbons 1..n_cum; substituents 11,12 on the first, 21,22 on the last;
    foreign atoms 30 (O) and 31-32 (H-H). Returns (mol, renumbering)."""
    atoms = {i: 'C' for i in range(1, n_cum + 1)}
    bonds = [(i, i + 1, 2) for i in range(1, n_cum)]
    subs = []
    for kind, (a, b), end in ((left, (11, 12), 1), (right, (21, 22), n_cum)):
        atoms[a] = 'F' if end == 1 else 'Br'
        subs.append((end, a, 1))
        if kind == '2heavy':
            atoms[b] = 'Cl' if end == 1 else 'I'
            subs.append((end, b, 1))
        elif kind == 'heavyH':
            atoms[b] = 'H'
            subs.append((end, b, 1))
    atoms.update({30: 'O', 31: 'H', 32: 'H'})
    bonds_all = bonds + subs
    if swap_ins:
        rng.shuffle(bonds_all)
    bonds_all.append((31, 32, 1))
    new = dict(zip(atoms, rng.sample(range(1, 60), len(atoms))))
    mol = build({new[n]: s for n, s in atoms.items()}, [(new[a], new[b], o) for a, b, o in bonds_all])
    return mol, new


def ends_wire(env):
    return [env[0], env[1], -1 if env[2] is None else env[2], -1 if env[3] is None else env[3]]


def stream_ends(ctx):
    ct = Stream(ctx, 'translate_cis_trans')
    al = Stream(ctx, 'translate_allene')
    rel_fail = 0
    for n_cum in (2, 3, 4, 5):
        for left in END_KINDS:
            for right in END_KINDS:
                for swap in ((False, True, True) if not ctx.quick else (False, True)):
                    mol, new = ends_template(n_cum, left, right, swap, ctx.rng)
                    old = {v: k for k, v in new.items()}
                    hs = h_atoms(mol)
                    allatoms = list(mol._atoms)
                    t1, t2 = new[1], new[n_cum]
                    if n_cum % 2 == 0:
                        sct = mol.stereogenic_cis_trans
                        sct_wire = [len(sct)]
                        for (n, m), env in sct.items():
                            sct_wire += [n, m] + ends_wire(env)
                        i, j = mol._stereo_cis_trans_centers[t1]
                        bond = mol._bonds[i][j]
                        res = {}
                        for n, m in ((t1, t2), (t2, t1), (t1, new[30]), (new[2], t2) if n_cum > 2 else (t1, t1)):
                            for nn in allatoms:
                                for nm in allatoms:
                                    for stored, s in ((None, None), (True, None), (None, False), (None, True), (False, True)):
                                        bond._stereo = stored
                                        real = outcome(mol._translate_cis_trans_sign, n, m, nn, nm, s)
                                        ct.add(' '.join(map(str, ['ct'] + sct_wire + lst(hs) + [n, m, nn, nm, tri(stored), tri(s)])),
                                               real, {'kind': 'translate-ends', 'cum': n_cum, 'left': left, 'right': right,
                                                      'args': [old[n], old[m], old[nn], old[nm]], 'stored': stored, 's': s})
                                        if stored is None and s is True and (n, m) == (t1, t2) and real.startswith('ok'):
                                            res[(old[nn], old[nm])] = real
                        bond._stereo = None
                        rel_fail += ends_oracle(ctx, res, n_cum, left, right, 'cis-trans')
                    else:
                        c = new[(n_cum + 1) // 2]
                        env = mol.stereogenic_allenes.get(c)
                        res = {}
                        for cc in (c, t1, new[30]):
                            e = mol.stereogenic_allenes.get(cc)
                            for nn in allatoms:
                                for nm in allatoms:
                                    for stored, s in ((None, None), (True, None), (None, False), (None, True), (False, True)):
                                        mol._atoms[cc]._stereo = stored
                                        real = outcome(mol._translate_allene_sign, cc, nn, nm, s)
                                        al.add(' '.join(map(str, ['al', int(e is not None)] + (ends_wire(e) if e else [0, 0, -1, -1])
                                                                + lst(hs) + [nn, nm, tri(stored), tri(s)])),
                                               real, {'kind': 'translate-ends', 'cum': n_cum, 'left': left, 'right': right,
                                                      'args': [old[cc], old[nn], old[nm]], 'stored': stored, 's': s})
                                        if stored is None and s is True and cc == c and real.startswith('ok'):
                                            res[(old[nn], old[nm])] = real
                            mol._atoms[cc]._stereo = None
                        rel_fail += ends_oracle(ctx, res, n_cum, left, right, 'allene')
    ct.run()
    al.run()
    ctx.dist('ends-flip-oracle-failures', rel_fail)


def ends_oracle(ctx, res, n_cum, left, right, what):
    """Relational oracle on the real outputs: exchanging the substituent at one end flips, at both ends keeps.
    Substituents of the first end are 11/12, of the last end 21/22 (12 / 22 may be an explicit H or absent)."""
    fails = 0
    first = [x for x in (11, 12) if any(k[0] == x for k in res)]
    last = [x for x in (21, 22) if any(k[1] == x for k in res)]
    for a in first:
        for b in last:
            for a2 in first:
                for b2 in last:
                    if (a, b) in res and (a2, b2) in res:
                        ctx.count(('ends-flip', what, n_cum, left, right, a, b, a2, b2))
                        expect_diff = (a != a2) != (b != b2)
                        if (res[(a, b)] != res[(a2, b2)]) != expect_diff:
                            fails += 1
                            ctx.fail(f'C12/{what}-flip-law', f'{what} chain of {n_cum}: sign for substituents {(a, b)} is {res[(a, b)]}, '
                                     f'for {(a2, b2)} is {res[(a2, b2)]}; expected {"different" if expect_diff else "equal"}',
                                     {'kind': 'translate-ends-pair', 'cum': n_cum, 'left': left, 'right': right,
                                      'p1': [a, b], 'p2': [a2, b2]})
    return fails


# ------------------------------------------------------------------------------------------------
# stream 4: geometric sign functions on integer coordinates
# ------------------------------------------------------------------------------------------------

def stream_geometry(ctx):
    from chython.algorithms import stereo as S
    st = Stream(ctx, 'geometry_signs')
    rng = ctx.rng
    k = 400 if ctx.quick else 6000

    def pt(d, lim):
        return [rng.randint(-lim, lim) for _ in range(d)]

    for i in range(k):
        lim = rng.choice([1, 2, 3, 10, 1000])
        p = [pt(3, lim) for _ in range(4)]
        if i % 7 == 0:
            p[3] = [p[0][j] + p[1][j] - p[2][j] for j in range(3)]  # often coplanar
        flat = [c for q in p for c in q]
        st.add('pyr ' + ' '.join(map(str, flat)), outcome(S._pyramid_sign, *map(tuple, p)), {'kind': 'geometry', 'f': 'pyramid', 'p': p})
        q = [pt(2, lim) for _ in range(4)]
        if i % 5 == 0:
            q[3] = [2 * q[2][0] - q[1][0], 2 * q[2][1] - q[1][1]]  # collinear
        flat = [c for w in q for c in w]
        st.add('cts ' + ' '.join(map(str, flat)), outcome(S._cis_trans_sign, *map(tuple, q)), {'kind': 'geometry', 'f': 'cis_trans', 'p': q})
        mark = rng.choice([1, -1])
        st.add('als ' + ' '.join(map(str, [mark] + flat[2:])), outcome(S._allene_sign, mark, *map(tuple, q[1:])),
               {'kind': 'geometry', 'f': 'allene', 'p': [mark] + q[1:]})
        for f, pts in (('pyramid', p), ('cis_trans', q), ('allene', [mark] + q[1:])):
            ctx.count(('geometry-law', f, i))
            fails, what = probe({'kind': 'geometry', 'f': f, 'p': pts})
            if fails:
                ctx.fail(f'C12/geometry-sign-law/{f}', what, {'kind': 'geometry', 'f': f, 'p': pts})
    st.run()


def correspond(ctx):
    import chython.algorithms.stereo  # noqa: F401  (import errors surface here as harness-exception)
    ctx.cov['programs'] = 0
    stream_tetra(ctx)
    ctx.cov['programs'] += 1
    stream_ends(ctx)
    ctx.cov['programs'] += 2
    stream_geometry(ctx)
    ctx.cov['programs'] += 3
    stream_spellings(ctx)
    ctx.cov['programs'] += 4   # smiles(), parser order bookkeeping, _format_atom, __eq__/str
    stream_written(ctx)
    ctx.cov['programs'] += 2   # _smiles (canonical), __format__('r')
    stream_ring_double_bonds(ctx)
    stream_polyenes(ctx)
    stream_nonstereogenic(ctx)
    stream_wedges(ctx)
    stream_wedge_model(ctx)
    stream_parser(ctx)
    stream_allenes(ctx)
    stream_history(ctx)
    stream_axis(ctx)
    stream_gate(ctx)
    stream_allene_wedges(ctx)
    stream_allene_wedge_model(ctx)
    stream_dependent(ctx)
    stream_fix_model(ctx)
    stream_reader_rounds(ctx)
    stream_diff_model(ctx)
    ctx.cov['programs'] += 3   # fix_stereo, postprocess_molecule retry rounds vs Model/StereoFix.lean; __differentiation reference choice vs Model/StereoDiff.lean
    ctx.cov['programs'] += 3   # _chiral_morgan/__differentiation through ==/str, fix_stereo restore rounds, postprocess_molecule retry rounds
    ctx.cov['programs'] += 3   # ring_attached_cumulenes / ring linkers via chiral_*, add_wedge allene branch, _wedge_map allene orders
    ctx.cov['programs'] += 3   # add_atom_stereo, add_cis_trans_stereo, clean_stereo through the cache layer
    ctx.cov['programs'] += 2   # parser(), postprocess_molecule cis/trans loop
    ctx.cov['programs'] += 3   # SDFRead/add_wedge, SDFWrite/_wedge_map, calculate_cis_trans_from_2d
    ctx.cov['programs'] += 3   # __chiral_centers via chiral_cis_trans, fix_stereo, stereogenic_* properties
    ctx.exhaustive = not ctx.quick


def _template_by_name(name):
    for sp in tetra_specs() + dbond_specs():
        if sp.name == name:
            return sp
    return None


def search(ctx):
    """Failing-input search: property-level oracles on the real code only (parity oracle, flip-law oracle, configuration
    oracle over spellings, RDKit). Starts at the templates named by the disagreements, then widens (more spellings,
    random molecules with several stereo elements)."""
    import random as _r
    rng = _r.Random(ctx.seed * 7919 + 13)
    budget = 60 if ctx.quick else 420
    t0 = ctx.elapsed()
    found = len(ctx.failures)
    # 1. the exhaustive template streams again, all insertion orders, oracle only
    quick, ctx.tier = ctx.tier, 'thorough'
    try:
        parity_oracle_templates(ctx)
    finally:
        ctx.tier = quick
    # 2. every spelling of every template, configuration oracle + RDKit
    names = [me.get('smiles') for _n, me in _state.get('disagreements', []) if isinstance(me, dict)]
    for spec in tetra_specs() + dbond_specs():
        if ctx.elapsed() - t0 > budget:
            break
        lim = 400 if ctx.quick else None
        sps = list(spellings(spec, rng, lim))
        msps = list(spellings(spec.mirror(), rng, lim))
        config_check(ctx, spec, sps, msps)
    # 3. random molecules with up to 8 stereo elements
    n = 0
    while ctx.elapsed() - t0 < budget and n < (150 if ctx.quick else 1500) and len(ctx.failures) - found < 20:
        n += 1
        spec = random_spec(rng)
        if not spec.centres and not spec.dbonds:
            continue
        sps = list(spellings(spec, rng, 6))
        other = flip_some(rng, spec)
        msps = list(spellings(other, rng, 3))
        config_check(ctx, spec, sps, msps)
    ctx.dist('search-random-molecules', n)


def parity_oracle_templates(ctx):
    """oracle-only pass over the translate templates (no driver): sign algebra laws on the real outputs"""
    for name, (atoms, nbrs) in TETRA_TEMPLATES.items():
        for ins in itertools.permutations(nbrs):
            mol = build(dict(atoms), [(1, x, 1) for x in ins] + [(9, 10, 1)])
            ref = list(nbrs)
            r0 = outcome(mol._translate_tetrahedron_sign, 1, tuple(ref), True)
            for e in itertools.permutations(nbrs):
                ctx.count(('search-tetra-parity', name, ins, e))
                r = outcome(mol._translate_tetrahedron_sign, 1, tuple(e), True)
                if not (r.startswith('ok') and r0.startswith('ok')) or (r != r0) != odd(list(e), ref):
                    ctx.fail('C12/tetrahedron-parity', f'{name}: translate({ref})={r0} translate({list(e)})={r}, odd={odd(list(e), ref)}',
                             {'kind': 'translate-tetra-pair', 'template': name, 'insertion': list(ins), 'env1': ref, 'env2': list(e)})
    for n_cum in (2, 3, 4, 5):
        for left in END_KINDS:
            for right in END_KINDS:
                probe_ends(ctx, n_cum, left, right)


def probe_ends(ctx, n_cum, left, right, only=None):
    import random as _r
    mol, new = ends_template(n_cum, left, right, False, _r.Random(1))
    t1, t2 = new[1], new[n_cum]
    res = {}
    for a in (11, 12):
        for b in (21, 22):
            if a in new and b in new:
                if n_cum % 2 == 0:
                    res[(a, b)] = outcome(mol._translate_cis_trans_sign, t1, t2, new[a], new[b], True)
                else:
                    res[(a, b)] = outcome(mol._translate_allene_sign, new[(n_cum + 1) // 2], new[a], new[b], True)
    res = {k: v for k, v in res.items() if True}
    bad = [k for k, v in res.items() if not v.startswith('ok')]
    if ctx is None:
        return res, bad
    for k in bad:
        ctx.fail(f'C12/ends-documented-call-raises', f'chain of {n_cum} ({left}/{right}): substituents {k} -> {res[k]}',
                 {'kind': 'translate-ends-pair', 'cum': n_cum, 'left': left, 'right': right, 'p1': list(k), 'p2': list(k)})
    return ends_oracle(ctx, {k: v for k, v in res.items() if v.startswith('ok')}, n_cum, left, right,
                       'cis-trans' if n_cum % 2 == 0 else 'allene')


def probe(inp):
    """Re-execute ONE input on the real code: does the property fail on it?"""
    kind = inp.get('kind')
    if kind == 'spelling-pair':
        from chython import smiles
        a, b = smiles(inp['a']), smiles(inp['b'])
        eq = a == b
        return eq != inp['same'], (f"{inp['a']!r} -> {str(a)!r}; {inp['b']!r} -> {str(b)!r}; equal={eq}, "
                                   f"expected {'equal' if inp['same'] else 'different'} (RDKit: {rd_canon(inp['a'])!r} vs {rd_canon(inp['b'])!r})")
    if kind == 'stereo-count':
        from chython import smiles
        m = smiles(inp['smiles'])
        return n_labels(m) != inp['expected'], (f"{inp['smiles']!r} -> {str(m)!r} carries {n_labels(m)} labels, {inp['expected']} of its marked units "
                                                f"are stereogenic (automorphism judge); RDKit: {rd_canon(inp['smiles'])!r}")
    if kind == 'dependent-history':
        return dep_history(inp['smiles'], inp['history'])
    if kind == 'dependent-block':
        return dep_block(inp['smiles'])
    if kind == 'dependent-api':
        return dep_api(inp['plain'], inp['marked'], inp['calls'], inp.get('rounds', False))
    if kind == 'dependent-edit':
        return dep_edit(inp['from'], inp['to'], inp['atom'], inp['symbol'])
    if kind == 'gate':
        return gate_case(inp['template'], inp['seed'], 12)
    if kind == 'axis':
        return axis_case(inp['spec'], inp['seed'], 24)
    if kind == 'allene-wedge':
        return allene_wedge_case(inp['seed'])
    if kind == 'history':
        return history_case(inp['spec'], inp['seed'], tuple(inp['warmups']))
    if kind == 'wedge-roundtrip':
        atoms, nbrs = TETRA_TEMPLATES[inp['template']]
        mol = build(dict(atoms), [(1, x, 1) for x in inp['insertion']] + [(9, 10, 1)])
        for k, (x, y) in inp['coords'].items():
            mol._atoms[int(k)].xy = (x, y)
        mol._atoms[1]._stereo = inp['label']
        mol.flush_cache()
        wm = [w for w in mol._wedge_map if w[0] == 1]
        out = []
        for n_, m_, v in wm:
            if not v:
                continue
            mol._atoms[1]._stereo = None
            mol.flush_cache()
            mol.add_wedge(1, m_, v, clean_cache=False)
            out.append((m_, v, mol._atoms[1].stereo))
        bad = [o for o in out if o[2] is not inp['label']]
        return bool(bad), f"label {inp['label']} drawn as wedges {[(m_, v) for m_, v, _ in out]}, read back as {[r for *_x, r in out]}"
    if kind == 'wedge-explicit-h':
        return wedge_case_explicit_h(inp['smiles'])
    if kind == 'wedge':
        return wedge_case(inp['smiles'])
    if kind == 'write-judge':
        import random as _r
        from chython import smiles
        smi = inp['smiles']
        mi = mini_read(smi)
        mol = smiles(smi)
        tet, db = mini_config(mi, list(range(1, len(mi.atoms) + 1)))
        labelled = {n for n, a in mol.atoms() if a.stereo is not None}
        lab_db = set()
        for n, m_, b in mol.bonds():
            if b.stereo is not None and mol._stereo_cis_trans_terminals.get(n):
                lab_db.add(tuple(sorted(mol._stereo_cis_trans_terminals[n], key=str)))
        tet = {c: v for c, v in tet.items() if c in labelled}
        db = {k: v for k, v in db.items() if k in lab_db}
        r_in = None if _re.search(r'\[\d*(?!C@)[A-Za-z][a-z]?@', smi) else rd_canon(smi)
        for fmt, out, order in written_outputs(mol, _r.Random(0), 300):
            d = judge_written(mol, out, order, tet, db)
            if d:
                return True, f'{smi!r} written as {out!r}: {d[:2]}'
            if r_in is not None and rd_canon(out) != r_in:
                return True, f'{smi!r} (RDKit {r_in!r}) written as {out!r} (RDKit {rd_canon(out)!r})'
        return False, f'{smi!r}: canonical and 300 random-order strings all denote the configuration read independently from the input'
    if kind == 'ring-ez':
        from chython import smiles
        z, e, p = smiles(inp['z']), smiles(inp['e']), smiles(inp['plain'])
        chy_equal = z == e
        rd_equal = rd_canon(inp['z']) == rd_canon(inp['e'])
        what = (f"Z {inp['z']!r} -> {str(z)!r}, E {inp['e']!r} -> {str(e)!r}: chython {'equal' if chy_equal else 'different'}, "
                f"RDKit {'equal' if rd_equal else 'different'}; unlabelled {str(p)!r}")
        return chy_equal != rd_equal or (chy_equal and str(z) != str(p)), what
    if kind == 'nonstereo':
        from chython import smiles
        s = str(smiles(inp['smiles']))
        return s != inp['plain'] or '@' in s or '/' in s or '\\' in s, f"{inp['smiles']!r} -> {s!r}; unmarked molecule {inp['plain']!r}"
    if kind == 'fix-stereo':
        m, has = fix_stereo_case(inp['smiles'], inp['edit'], inp['kept'])
        if inp['kept'] is None:
            return False, f"{inp['smiles']!r} after {inp['edit']}: label {'kept' if has else 'removed'} (no expectation)"
        return has != inp['kept'], f"{inp['smiles']!r} after replacing {inp['edit']}: {str(m)!r}, label {'kept' if has else 'removed'}, expected {'kept' if inp['kept'] else 'removed'}"
    if kind == 'reread':
        from chython import smiles
        m = smiles(inp['smiles'])
        back = smiles(str(m))
        return str(back) != str(m), f"{inp['smiles']!r} -> {str(m)!r} -> {str(back)!r}"
    if kind == 'rdkit':
        from chython import smiles
        out = str(smiles(inp['smiles'])).split()[0]
        r_in, r_out = rd_canon(inp['smiles']), rd_canon(out)
        return r_in != r_out, f"input {inp['smiles']!r} RDKit {r_in!r}; chython writes {out!r}, RDKit {r_out!r}"
    if kind == 'translate-tetra-pair':
        atoms, nbrs = TETRA_TEMPLATES[inp['template']]
        mol = build(dict(atoms), [(1, x, 1) for x in inp['insertion']] + [(9, 10, 1)])
        r1 = outcome(mol._translate_tetrahedron_sign, 1, tuple(inp['env1']), True)
        r2 = outcome(mol._translate_tetrahedron_sign, 1, tuple(inp['env2']), True)
        if len(inp['env2']) == 3 and len(inp['env1']) == 4:
            return r1 != r2, f"translate({inp['env1']})={r1}, translate of its first three={r2}"
        o = odd(inp['env2'], inp['env1'])
        fails = not (r1.startswith('ok') and r2.startswith('ok')) or (r1 != r2) != o
        return fails, f"translate({inp['env1']})={r1}, translate({inp['env2']})={r2}, env2 is an {'odd' if o else 'even'} permutation of env1"
    if kind == 'translate-ends-pair':
        res, bad = probe_ends(None, inp['cum'], inp['left'], inp['right'])
        p1, p2 = tuple(inp['p1']), tuple(inp['p2'])
        if p1 in bad or p2 in bad or p1 not in res or p2 not in res:
            return True, f'documented call raises: {res}'
        expect_diff = (p1[0] != p2[0]) != (p1[1] != p2[1])
        return (res[p1] != res[p2]) != expect_diff, f'{p1}->{res[p1]} {p2}->{res[p2]} expected {"different" if expect_diff else "equal"}'
    if kind == 'geometry':
        from chython.algorithms import stereo as S
        p = inp['p']
        if inp['f'] == 'pyramid':
            a = S._pyramid_sign(*map(tuple, p))
            b = S._pyramid_sign(tuple(p[0]), tuple(p[2]), tuple(p[1]), tuple(p[3]))
            return a != -b, f'_pyramid_sign={a}, with two base points exchanged {b}'
        if inp['f'] == 'cis_trans':
            a = S._cis_trans_sign(*map(tuple, p))
            b = S._cis_trans_sign(*map(tuple, p[::-1]))
            return a != b, f'_cis_trans_sign={a}, read backwards {b}'
        a = S._allene_sign(p[0], *map(tuple, p[1:]))
        b = S._allene_sign(-p[0], *map(tuple, p[1:]))
        return a != -b, f'_allene_sign={a}, with inverted mark {b}'
    return False, f'unknown probe kind {kind!r}'


# ================================================================================================
# independent mini SMILES writer: every spelling of a small molecule with one (or a few) stereo elements
# ================================================================================================
# A molecule spec is (atoms, bonds, centres, dbonds):
#   atoms   {id: symbol}                              heavy atoms and explicit hydrogens ('H')
#   bonds   {(a, b): order}
#   centres {id: (ref, sign)}  ref = neighbour ids in some order, 'h' = the implicit hydrogen;
#           sign True: looking from ref[0] the rest run anticlockwise (the arrangement SMILES writes '@')
#   dbonds  {(a, b): (x, y, cis)}  x a substituent of a, y of b; cis: x and y on the same side
# A spelling is fixed by: start atom of every component, visiting order of the neighbours of every atom,
# order of the ring-closure digits on every atom, order of the components.

class Spec:
    def __init__(self, atoms, bonds, centres=None, dbonds=None, name='', allenes=None):
        self.atoms, self.bonds, self.centres, self.dbonds, self.name = atoms, bonds, centres or {}, dbonds or {}, name
        # allenes {centre: (ref4, sign)}: extended tetrahedron over the four substituents of the two terminal atoms
        # (fully substituted terminals only), same sign convention as `centres`
        self.allenes = allenes or {}
        self.adj = {a: [] for a in atoms}
        for (a, b) in bonds:
            self.adj[a].append(b)
            self.adj[b].append(a)

    def components(self):
        seen, out = set(), []
        for a in self.atoms:
            if a in seen:
                continue
            comp, st = [], [a]
            seen.add(a)
            while st:
                x = st.pop()
                comp.append(x)
                for y in self.adj[x]:
                    if y not in seen:
                        seen.add(y)
                        st.append(y)
            out.append(sorted(comp))
        return out

    def mirror(self):
        return Spec(self.atoms, self.bonds, {c: (r, not s) for c, (r, s) in self.centres.items()},
                    {k: (x, y, not cis) for k, (x, y, cis) in self.dbonds.items()}, self.name + '~mirror',
                    {c: (r, not s) for c, (r, s) in self.allenes.items()})

    def order(self, a, b):
        return self.bonds.get((a, b)) or self.bonds[(b, a)]


ORGANIC = {'B', 'C', 'N', 'O', 'P', 'S', 'F', 'Cl', 'Br', 'I'}


def spell(spec, starts, nbr_order, digit_order, ring_mark_side=0):
    """Write one spelling. starts: start atom per component (in output order); nbr_order[a]: the neighbours of a in
    visiting order; digit_order[a]: key function ordering the ring-closure digits written on a.
    Returns (smiles, index {atom id: token index}, text-order neighbour lists {atom: [ids, 'h' for implicit H]})."""
    parent, children, closures, ring_of = {}, {a: [] for a in spec.atoms}, {a: [] for a in spec.atoms}, {}
    seen = set()

    def dfs(a, p):
        seen.add(a)
        parent[a] = p
        for b in nbr_order[a]:
            if b == p:
                continue
            if b not in seen:
                children[a].append(b)
                dfs(b, a)
            elif frozenset((a, b)) not in ring_of and parent.get(b) != a:
                k = len(ring_of) + 1
                ring_of[frozenset((a, b))] = k
                closures[a].append(b)
                closures[b].append(a)

    for s in starts:
        dfs(s, None)
    # substituent "up/down" relative to its double-bond atom
    up = {}
    for (a, b), (x, y, cis) in spec.dbonds.items():
        up[(a, x)] = 1
        up[(b, y)] = 1 if cis else -1

    def bond_sym(p, q, ring=False):
        """symbol written on the bond when going from p to q"""
        o = spec.order(p, q)
        if o == 2:
            return '='
        if o == 3:
            return '#'
        if (p, q) in up:      # p is the double-bond atom, q the substituent written after it
            return '/' if up[(p, q)] == 1 else '\\'
        if (q, p) in up:      # q is the double-bond atom, p the substituent written before it
            return '\\' if up[(q, p)] == 1 else '/'
        return ''

    text_nbrs, index, out = {}, {}, []
    digits = {}
    counter = [0]

    def emit(a):
        index[a] = counter[0]
        counter[0] += 1
        p = parent[a]
        cl = sorted(closures[a], key=digit_order[a]) if digit_order.get(a) else list(closures[a])
        ch = children[a]
        nb = ([p] if p is not None else []) + cl + ch
        sym = spec.atoms[a]
        if a in spec.centres:
            ref, sign = spec.centres[a]
            full = list(nb)
            nh = 0
            if 'h' in ref:
                nh = 1
                full.insert(1 if p is not None else 0, 'h')
            at = sign != odd(full, list(ref))  # sign True and even -> '@'
            out.append(f"[{sym}{'@' if at else '@@'}{'H' if nh else ''}]")
        elif a in spec.allenes:
            # OpenSMILES extended tetrahedral: the substituents of the two terminal atoms in text order
            ref, sign = spec.allenes[a]
            full = []
            for t in nb:
                tp = parent[t]
                tcl = sorted(closures[t], key=digit_order[t]) if digit_order.get(t) else list(closures[t])
                full += [x for x in ([tp] if tp is not None else []) + tcl + children[t] if x != a]
            at = sign != odd(full, list(ref))
            out.append(f"[{sym}{'@' if at else '@@'}]")
        elif sym in ORGANIC:
            out.append(sym)
        else:
            out.append(f'[{sym}]')
        text_nbrs[a] = nb
        for b in cl:
            k = ring_of[frozenset((a, b))]
            first = k not in digits
            digits[k] = True
            o = spec.order(a, b)
            s = ''
            if o != 1:
                s = bond_sym(a, b) if first else ''
            elif ((a, b) in up or (b, a) in up) and (first if ring_mark_side == 0 else not first):
                s = bond_sym(a, b)
            out.append(s + (str(k) if k < 10 else f'%{k}'))
        for i, c in enumerate(ch):
            last = i == len(ch) - 1
            if not last:
                out.append('(')
            out.append(bond_sym(a, c))
            emit(c)
            if not last:
                out.append(')')

    for i, s in enumerate(starts):
        if i:
            out.append('.')
        emit(s)
    text_nbrs['#parent'] = dict(parent)
    return ''.join(out), index, text_nbrs


def spellings(spec, rng=None, limit=None):
    """All spellings (or a random sample of `limit`) of a spec: component order x start atoms x neighbour orders x digit orders."""
    comps = spec.components()
    atoms = list(spec.atoms)

    def one(r):
        cs = list(comps)
        r.shuffle(cs)
        starts = [r.choice(c) for c in cs]
        nbr_order = {a: r.sample(spec.adj[a], len(spec.adj[a])) for a in atoms}
        keys = {a: {b: r.random() for b in spec.adj[a]} for a in atoms}
        return spell(spec, starts, nbr_order, {a: keys[a].get for a in atoms}, r.randint(0, 1))

    if limit is not None:
        seen = set()
        for _ in range(limit * 4):
            s = one(rng)
            if s[0] not in seen:
                seen.add(s[0])
                yield s
                if len(seen) >= limit:
                    return
        return
    # exhaustive: product over component orders, start atoms, per-atom neighbour permutations; digit order both ways
    seen = set()
    branching = [a for a in atoms if len(spec.adj[a]) > 1]
    for cs in itertools.permutations(comps):
        for starts in itertools.product(*cs):
            for perms in itertools.product(*[list(itertools.permutations(spec.adj[a])) for a in branching]):
                nbr_order = {a: list(spec.adj[a]) for a in atoms}
                nbr_order.update({a: list(p) for a, p in zip(branching, perms)})
                for rev in (False, True):
                    for side in (0, 1):
                        def key_for(a, rev=rev, nbr_order=nbr_order):
                            pos = {b: i for i, b in enumerate(nbr_order[a])}
                            return (lambda b: -pos[b]) if rev else (lambda b: pos[b])
                        s = spell(spec, list(starts), nbr_order, {a: key_for(a) for a in atoms}, side)
                        if s[0] not in seen:
                            seen.add(s[0])
                            yield s


def tetra_specs():
    out = []
    base = {1: 'C', 2: 'F', 3: 'Cl', 4: 'Br'}
    b3 = {(1, 2): 1, (1, 3): 1, (1, 4): 1}
    out.append(Spec({**base, 5: 'I'}, {**b3, (1, 5): 1}, {1: ([2, 3, 4, 5], True)}, name='CFClBrI'))
    out.append(Spec(dict(base), dict(b3), {1: ([2, 3, 4, 'h'], True)}, name='CHFClBr'))
    out.append(Spec({**base, 5: 'H'}, {**b3, (1, 5): 1}, {1: ([2, 3, 4, 5], True)}, name='C[H]FClBr'))
    # second component: the centre may be the first atom of a later component
    out.append(Spec({**base, 6: 'O'}, dict(b3), {1: ([2, 3, 4, 'h'], True)}, name='CHFClBr.O'))
    out.append(Spec({**base, 5: 'I', 6: 'O'}, {**b3, (1, 5): 1}, {1: ([2, 3, 4, 5], True)}, name='CFClBrI.O'))
    # ring through the centre: oxetane C1(F)(X)OCC1
    ring = {1: 'C', 2: 'F', 3: 'Cl', 4: 'O', 5: 'C', 6: 'C'}
    rb = {(1, 2): 1, (1, 3): 1, (1, 4): 1, (4, 5): 1, (5, 6): 1, (6, 1): 1}
    out.append(Spec(ring, rb, {1: ([2, 3, 4, 6], True)}, name='oxetane-FCl'))
    ringh = {1: 'C', 2: 'F', 4: 'O', 5: 'C', 6: 'C'}
    rbh = {(1, 2): 1, (1, 4): 1, (4, 5): 1, (5, 6): 1, (6, 1): 1}
    out.append(Spec(ringh, rbh, {1: ([2, 'h', 4, 6], True)}, name='oxetane-FH'))
    # chain substituents: the start atom can be far from the centre
    chain = {1: 'C', 2: 'F', 3: 'N', 4: 'C', 5: 'C', 6: 'O', 7: 'C'}
    cb = {(1, 2): 1, (1, 3): 1, (1, 4): 1, (4, 5): 1, (1, 7): 1, (7, 6): 1}
    out.append(Spec(chain, cb, {1: ([2, 3, 4, 7], True)}, name='C(F)(N)(CC)CO'))
    chainh = {1: 'C', 3: 'N', 4: 'C', 5: 'C', 6: 'O', 7: 'C'}
    cbh = {(1, 3): 1, (1, 4): 1, (4, 5): 1, (1, 7): 1, (7, 6): 1}
    out.append(Spec(chainh, cbh, {1: (['h', 3, 4, 7], True)}, name='CH(N)(CC)CO'))
    # two centres
    two = {1: 'C', 2: 'F', 3: 'Cl', 4: 'C', 5: 'Br', 6: 'O'}
    tb = {(1, 2): 1, (1, 3): 1, (1, 4): 1, (4, 5): 1, (4, 6): 1}
    out.append(Spec(two, tb, {1: ([2, 3, 4, 'h'], True), 4: ([1, 5, 6, 'h'], False)}, name='CHFCl-CHBrO'))
    return out


def dbond_specs():
    out = []
    a4 = {1: 'C', 2: 'C', 3: 'F', 4: 'Cl', 5: 'Br', 6: 'I'}
    b4 = {(1, 2): 2, (1, 3): 1, (1, 4): 1, (2, 5): 1, (2, 6): 1}
    out.append(Spec(a4, b4, dbonds={(1, 2): (3, 5, True)}, name='FClC=CBrI'))
    a2 = {1: 'C', 2: 'C', 3: 'F', 5: 'Br'}
    b2 = {(1, 2): 2, (1, 3): 1, (2, 5): 1}
    out.append(Spec(a2, b2, dbonds={(1, 2): (3, 5, True)}, name='FHC=CHBr'))
    a3 = {1: 'C', 2: 'C', 3: 'F', 4: 'Cl', 5: 'Br'}
    b3 = {(1, 2): 2, (1, 3): 1, (1, 4): 1, (2, 5): 1}
    out.append(Spec(a3, b3, dbonds={(1, 2): (4, 5, False)}, name='FClC=CHBr'))
    ah = {1: 'C', 2: 'C', 3: 'F', 4: 'H', 5: 'Br', 6: 'H'}
    bh = {(1, 2): 2, (1, 3): 1, (1, 4): 1, (2, 5): 1, (2, 6): 1}
    out.append(Spec(ah, bh, dbonds={(1, 2): (3, 5, False)}, name='F[H]C=C[H]Br'))
    ch = {1: 'C', 2: 'C', 3: 'C', 4: 'N', 5: 'C', 6: 'O', 7: 'C'}
    cb = {(1, 2): 2, (1, 3): 1, (3, 4): 1, (2, 5): 1, (5, 6): 1, (2, 7): 1}
    out.append(Spec(ch, cb, dbonds={(1, 2): (3, 5, True)}, name='NCC=C(C)CO'))
    # macrocycle (cyclooctene-like ring of 9 with hetero atoms so that E/Z is defined and ring closures may carry the marks)
    mc = {i: 'C' for i in range(1, 10)}
    mc[5] = 'O'
    mb = {(i, i + 1): 1 for i in range(1, 9)}
    mb[(9, 1)] = 1
    mb[(1, 2)] = 2
    out.append(Spec(mc, mb, dbonds={(1, 2): (9, 3, True)}, name='oxacyclononene'))
    return out


HALOGENS = ['F', 'Cl', 'Br', 'I']


def random_spec(rng, max_elements=8):
    """Random molecule with up to `max_elements` labelled stereo elements whose substituents are constitutionally distinct
    by construction: a carbon backbone 1..L with an N at one end and an O at the other (so the two backbone directions
    always differ), halogen side substituents (two on one atom always different), isolated double bonds between inner
    backbone atoms, optionally one or two ring-closing bonds between sp3 backbone atoms (ring atoms become ring centres,
    the ring-closing atoms ring-fusion-like centres)."""
    L = rng.randint(4, 10)
    atoms = {i: 'C' for i in range(1, L + 1)}
    atoms[100], atoms[101] = 'N', 'O'
    bonds = {(100, 1): 1, (L, 101): 1}
    for i in range(1, L):
        bonds[(i, i + 1)] = 1
    dbl, i = [], 2
    while i + 1 <= L - 1:
        if rng.random() < 0.3:
            dbl.append(i)
            bonds[(i, i + 1)] = 2
            i += 3
        else:
            i += 1
    sp2 = {x for d in dbl for x in (d, d + 1)}
    deg = {i: 2 for i in range(1, L + 1)}
    rings = []
    for _ in range(rng.choice([0, 0, 1, 1, 2])):
        i = rng.randint(1, L - 2)
        j = i + rng.randint(2, 6)
        if j > L or any(x in sp2 for x in range(i, j + 1)) or deg[i] > 2 or deg[j] > 2:
            continue
        if any(not (j < a or b < i) for a, b in rings):   # keep ring spans disjoint: no fused/bridged symmetry traps
            continue
        bonds[(i, j)] = 1
        deg[i] += 1
        deg[j] += 1
        rings.append((i, j))
    nxt = 200
    centres, dbonds = {}, {}
    adj = {a: [] for a in atoms}
    for (a, b) in bonds:
        adj[a].append(b)
        adj[b].append(a)
    for i in range(1, L + 1):
        free = 4 - deg[i] - (1 if i in sp2 else 0)
        k = rng.choice([0, 1, 1, 2]) if free >= 2 else rng.choice([0, 1]) if free == 1 else 0
        if i in sp2:
            k = min(k, 1)
        hal = rng.sample(HALOGENS, k)
        for h in hal:
            atoms[nxt] = h
            bonds[(i, nxt)] = 1
            adj[i].append(nxt)
            adj[nxt] = [i]
            nxt += 1
    n_el = 0
    for i in range(1, L + 1):
        if i in sp2 or n_el >= max_elements:
            continue
        nb = list(adj[i])
        if len(nb) == 4 or len(nb) == 3:
            if rng.random() < 0.85:
                ref = nb + (['h'] if len(nb) == 3 else [])
                rng.shuffle(ref)
                centres[i] = (ref, rng.random() < 0.5)
                n_el += 1
    for d in dbl:
        if n_el >= max_elements:
            break
        if rng.random() < 0.85:
            dbonds[(d, d + 1)] = (d - 1 if d - 1 >= 1 else 100, d + 2 if d + 2 <= L else 101, rng.random() < 0.5)
            n_el += 1
    return Spec(atoms, bonds, centres, dbonds, name=f'random-L{L}-t{len(centres)}-d{len(dbonds)}-r{len(rings)}')


def flip_subset(spec, cs, ds, als=()):
    return Spec(spec.atoms, spec.bonds, {c: (r, (not s) if c in cs else s) for c, (r, s) in spec.centres.items()},
                {k: (x, y, (not cis) if k in ds else cis) for k, (x, y, cis) in spec.dbonds.items()}, spec.name + '~flipped',
                {c: (r, (not s) if c in als else s) for c, (r, s) in spec.allenes.items()})


def flip_some(rng, spec):
    els = [('c', c) for c in spec.centres] + [('d', d) for d in spec.dbonds]
    if not els:
        return spec
    k = rng.randint(1, len(els))
    pick = rng.sample(els, k)
    return flip_subset(spec, {x for t, x in pick if t == 'c'}, {x for t, x in pick if t == 'd'})


def rd_canon(smi):
    from rdkit import Chem
    m = Chem.MolFromSmiles(smi)
    if m is None:
        return None
    return Chem.MolToSmiles(m)


def config_check(ctx, spec, sps, mirror_sps, use_rdkit=True, sig_prefix='C12'):
    """Property-level oracle on the real code (never consults the Lean model):
    every spelling of one configuration parses to the same molecule; spellings of the mirror image do not;
    RDKit derives the same configuration from the input spelling and from chython's output."""
    from chython import smiles
    strs, bad = {}, 0
    for grp, lst_ in (('same', sps), ('mirror', mirror_sps)):
        for smi, index, nbrs in lst_:
            ctx.count(('spelling', smi))
            try:
                m = smiles(smi)
                strs.setdefault(grp, {})[smi] = str(m)
                back = smiles(str(m))
                if str(back) != str(m):
                    bad += 1
                    ctx.fail(f'{sig_prefix}/write-read-changes-configuration/{spec.name}',
                             f'{smi!r} is written as {str(m)!r}, which reads back as {str(back)!r}', {'kind': 'reread', 'smiles': smi})
            except Exception as e:
                strs.setdefault(grp, {})[smi] = f'!{type(e).__name__}'
    same, mirror = strs.get('same', {}), strs.get('mirror', {})
    if not same:
        return 0
    ref_smi, ref = next(iter(same.items()))
    for smi, s in same.items():
        if s != ref:
            bad += 1
            ctx.fail(f'{sig_prefix}/spellings-of-one-configuration-differ/{spec.name}',
                     f'{ref_smi!r} -> {ref!r} but {smi!r} -> {s!r} (same configuration of {spec.name})',
                     {'kind': 'spelling-pair', 'a': ref_smi, 'b': smi, 'same': True})
    for smi, s in mirror.items():
        if s == ref:
            bad += 1
            ctx.fail(f'{sig_prefix}/mirror-images-equal/{spec.name}',
                     f'{ref_smi!r} and its mirror image {smi!r} both give {s!r}',
                     {'kind': 'spelling-pair', 'a': ref_smi, 'b': smi, 'same': False})
    if use_rdkit:
        rref = rd_canon(ref_smi)
        for grp, d in (('same', same), ('mirror', mirror)):
            for smi, s in d.items():
                ctx.count(('rdkit', smi))
                r_in = rd_canon(smi)
                if (r_in == rref) != (grp == 'same'):
                    ctx.notes.append(f'spelling generator and RDKit disagree on {smi!r} vs {ref_smi!r} ({grp}); case skipped')
                    ctx.dist('rdkit-generator-disagreement')
                    continue
                r_out = rd_canon(s.split()[0]) if not s.startswith('!') else None
                if r_out != r_in:
                    bad += 1
                    ctx.fail(f'{sig_prefix}/rdkit-disagrees/{spec.name}',
                             f'input {smi!r} (RDKit canonical {r_in!r}) is written by chython as {s!r} (RDKit canonical {r_out!r})',
                             {'kind': 'rdkit', 'smiles': smi})
    return bad


def stream_spellings(ctx):
    """K: real reader and real writer vs the model on every spelling; R: configuration oracle + RDKit."""
    from chython import smiles, MoleculeContainer
    rd = Stream(ctx, 'smiles_reader_tetrahedron')
    wr = Stream(ctx, 'smiles_writer_tetrahedron')
    rec = []
    orig = MoleculeContainer._format_atom

    def spy(self, n, adjacency, **kw):
        r = orig(self, n, adjacency, **kw)
        if self._atoms[n].stereo is not None and n in self.stereogenic_tetrahedrons:
            rec.append((n, list(adjacency[n]), next(iter(adjacency)) == n, r))
        return r

    import chython.algorithms.smiles as SM
    old_random = SM.random
    MoleculeContainer._format_atom = spy
    SM.random = ctx.rng.random
    try:
        for spec in tetra_specs():
            lim = None
            n_all = None
            if ctx.quick:
                lim = 60
            sps = list(spellings(spec, ctx.rng, lim))
            msps = list(spellings(spec.mirror(), ctx.rng, lim if lim else None))
            ctx.dist(f'spellings:{spec.name}', len(sps) + len(msps))
            for grp in (sps, msps):
                for smi, index, nbrs in grp:
                    try:
                        mol = smiles(smi)
                    except Exception as e:
                        ctx.broke('correspondence', 'smiles_reader_tetrahedron', f'{smi!r} raised {type(e).__name__}: {e}')
                        continue
                    num = {a: index[a] + 1 for a in index}     # chython numbers atoms by token position, from 1
                    hs = h_atoms(mol)
                    for c in (spec if grp is sps else spec.mirror()).centres:
                        n = num[c]
                        order = list(mol.stereogenic_tetrahedrons.get(n, ()))
                        env = [num[x] for x in nbrs[c]]
                        mark = '@@' not in smi_token(smi, index[c])
                        real = f'ok {int(mol._atoms[n].stereo)}' if mol._atoms[n].stereo is not None else 'none'
                        rd.add(' '.join(map(str, ['rt'] + lst(order) + lst(env) + lst(hs) +
                                                [int(nbrs['#parent'][c] is None), mol._atoms[n].implicit_hydrogens or 0, int(mark)])), real,
                               {'kind': 'reader', 'smiles': smi, 'centre': n})
                    # writer: canonical + two random orders
                    for fmt in ('', 'r', 'r'):
                        del rec[:]
                        mol.__dict__.pop('__cached_method___str__', None)
                        try:
                            out = format(mol, fmt) if fmt else str(mol)
                        except Exception as e:
                            ctx.broke('correspondence', 'smiles_writer_tetrahedron', f'{smi!r} fmt={fmt!r} raised {type(e).__name__}: {e}')
                            continue
                        for n, adj, first, tok in rec:
                            a = mol._atoms[n]
                            wr.add(' '.join(map(str, ['wt'] + lst(mol.stereogenic_tetrahedrons[n]) + lst(adj) + lst(hs) +
                                                    [tri(a.stereo), a.implicit_hydrogens or 0, int(first)])),
                                   f"ok {int('@@' not in tok)}", {'kind': 'writer', 'smiles': smi, 'fmt': fmt, 'out': out})
            config_check(ctx, spec, sps, msps)
        # R only (the direction-mark propagation `__ct_map` / `stereo_bonds` is not in the Lean model): double bonds
        for spec in dbond_specs():
            lim = 60 if ctx.quick else None
            sps = list(spellings(spec, ctx.rng, lim))
            msps = list(spellings(spec.mirror(), ctx.rng, lim))
            ctx.dist(f'spellings:{spec.name}', len(sps) + len(msps))
            config_check(ctx, spec, sps, msps)
        # R: random molecules with up to 8 stereo elements (chain, ring, ring-closing atoms, isolated double bonds)
        n_rand = 120 if ctx.quick else 2500
        for _ in range(n_rand):
            spec = random_spec(ctx.rng)
            if not spec.centres and not spec.dbonds:
                continue
            k = len(spec.centres) + len(spec.dbonds)
            ctx.dist(f'random-molecule-stereo-elements:{k}')
            sps = list(spellings(spec, ctx.rng, 6))
            if k <= (2 if ctx.quick else 4) and ctx.rng.random() < 0.3:
                all_label_combinations(ctx, spec)
            else:
                config_check(ctx, spec, sps, list(spellings(flip_some(ctx.rng, spec), ctx.rng, 3)))
    finally:
        MoleculeContainer._format_atom = orig
        SM.random = old_random
    rd.run()
    wr.run()


def all_label_combinations(ctx, spec):
    """all 2^k label combinations of one constitution: pairwise different molecules, each stable under respelling"""
    from chython import smiles
    els = [('c', c) for c in spec.centres] + [('d', d) for d in spec.dbonds]
    seen = {}
    for mask in range(1 << len(els)):
        pick = [e for i, e in enumerate(els) if mask >> i & 1]
        sp = flip_subset(spec, {x for t, x in pick if t == 'c'}, {x for t, x in pick if t == 'd'})
        strs = set()
        first = None
        for smi, *_ in spellings(sp, ctx.rng, 4):
            ctx.count(('combo', smi))
            first = first or smi
            strs.add(str(smiles(smi)))
        if len(strs) != 1:
            ctx.fail(f'C12/spellings-of-one-configuration-differ/random', f'{first!r}: respellings give {sorted(strs)[:3]}',
                     {'kind': 'spelling-pair', 'a': first, 'b': first, 'same': True})
            continue
        st = strs.pop()
        if st in seen:
            ctx.fail('C12/stereoisomers-equal/random', f'{seen[st]!r} and {first!r} differ in stereo labels but both give {st!r}',
                     {'kind': 'spelling-pair', 'a': seen[st], 'b': first, 'same': False})
        seen[st] = first


def smi_token(smi, idx):
    """the idx-th atom token of a spelling produced by `spell` (bracket atom or organic symbol)"""
    import re
    toks = re.findall(r'\[[^\]]*\]|Cl|Br|[BCNOPSFI]', smi)
    return toks[idx]


# ================================================================================================
# independent mini SMILES reader (topology + stereo marks only) and configuration judge
# ================================================================================================
# Written from the OpenSMILES grammar, shares nothing with chython's tokenizer/parser and nothing with `spell`.

import re as _re

_ATOM_RE = _re.compile(r'\[(?P<iso>\d+)?(?P<sym>[A-Za-z][a-z]?)(?P<chi>@@?)?(?P<h>H\d*)?(?P<chg>[+-]+\d*|[+-]\d+)?(?::(?P<map>\d+))?\]')
_ORG_RE = _re.compile(r'Cl|Br|[BCNOPSFI]|[bcnops]')


class MiniMol:
    """atoms: list of dicts (sym, chi: None|'@'|'@@', h: explicit bracket H count or None, start: no preceding atom);
    nbrs[i]: neighbours in text order (ring-closure partners at the position of their digit);
    dirs[(i, j)]: +1 if the bond i->j is written as going 'up' from i ('/' when written i then j), -1 for 'down'."""

    def __init__(self):
        self.atoms, self.nbrs, self.dirs, self.orders, self.ring_bonds = [], [], {}, {}, set()


def mini_read(smi):
    m = MiniMol()
    i, n = 0, len(smi)
    prev, stack, pend, dot = None, [], None, True
    rings = {}
    while i < n:
        ch = smi[i]
        if ch == ' ':
            break
        if ch == '(':
            stack.append(prev)
            i += 1
        elif ch == ')':
            prev = stack.pop()
            i += 1
        elif ch == '.':
            dot = True
            pend = None
            i += 1
        elif ch in '-=#:$~/\\':
            pend = ch
            i += 1
        elif ch.isdigit() or ch == '%':
            if ch == '%':
                k = int(smi[i + 1:i + 3])
                i += 3
            else:
                k = int(ch)
                i += 1
            if k in rings:
                a, slot, sym = rings.pop(k)
                m.nbrs[a][slot] = prev
                m.nbrs[prev].append(a)
                for s, (x, y) in ((sym, (a, prev)), (pend, (prev, a))):
                    if s in ('/', '\\'):
                        d = 1 if s == '/' else -1
                        m.dirs[(x, y)] = d
                        m.dirs[(y, x)] = -d
                o = (pend if pend not in (None, '/', '\\') else None) or (sym if sym not in (None, '/', '\\') else None)
                m.orders[frozenset((a, prev))] = o or '-'
                m.ring_bonds.add(frozenset((a, prev)))
            else:
                rings[k] = (prev, len(m.nbrs[prev]), pend)
                m.nbrs[prev].append(None)
            pend = None
        else:
            mo = _ATOM_RE.match(smi, i) if ch == '[' else _ORG_RE.match(smi, i)
            if not mo:
                raise ValueError(f'mini_read: cannot read {smi[i:i + 8]!r} in {smi!r}')
            idx = len(m.atoms)
            if ch == '[':
                h = mo.group('h')
                m.atoms.append({'sym': mo.group('sym'), 'chi': mo.group('chi'), 'h': 0 if not h else (int(h[1:]) if len(h) > 1 else 1),
                                'start': prev is None or dot})
            else:
                m.atoms.append({'sym': mo.group(), 'chi': None, 'h': None, 'start': prev is None or dot})
            m.nbrs.append([])
            if prev is not None and not dot:
                m.nbrs[prev].append(idx)
                m.nbrs[idx].append(prev)
                if pend in ('/', '\\'):
                    d = 1 if pend == '/' else -1
                    m.dirs[(prev, idx)] = d
                    m.dirs[(idx, prev)] = -d
                m.orders[frozenset((prev, idx))] = pend if pend not in (None, '/', '\\') else '-'
            prev, dot, pend = idx, False, None
            i = mo.end()
    if rings or stack:
        raise ValueError(f'mini_read: unbalanced {smi!r}')
    return m


def mini_config(m, ident):
    """Configuration of every marked element, expressed on caller-supplied atom identities `ident[token index]`.
    tetrahedral: {centre: (neighbour list with 'h' for the implicit hydrogen, anticlockwise?)}
    double bonds: {(a, b) with a < b by identity: {(x, y): cis?}} for every pair of marked substituents."""
    tet, db = {}, {}
    for i, a in enumerate(m.atoms):
        if a['chi'] and len(m.nbrs[i]) + (a['h'] or 0) == 4 and (a['h'] or 0) <= 1:
            full = [ident[x] for x in m.nbrs[i]]
            if a['h']:
                full.insert(0 if a['start'] else 1, 'h')
            tet[ident[i]] = (full, a['chi'] == '@')
    for bond, o in m.orders.items():
        if o != '=':
            continue
        a, b = tuple(bond)
        da = {x: m.dirs[(a, x)] for x in m.nbrs[a] if (a, x) in m.dirs and x != b}
        dbb = {y: m.dirs[(b, y)] for y in m.nbrs[b] if (b, y) in m.dirs and y != a}
        if da and dbb:
            key = tuple(sorted((ident[a], ident[b]), key=str))
            # marks are relative to the written direction: 'up from a' and 'up from b' on the same side = cis
            db[key] = {(ident[x], ident[y]) if key[0] == ident[a] else (ident[y], ident[x]): dx == dy
                       for x, dx in da.items() for y, dy in dbb.items()}
    return tet, db


def same_tetra(c1, c2):
    """two (neighbour list, anticlockwise?) descriptions of one centre denote the same configuration"""
    (l1, s1), (l2, s2) = c1, c2
    if sorted(map(str, l1)) != sorted(map(str, l2)):
        return None
    return (s1 == s2) != odd(l2, l1)


def db_cis(desc, nbrs_a, nbrs_b, x, y):
    """cis/trans of substituents (x on a, y on b) from any marked pair of the same double bond (flip per end)"""
    for (p, q), cis in desc.items():
        return cis == ((p == x) == (q == y))
    return None


def judge_written(mol, out, order, ref_tet, ref_db):
    """Compare the configuration written in `out` (token k is atom order[k]) with the reference configuration
    (`ref_tet`, `ref_db` on atom numbers). Returns list of differences."""
    m = mini_read(out)
    ident = list(order)
    tet, db = mini_config(m, ident)
    diffs = []
    for c, ref in ref_tet.items():
        if c not in tet:
            diffs.append(f'centre {c}: no mark written')
        else:
            r = same_tetra(ref, tet[c])
            if r is not True:
                diffs.append(f'centre {c}: written {tet[c]} vs reference {ref}' + (' (different neighbours)' if r is None else ' (mirror image)'))
    for c in tet:
        if c not in ref_tet:
            diffs.append(f'centre {c}: mark written but none in the reference')
    pos = {a: i for i, a in enumerate(ident)}
    for key, ref in ref_db.items():
        if key not in db:
            diffs.append(f'double bond {key}: no marks written')
            continue
        (x, y), cis = next(iter(ref.items()))
        (p, q), cis2 = next(iter(db[key].items()))
        if (cis2 == ((p == x) == (q == y))) != cis:
            a, b = pos[key[0]], pos[key[1]]
            conj = any(m.orders.get(frozenset((z, w))) == '=' for t in (a, b) for z in m.nbrs[t] if z not in (a, b)
                       for w in m.nbrs[z] if w not in (a, b))
            cls = ' [conjugated double bond in a ring]' if conj and mini_in_ring(m, a, b) else ''
            diffs.append(f'double bond {key}: written {db[key]} vs reference {ref}{cls}')
    # marks around a double bond that carries no label are not judged: in a conjugated chain the single bonds next to it
    # carry the marks of its labelled neighbours, and for a non-stereogenic bond they mean nothing
    return diffs


def mini_in_ring(m, a, b):
    """bond a-b of a MiniMol lies on a cycle"""
    seen, st = {a}, [a]
    while st:
        x = st.pop()
        for y in m.nbrs[x]:
            if y is None or (x == a and y == b):
                continue
            if y == b:
                return True
            if y not in seen:
                seen.add(y)
                st.append(y)
    return False


# ================================================================================================
# streams added after coordinator feedback: written configuration (multi-closure centres), ring double bonds,
# non-stereogenic labels
# ================================================================================================

def cage_specs():
    """centres that carry two or three ring-closure digits in some spellings: spiro, fused, bridged, cage"""
    out = []
    # spiro[3.4]: ring A 1-2(O)-3-4, ring B 1-5(N)-6-7-8
    a = {1: 'C', 2: 'O', 3: 'C', 4: 'C', 5: 'N', 6: 'C', 7: 'C', 8: 'C'}
    b = {(1, 2): 1, (2, 3): 1, (3, 4): 1, (4, 1): 1, (1, 5): 1, (5, 6): 1, (6, 7): 1, (7, 8): 1, (8, 1): 1}
    out.append(Spec(a, b, {1: ([2, 4, 5, 8], True)}, name='spiro[3.4]'))
    # fused bicyclo[4.3.0]: shared bond 1-2; ring A 1-2-3(O)-4-5, ring B 1-2-6(N)-7-8-9
    a = {1: 'C', 2: 'C', 3: 'O', 4: 'C', 5: 'C', 6: 'N', 7: 'C', 8: 'C', 9: 'C'}
    b = {(1, 2): 1, (2, 3): 1, (3, 4): 1, (4, 5): 1, (5, 1): 1, (2, 6): 1, (6, 7): 1, (7, 8): 1, (8, 9): 1, (9, 1): 1}
    out.append(Spec(a, b, {1: ([2, 5, 9, 'h'], True), 2: ([1, 3, 6, 'h'], False)}, name='fused[4.3.0]'))
    out.append(Spec({**a, 10: 'F', 11: 'C'}, {**b, (1, 10): 1, (2, 11): 1}, {1: ([2, 5, 9, 10], True), 2: ([1, 3, 6, 11], True)},
                    name='fused[4.3.0]-F,Me'))
    # bridged bicyclo[2.2.1]: bridgeheads 1, 4; bridges 1-2(O)-3-4, 1-5-6-4, 1-7(N)-4
    a = {1: 'C', 2: 'O', 3: 'C', 4: 'C', 5: 'C', 6: 'C', 7: 'N', 8: 'F'}
    b = {(1, 2): 1, (2, 3): 1, (3, 4): 1, (1, 5): 1, (5, 6): 1, (6, 4): 1, (1, 7): 1, (7, 4): 1, (1, 8): 1}
    out.append(Spec(a, b, {1: ([2, 5, 7, 8], True), 4: ([3, 6, 7, 'h'], True)}, name='bridged[2.2.1]'))
    # cage: centre 1 with four ring neighbours 2(O),4,6,8 joined 2-3-4-5(N)-6-7-8
    a = {1: 'C', 2: 'O', 3: 'C', 4: 'C', 5: 'N', 6: 'C', 7: 'C', 8: 'C'}
    b = {(1, 2): 1, (2, 3): 1, (3, 4): 1, (4, 1): 1, (4, 5): 1, (5, 6): 1, (6, 1): 1, (6, 7): 1, (7, 8): 1, (8, 1): 1}
    out.append(Spec(a, b, {1: ([2, 4, 6, 8], True), 4: ([3, 1, 5, 'h'], True), 6: ([5, 1, 7, 'h'], False)}, name='cage-3-closures'))
    # steroid-like fused tricycle with hetero atoms (three ring-fusion centres with H)
    a = {i: 'C' for i in range(1, 14)}
    a[3], a[12] = 'O', 'N'
    b = {(1, 2): 1, (2, 3): 1, (3, 4): 1, (4, 5): 1, (5, 6): 1, (6, 1): 1,          # ring A 1..6
         (5, 7): 1, (7, 8): 1, (8, 9): 1, (9, 10): 1, (10, 6): 1,                    # ring B 5,6,7,8,9,10
         (9, 11): 1, (11, 12): 1, (12, 13): 1, (13, 10): 1}                           # ring C 9,10,11,12,13
    out.append(Spec(a, b, {5: ([4, 6, 7, 'h'], True), 6: ([1, 5, 10, 'h'], False), 9: ([8, 10, 11, 'h'], True),
                           10: ([6, 9, 13, 'h'], True)}, name='fused-tricycle'))
    return out


def spec_reference(spec, index):
    """reference configuration of a spelled spec on chython atom numbers (token index + 1)"""
    num = {a: index[a] + 1 for a in index}
    tet = {num[c]: ([num[x] if x != 'h' else 'h' for x in ref], sign) for c, (ref, sign) in spec.centres.items()}
    db = {}
    for (a, b), (x, y, cis) in spec.dbonds.items():
        key = tuple(sorted((num[a], num[b]), key=str))
        db[key] = {((num[x], num[y]) if key[0] == num[a] else (num[y], num[x])): cis}
    return tet, db


def written_outputs(mol, rng, k):
    """canonical string + k random-order strings with their atom orders"""
    import chython.algorithms.smiles as SM
    outs = [('', str(mol).split()[0], list(mol.smiles_atoms_order))]
    old = SM.random
    SM.random = rng.random
    try:
        for _ in range(k):
            s, order = mol.__format__('r', _return_order=True)
            outs.append(('r', s, list(order)))
    finally:
        SM.random = old
    return outs


def judge_input(ctx, smi, ref_tet, ref_db, rng, k, tag, use_rdkit=True, kstream=None):
    """parse `smi` with chython, write it canonically and in k random orders, judge every written string with the
    independent reader against the reference configuration (and with RDKit)."""
    from chython import smiles
    try:
        mol = smiles(smi)
    except Exception as e:
        ctx.dist(f'judge-skip:{type(e).__name__}')
        return 0
    labelled = {n for n, a in mol.atoms() if a.stereo is not None}
    bad = 0
    if use_rdkit and _re.search(r'\[\d*(?!C@)[A-Za-z][a-z]?@', smi):
        use_rdkit = False     # chirality marks on non-carbon atoms: outside chython's stereo model (carbon tetrahedra only)
        ctx.dist('rdkit-skipped:non-carbon-centre')
    r_in = rd_canon(smi) if use_rdkit else None
    for fmt, out, order in written_outputs(mol, rng, k):
        ctx.count(('written', out))
        if kstream is not None:
            # K: the mark the Lean writer model predicts for the neighbour order READ INDEPENDENTLY from the written string
            try:
                mo = mini_read(out)
            except ValueError:
                mo = None
            if mo is not None and len(mo.atoms) == len(order):
                hs = h_atoms(mol)
                for i, a in enumerate(mo.atoms):
                    c = order[i]
                    if a['chi'] and c in mol.stereogenic_tetrahedrons and mol._atoms[c].stereo is not None:
                        env = [order[x] for x in mo.nbrs[i]]
                        at = mol._atoms[c]
                        kstream.add(' '.join(map(str, ['wt'] + lst(mol.stereogenic_tetrahedrons[c]) + lst(env) + lst(hs) +
                                                     [tri(at.stereo), at.implicit_hydrogens or 0, int(a['start'])])),
                                    f"ok {int(a['chi'] == '@')}", {'kind': 'write-judge', 'smiles': smi, 'out': out})
        try:
            diffs = judge_written(mol, out, order, ref_tet, ref_db)
        except ValueError as e:
            ctx.notes.append(f'mini reader could not read chython output {out!r}: {e}')
            continue
        if diffs and all('[conjugated double bond in a ring]' in d for d in diffs):
            bad += 1
            ctx.fail(KNOWN_CT_MAP, f'{smi!r} written as {out!r} ({"random order" if fmt else "canonical"}): {diffs[:2]}',
                     {'kind': 'write-judge', 'smiles': smi})
        elif diffs:
            bad += 1
            ctx.fail(f'C12/written-configuration-differs/{tag}',
                     f'{smi!r} written as {out!r} ({"random order" if fmt else "canonical"}): {diffs[:2]}',
                     {'kind': 'write-judge', 'smiles': smi})
        elif use_rdkit and r_in is not None:
            r_out = rd_canon(out)
            if r_out != r_in:
                bad += 1
                ctx.fail(f'C12/rdkit-disagrees/{tag}', f'{smi!r} (RDKit {r_in!r}) written as {out!r} (RDKit {r_out!r})',
                         {'kind': 'write-judge', 'smiles': smi})
    return bad


def stream_written(ctx):
    """R: what the writer writes (canonical and random order) denotes the configuration that was read — judged by the
    independent mini reader and by RDKit. Centres with several ring-closure digits, corpus molecules."""
    rng = ctx.rng
    k = 6 if ctx.quick else 30
    ks = Stream(ctx, 'smiles_written_string_tetrahedron')
    _state['written_stream'] = ks
    for spec in cage_specs() + tetra_specs() + dbond_specs():
        lim = 25 if ctx.quick else 400
        for sp in (spec, spec.mirror()):
            n = 0
            for smi, index, nbrs in spellings(sp, rng, lim):
                n += 1
                tet, db = spec_reference(sp, index)
                # self-check of the two independent harness tools (generator vs reader)
                mt, md = mini_config(mini_read(smi), list(range(1, len(index) + 1)))
                if any(same_tetra(tet[c], mt[c]) is not True for c in tet if c in mt) or set(mt) != set(tet):
                    ctx.notes.append(f'harness self-check: generator and mini reader disagree on {smi!r}')
                    ctx.dist('harness-selfcheck-disagreement')
                    continue
                judge_input(ctx, smi, tet, db, rng, k, spec.name, use_rdkit=not ctx.quick or n <= 6, kstream=ks)
            ctx.dist(f'written:{spec.name}', n)
    # all spellings of the same cage must also parse to equal molecules (reader side, multi-digit centres)
    for spec in cage_specs():
        lim = 40 if ctx.quick else 600
        config_check(ctx, spec, list(spellings(spec, rng, lim)), list(spellings(spec.mirror(), rng, lim)))
    # corpus molecules with stereo marks: reference = independent reading of the corpus string
    from .. import molgen
    cs = [s for s in molgen.corpus_smiles() if '@' in s or '/' in s or '\\' in s]
    sample = cs if not ctx.quick else rng.sample(cs, 150)
    from chython import smiles
    for smi in sample:
        if not in_domain(smi):
            ctx.dist('domain-filter:equivalent-substituents')
            continue
        try:
            mi = mini_read(smi)
            mol = smiles(smi)
        except Exception as e:
            ctx.dist(f'corpus-skip:{type(e).__name__}')
            continue
        tet, db = mini_config(mi, list(range(1, len(mi.atoms) + 1)))
        labelled = {n for n, a in mol.atoms() if a.stereo is not None}
        lab_db = set()
        for n, m_, b in mol.bonds():
            if b.stereo is not None:
                t = mol._stereo_cis_trans_terminals.get(n)
                if t:
                    lab_db.add(tuple(sorted(t, key=str)))
        # labels chython did not keep (non-stereogenic by its rules) are judged by the stereogenicity stream, not here
        tet = {c: v for c, v in tet.items() if c in labelled}
        db = {kk: v for kk, v in db.items() if kk in lab_db}
        ctx.dist('corpus-stereo-elements', len(tet) + len(db))
        judge_input(ctx, smi, tet, db, rng, 3 if ctx.quick else 8, 'corpus', use_rdkit=not ctx.quick, kstream=ks)
    ks.run()


# ---- ring double bonds / stereogenicity -----------------------------------------------------------

def ring_db_specs():
    """(spec, ring size): one double bond 1=2 inside a ring of n atoms, reference substituents = ring neighbours"""
    out = []
    for n in range(3, 15):
        atoms = {i: 'C' for i in range(1, n + 1)}
        bonds = {(i, i + 1): 1 for i in range(1, n)}
        bonds[(n, 1)] = 1
        bonds[(1, 2)] = 2
        out.append((Spec(dict(atoms), dict(bonds), dbonds={(1, 2): (n, 3, True)}, name=f'cycloalkene-{n}'), n))
        if n >= 5:
            a2 = dict(atoms)
            a2[4] = 'O'
            out.append((Spec(a2, dict(bonds), dbonds={(1, 2): (n, 3, True)}, name=f'oxacycloalkene-{n}'), n))
            a3 = dict(atoms)
            a3[n + 1] = 'F'
            b3 = dict(bonds)
            b3[(1, n + 1)] = 1
            out.append((Spec(a3, b3, dbonds={(1, 2): (n, 3, True)}, name=f'1-fluorocycloalkene-{n}'), n))
        if n >= 6:
            # lactone-like: C(=O) next to ring O
            a4 = dict(atoms)
            a4[4] = 'O'
            a4[n + 1] = 'O'
            b4 = dict(bonds)
            b4[(5, n + 1)] = 2
            out.append((Spec(a4, b4, dbonds={(1, 2): (n, 3, True)}, name=f'lactone-{n}'), n))
        if n >= 6:
            # a cyclopropane fused at the double-bond atom 1 (ring bond 1-n): atom 1 lies in a small ring that does not
            # contain atom 2
            a6 = dict(atoms)
            a6[n + 1] = 'C'
            b6 = dict(bonds)
            b6[(1, n + 1)] = 1
            b6[(n, n + 1)] = 1
            out.append((Spec(a6, b6, dbonds={(1, 2): (n, 3, True)}, name=f'cyclopropa-at-double-bond-{n}'), n))
        if n >= 7:
            # a cyclopropane fused on the far side of the ring (atoms 5, 6)
            a5 = dict(atoms)
            a5[n + 1] = 'C'
            b5 = dict(bonds)
            b5[(5, n + 1)] = 1
            b5[(6, n + 1)] = 1
            out.append((Spec(a5, b5, dbonds={(1, 2): (n, 3, True)}, name=f'fused-cyclopropa-cycloalkene-{n}'), n))
    return out


def stream_ring_double_bonds(ctx):
    """K: the ring-size rule of `__chiral_centers` vs the Lean decision function; R: E and Z forms are equal exactly when
    RDKit says they are (small rings), labels on non-stereogenic double bonds are dropped."""
    from chython import smiles
    st = Stream(ctx, 'ring_double_bond_stereogenic')
    rng = ctx.rng
    for spec, n in ring_db_specs():
        z = list(spellings(spec, rng, 4 if ctx.quick else 20))
        e = list(spellings(spec.mirror(), rng, 4 if ctx.quick else 20))
        plain = Spec(spec.atoms, spec.bonds, name=spec.name + '~plain')
        p0 = next(iter(spellings(plain, rng, 1)))[0]
        try:
            mp = smiles(p0)
            mz = [smiles(s) for s, *_ in z]
            me = [smiles(s) for s, *_ in e]
        except Exception as ex:
            ctx.broke('correspondence', 'ring_double_bond_stereogenic', f'{spec.name}: {type(ex).__name__}: {ex}')
            continue
        # K: decision function on the unlabelled molecule
        for key, env in mp.stereogenic_cis_trans.items():
            a, b = key
            ar = mp.atoms_rings
            share = a in ar and b in ar and not set(ar[a]).isdisjoint(ar[b])
            sizes = [len(r) for r in ar.get(a, []) if b in r]
            real = f'ok {int(key in mp.chiral_cis_trans)}'
            st.add(' '.join(map(str, ['rdb', 1, int(share)] + lst(sizes))), real, {'kind': 'ring-ez', 'name': spec.name, 'n': n, 'plain': p0})
        # R: equality of E and Z vs RDKit, label dropped exactly when not stereogenic
        sz, se = {str(m) for m in mz}, {str(m) for m in me}
        rz, re_ = {rd_canon(s) for s, *_ in z}, {rd_canon(s) for s, *_ in e}
        ctx.count(('ring-ez', spec.name))
        ctx.dist(f'ring-size:{n}')
        inp = {'kind': 'ring-ez', 'name': spec.name, 'n': n, 'z': z[0][0], 'e': e[0][0], 'plain': p0}
        if len(sz) != 1 or len(se) != 1:
            ctx.fail(f'C12/spellings-of-one-configuration-differ/{spec.name}', f'{spec.name}: Z spellings give {sorted(sz)[:3]}, E spellings {sorted(se)[:3]}', inp)
            continue
        if len(rz) != 1 or len(re_) != 1:
            ctx.notes.append(f'ring-ez: RDKit does not see all generated spellings of {spec.name} as one molecule; skipped')
            continue
        chy_equal, rd_equal = sz == se, rz == re_
        if chy_equal != rd_equal:
            ctx.fail(f'C12/ring-double-bond-E-Z-{"equal" if chy_equal else "different"}/ring-size-{n}',
                     f'{spec.name}: chython writes Z as {next(iter(sz))!r} and E as {next(iter(se))!r} '
                     f'({"equal" if chy_equal else "different"}); RDKit: {next(iter(rz))!r} vs {next(iter(re_))!r}', inp)
        if chy_equal and (next(iter(sz)) != str(mp)):
            ctx.fail(f'C12/label-kept-on-non-stereogenic-double-bond/ring-size-{n}',
                     f'{spec.name}: E and Z are equal but differ from the unlabelled molecule {str(mp)!r}: {next(iter(sz))!r}', inp)
    st.run()


def nonstereo_specs():
    """one stereo mark on an element that is NOT stereogenic (two constitutionally identical substituents)"""
    out = []
    out.append(Spec({1: 'C', 2: 'C', 3: 'C', 4: 'F'}, {(1, 2): 1, (1, 3): 1, (1, 4): 1}, {1: ([2, 3, 4, 'h'], True)}, name='CH(C)(C)F'))
    out.append(Spec({1: 'C', 2: 'F', 3: 'F', 4: 'Cl', 5: 'Br'}, {(1, 2): 1, (1, 3): 1, (1, 4): 1, (1, 5): 1},
                    {1: ([2, 3, 4, 5], True)}, name='CF2ClBr'))
    out.append(Spec({1: 'C', 2: 'C', 3: 'C', 4: 'O', 5: 'C', 6: 'O', 7: 'N'}, {(1, 2): 1, (2, 4): 1, (1, 3): 1, (3, 6): 1, (1, 5): 1, (1, 7): 1},
                    {1: ([2, 3, 5, 7], False)}, name='C(CO)(CO)(C)N'))
    out.append(Spec({1: 'C', 2: 'C', 3: 'C', 4: 'C', 5: 'F'}, {(1, 2): 2, (1, 3): 1, (1, 4): 1, (2, 5): 1},
                    dbonds={(1, 2): (3, 5, True)}, name='Me2C=CHF'))
    out.append(Spec({1: 'C', 2: 'C', 3: 'F', 4: 'Cl'}, {(1, 2): 2, (2, 3): 1, (2, 4): 1}, dbonds={}, name='H2C=CFCl'))
    out.append(Spec({1: 'C', 2: 'C', 3: 'Cl', 4: 'Cl', 5: 'F'}, {(1, 2): 2, (1, 3): 1, (1, 4): 1, (2, 5): 1},
                    dbonds={(1, 2): (3, 5, False)}, name='Cl2C=CHF'))
    return out


def stream_nonstereogenic(ctx):
    """R: a mark on a non-stereogenic element is dropped: the molecule equals the unmarked one and is written without marks;
    after an edit that destroys stereogenicity `fix_stereo` removes the label, an unrelated edit keeps it."""
    from chython import smiles
    for spec in nonstereo_specs():
        plain = Spec(spec.atoms, spec.bonds, name=spec.name)
        p = smiles(next(iter(spellings(plain, ctx.rng, 1)))[0])
        for sp in (spec, spec.mirror()):
            for smi, *_ in spellings(sp, ctx.rng, 12 if ctx.quick else 200):
                ctx.count(('nonstereo', smi))
                m = smiles(smi)
                s = str(m)
                if s != str(p) or '@' in s or '/' in s or '\\' in s:
                    ctx.fail(f'C12/label-kept-on-non-stereogenic-element/{spec.name}',
                             f'{smi!r} -> {s!r}, unmarked molecule is {str(p)!r}', {'kind': 'nonstereo', 'smiles': smi, 'plain': str(p)})
    # fix_stereo after an edit
    for smi, edit, expect_kept in (('C[C@H](F)Cl', ('F', 'Cl'), False), ('C[C@H](F)Cl', ('F', 'Br'), True),
                                   ('F/C=C/Cl', None, True), ('CC[C@H](C)F', ('F', 'C'), True), ('CC[C@H](CF)C', ('F', 'H'), None)):
        fails, what = probe({'kind': 'fix-stereo', 'smiles': smi, 'edit': list(edit) if edit else None, 'kept': expect_kept})
        ctx.count(('fix-stereo', smi, edit))
        if fails:
            ctx.fail('C12/fix-stereo-label/' + smi, what, {'kind': 'fix-stereo', 'smiles': smi, 'edit': list(edit) if edit else None, 'kept': expect_kept})


def fix_stereo_case(smi, edit, kept):
    """replace the first atom of element edit[0] by element edit[1] (direct slot edit + fix_structure-free label refresh)"""
    from chython import smiles
    from chython.periodictable import Element
    m = smiles(smi)
    if edit:
        n = next(n for n, a in m.atoms() if a.atomic_symbol == edit[0])
        new = Element.from_symbol(edit[1])()
        old = m._atoms[n]
        new._implicit_hydrogens = old._implicit_hydrogens
        m._atoms[n] = new
        m.flush_cache()
        m.calc_labels()
    m.fix_stereo()
    has = any(a.stereo is not None for _, a in m.atoms()) or any(b.stereo is not None for *_, b in m.bonds())
    return m, has


# ---- wedge bonds (MDL mol block) --------------------------------------------------------------------

def rd_block(smi):
    from rdkit import Chem
    from rdkit.Chem import AllChem
    m = Chem.MolFromSmiles(smi)
    if m is None:
        return None, None
    AllChem.Compute2DCoords(m)
    return Chem.MolToMolBlock(m), Chem.MolToSmiles(m)


def chy_from_block(block):
    from io import StringIO
    from chython import SDFRead
    with SDFRead(StringIO(block + '$$$$\n'), calc_cis_trans=True) as f:
        return next(iter(f))


def chy_to_block(mol):
    from io import StringIO
    from chython import SDFWrite
    s = StringIO()
    with SDFWrite(s) as f:
        f.write(mol)
    return s.getvalue().split('$$$$')[0]


def rd_canon_block(block):
    from rdkit import Chem
    m = Chem.MolFromMolBlock(block)
    if m is None:
        return None
    for a in m.GetAtoms():
        a.SetAtomMapNum(0)
    return Chem.MolToSmiles(m)


def in_domain(smi):
    """Domain filter of the property text ("centres have constitutionally distinct substituents"), by an oracle that is
    independent of chython: RDKit constitutional ranks (no tie breaking, chirality ignored). False when a marked
    tetrahedral atom has two neighbours of equal rank or a double bond end carries two substituents of equal rank
    (pseudo-asymmetric ring centres such as 1,4-disubstituted cyclohexanes: inverting both marks gives the same molecule,
    and RDKit's canonical strings are not unique there)."""
    from rdkit import Chem
    m = Chem.MolFromSmiles(smi)
    if m is None:
        return False
    ranks = list(Chem.CanonicalRankAtoms(m, breakTies=False, includeChirality=False))
    for a in m.GetAtoms():
        if a.GetChiralTag() != Chem.ChiralType.CHI_UNSPECIFIED:
            rs = [ranks[n.GetIdx()] for n in a.GetNeighbors()]
            if len(set(rs)) != len(rs):
                return False
    for b in m.GetBonds():
        if b.GetBondType() == Chem.BondType.DOUBLE and b.GetStereo() != Chem.BondStereo.STEREONONE:
            for x, y in ((b.GetBeginAtom(), b.GetEndAtom()), (b.GetEndAtom(), b.GetBeginAtom())):
                rs = [ranks[n.GetIdx()] for n in x.GetNeighbors() if n.GetIdx() != y.GetIdx()]
                if len(set(rs)) != len(rs):
                    return False
    return True


def wedge_case(smi):
    """(fails, what): wedge bonds and SMILES marks must denote the same arrangement, in both directions, as RDKit sees it.
    read:  RDKit draws `smi` (2-D coordinates + wedges); chython reads the mol block; RDKit's own reading of that block
           and RDKit's reading of chython's SMILES of it must coincide.
    write: chython writes the molecule it read as a mol block (its own wedge choice, `_wedge_map`); RDKit's reading of
           that block and of chython's SMILES must coincide.
    Everything is compared as RDKit canonical isomeric SMILES, so explicit-H / aromaticity spelling does not matter."""
    block, can = rd_block(smi)
    if block is None:
        return False, 'RDKit cannot read the input'
    if not in_domain(smi):
        return False, 'skipped: a marked centre has constitutionally equivalent substituents (outside the property domain)'
    if _re.search(r'\[\d*(?!C@)[A-Za-z][a-z]?@', smi):
        return False, 'skipped: chirality mark on a non-carbon atom (outside chython\'s stereo model)'
    if _re.search(r'^\s*\d+\s+\d+\s+2\s+3\s', block, _re.M):
        return False, 'skipped: the drawing contains an either (unspecified) double bond'
    expect = rd_canon_block(block)
    m = chy_from_block(block)
    got = rd_canon(str(m).split()[0])
    if got != expect:
        return True, (f'{smi!r}: the RDKit drawing (wedges, 2-D) is read by RDKit as {expect!r} but by chython as {str(m)!r} '
                      f'(= {got!r})')
    b2 = chy_to_block(m)
    back = rd_canon_block(b2)
    back = rd_canon(back) if back else back   # re-read as SMILES: drops E/Z RDKit assigns from 2-D to non-stereogenic bonds
    if back != got:
        return True, f'{smi!r}: chython holds {str(m)!r} (= {got!r}) but writes wedges that RDKit reads as {back!r}'
    return False, f'{smi!r}: wedge read and wedge write agree with RDKit ({got!r})'


def wedge_case_explicit_h(smi):
    """as wedge_case, but every stereocentre carries its hydrogen explicitly (drawn in the plane by RDKit)"""
    from io import StringIO
    from chython import SDFRead
    from rdkit import Chem
    from rdkit.Chem import AllChem
    rm = Chem.MolFromSmiles(smi)
    if rm is None or not in_domain(smi) or _re.search(r'\[\d*(?!C@)[A-Za-z][a-z]?@', smi):
        return False, 'skipped'
    rm = Chem.AddHs(rm, onlyOnAtoms=[a.GetIdx() for a in rm.GetAtoms() if a.GetChiralTag() != Chem.ChiralType.CHI_UNSPECIFIED])
    AllChem.Compute2DCoords(rm)
    block = Chem.MolToMolBlock(rm)
    if _re.search(r'^\s*\d+\s+\d+\s+2\s+3\s', block, _re.M):
        return False, 'skipped: either double bond'
    can = Chem.MolToSmiles(Chem.RemoveHs(rm))
    with SDFRead(StringIO(block + '$$$$\n'), calc_cis_trans=True) as f:
        m = next(iter(f))
    got = rd_canon(str(m).split()[0])
    if got != can:
        return True, f'{smi!r} drawn with explicit H on the centres: RDKit reads {can!r}, chython reads {str(m)!r} (= {got!r})'
    r2 = Chem.MolFromMolBlock(chy_to_block(m), removeHs=False)
    if r2 is None:
        return True, f'{smi!r}: RDKit cannot read the mol block chython wrote'
    for a in r2.GetAtoms():
        a.SetAtomMapNum(0)
    back = rd_canon(Chem.MolToSmiles(Chem.RemoveHs(r2)))
    if back != can:
        return True, f'{smi!r} with explicit H on the centres: chython holds {got!r} but writes wedges that RDKit reads as {back!r}'
    return False, f'{smi!r}: explicit-H wedge read and write agree with RDKit'


def stream_wedges(ctx):
    """R (validated): wedge bonds written by RDKit are read as the configuration of the SMILES; wedge bonds written by
    chython are read by RDKit as that configuration. Coordinates are RDKit's floats (outside the Lean geometry model)."""
    from .. import molgen
    rng = ctx.rng
    cases = []
    for spec in tetra_specs() + cage_specs() + dbond_specs():
        for sp in (spec, spec.mirror()):
            cases += [(spec.name, s) for s, *_ in spellings(sp, rng, 2 if ctx.quick else 6)]
    for _ in range(40 if ctx.quick else 600):
        spec = random_spec(rng)
        if spec.centres or spec.dbonds:
            cases.append(('random', next(iter(spellings(spec, rng, 1)))[0]))
    cs = [s for s in molgen.corpus_smiles() if '@' in s]
    cases += [('corpus', s) for s in (rng.sample(cs, 60) if ctx.quick else cs)]
    for tag, smi in cases:
        ctx.count(('wedge', smi))
        try:
            fails, what = wedge_case(smi)
        except Exception as e:
            ctx.dist(f'wedge-skip:{type(e).__name__}')
            continue
        ctx.dist('wedge:' + ('FAIL' if fails else 'ok' if 'agree' in what else 'skipped'))
        if fails:
            ctx.fail(f'C12/wedge-configuration-differs/{tag}', what, {'kind': 'wedge', 'smiles': smi})
        if '@' in smi:
            ctx.count(('wedge-explicit-h', smi))
            try:
                fails, what = wedge_case_explicit_h(smi)
            except Exception as e:
                ctx.dist(f'wedge-explicit-h-skip:{type(e).__name__}')
                continue
            ctx.dist('wedge-explicit-h:' + ('FAIL' if fails else 'ok' if 'agree' in what else 'skipped'))
            if fails:
                ctx.fail(f'C12/wedge-configuration-differs/explicit-hydrogen/{tag}', what, {'kind': 'wedge-explicit-h', 'smiles': smi})


# ---- K: add_wedge / __wedge_sign on template centres with integer coordinates ------------------------

def stream_wedge_model(ctx):
    """real `add_wedge` (tetrahedron branch) and `_wedge_map` (through `__wedge_sign`) vs the Lean model, integer coordinates;
    plus the property-level round trip on the real code: the wedge chython writes for a label, fed back to add_wedge on
    the unlabelled molecule, restores the label."""
    aw = Stream(ctx, 'add_wedge_tetrahedron')
    ws = Stream(ctx, 'wedge_map_sign')
    rng = ctx.rng
    reps = 40 if ctx.quick else 600
    for name, (atoms, nbrs) in TETRA_TEMPLATES.items():
        for rep in range(reps):
            ins = rng.sample(nbrs, len(nbrs))
            new = dict(zip(atoms, rng.sample(range(1, 40), len(atoms))))
            mol = build({new[n]: s for n, s in atoms.items()}, [(new[1], new[x], 1) for x in ins] + [(new[9], new[10], 1)])
            c = new[1]
            lim = rng.choice([1, 2, 5, 50])
            for n, a in mol._atoms.items():
                a.xy = (rng.randint(-lim, lim), rng.randint(-lim, lim))
            th = list(mol.stereogenic_tetrahedrons[c])
            hs = h_atoms(mol)
            exH = [x for x in mol._bonds[c] if x not in th]
            thw = [len(th)] + [v for x in th for v in (x, int(mol._atoms[x].x), int(mol._atoms[x].y))]
            pn = [int(mol._atoms[c].x), int(mol._atoms[c].y)]
            hw = [1, int(mol._atoms[exH[0]].x), int(mol._atoms[exH[0]].y)] if exH else [0, 0, 0]
            for m in list(mol._bonds[c]):
                for mark in (1, -1):
                    mol._atoms[c]._stereo = None
                    mol.flush_cache()
                    try:
                        mol.add_wedge(c, m, mark, clean_cache=False)
                        st = mol._atoms[c].stereo
                        real = 'ok none' if st is None else f'ok {int(st)}'
                    except Exception as e:
                        real = f'err {type(e).__name__}'
                    meta = {'kind': 'wedge-model', 'template': name}
                    if mol._atoms[m].atomic_number == 1:
                        aw.add(' '.join(map(str, ['awh'] + thw + [int(mol._atoms[m].x), int(mol._atoms[m].y), mark])), real, meta)
                    else:
                        aw.add(' '.join(map(str, ['aw'] + thw + pn + hw + [m, mark])), real, meta)
            # _wedge_map for both labels + round trip
            for s in (True, False):
                mol._atoms[c]._stereo = s
                mol.flush_cache()
                wm = [w for w in mol._wedge_map if w[0] == c]
                for n_, m_, v in wm:
                    i = th.index(m_)
                    order = th[i:] + th[:i]
                    ws.add(' '.join(map(str, ['ws'] + thw + pn + hw + lst(order) + lst(hs) + [tri(s)])), f'ok {v}',
                           {'kind': 'wedge-model', 'template': name})
                    ctx.count(('wedge-roundtrip', name, rep, s))
                    if v:
                        mol._atoms[c]._stereo = None
                        mol.flush_cache()
                        mol.add_wedge(c, m_, v, clean_cache=False)
                        if mol._atoms[c].stereo is not s:
                            coords = {n: (int(a.x), int(a.y)) for n, a in mol._atoms.items()}
                            ctx.fail('C12/wedge-roundtrip', f'{name}: label {s} is drawn as wedge {c}->{m_} mark {v}; add_wedge of that wedge '
                                     f'stores {mol._atoms[c].stereo}',
                                     {'kind': 'wedge-roundtrip', 'template': name, 'insertion': list(ins),
                                      'coords': {str(k): list(coords[v_]) for k, v_ in new.items()}, 'label': s})
                        mol._atoms[c]._stereo = s
            mol._atoms[c]._stereo = None
    aw.run()
    ws.run()


# ---- K: parser bookkeeping (order / stereo_atoms / stereo_bonds / starts) and the reader's cis-trans calls -------------

def tok_wire(tokens):
    """real `smiles_tokenize` output -> wire ints; None when a token type outside the SMILES model occurs"""
    out = []
    for t, v in tokens:
        if t in (0, 8):
            out += [0, int(t == 8), tri(v.get('stereo'))]
        elif t == 1:
            out += [1, int(v)]
        elif t == 9:
            out += [9, int(bool(v))]
        elif t == 4:
            out += [4]
        elif t == 2:
            out += [2]
        elif t == 3:
            out += [3]
        elif t == 6:
            out += [6, int(v)]
        else:
            return None
    return out


def render_parse(d):
    n = len(d['atoms'])
    bonds = ' '.join(f'{a}-{b}' for a, b, o in d['bonds'])
    order = ' '.join('[' + ','.join('N' if x is None else str(x) for x in d['order'].get(i, [])) + ']' for i in range(n))
    sa = ' '.join(f'{i}:{int(m)}' for i, m in d['stereo_atoms'].items())
    sb = ' '.join(f'{a}>' + ','.join(f'{b}:{int(v)}' for b, v in l.items()) for a, l in d['stereo_bonds'].items())
    st = ','.join(map(str, sorted(d['starts'])))
    return f"ok n={n} | {bonds} | {order} | {sa} | {sb} | {st}"


def corrupt(rng, smi):
    ops = '()/\\.=#1234%-'
    i = rng.randrange(len(smi) + 1)
    r = rng.random()
    if r < 0.4 and smi:
        i = min(i, len(smi) - 1)
        return smi[:i] + smi[i + 1:]
    if r < 0.8:
        return smi[:i] + rng.choice(ops) + smi[i:]
    j = rng.randrange(len(smi) + 1)
    return smi[:min(i, j)] + smi[max(i, j):]


def stream_parser(ctx):
    from chython.files.daylight.tokenize import smiles_tokenize
    from chython.files.daylight.parser import parser
    from chython.exceptions import IncorrectSmiles
    from chython import smiles
    from .. import molgen
    po = Stream(ctx, 'parser_stereo_bookkeeping')
    po.tolerate_model_reject = True
    rc_req = []
    rng = ctx.rng
    inputs = []
    for spec in tetra_specs() + cage_specs() + dbond_specs() + [s for s, _ in ring_db_specs()[::3]]:
        for sp in (spec, spec.mirror()):
            inputs += [s for s, *_ in spellings(sp, rng, 8 if ctx.quick else 60)]
    cs = molgen.corpus_smiles()
    inputs += rng.sample(cs, 300) if ctx.quick else cs
    inputs += ['C1=C/CCCCOCC\\1', 'C\\1=C/CCCCOCC/1', 'C/1=C/CCCCOCC/1', 'F/C=C1.Cl\\1', 'C-1=C/CCCCOCC\\1', 'C=1CC/1', 'C/1CC=1',
               'C.[C@H](F)(Cl)Br', 'C1.[C@H]1(F)Cl', 'C(.[C@H](F)(Cl)Br)', 'c1ccccc1', 'c1cc[nH]c1', 'C1CC-1', 'C-1CC1', 'C=1CC1', 'C1CC=1',
               'C=1CC-1', 'C12CC1C2', 'C%10CC%10', 'C(C)(C)C', 'C((C))', 'C(C', 'C)C', 'CC(', 'C1CC', 'C=', '=C', 'C..C', 'C.(C)', 'C=(C)', 'C1.C1',
               'C.1CC1', 'C/C=C/C', 'C/=C', 'C//C']
    base = list(inputs)
    for smi in rng.sample(base, min(len(base), 150 if ctx.quick else 3000)):
        inputs.append(corrupt(rng, smi))
    seen = set()
    for smi in inputs:
        if smi in seen or not smi:
            continue
        seen.add(smi)
        try:
            toks = list(smiles_tokenize(smi))
        except Exception:
            ctx.dist('parser:tokenizer-rejects')
            continue
        w = tok_wire(toks)
        if w is None or not toks:
            continue
        for strong in (0, 1):
            toks2 = [(t, dict(v) if isinstance(v, dict) else v) for t, v in toks]
            try:
                d = parser(toks2, bool(strong))
                real = render_parse(d)
            except Exception as e:
                # which strings are rejected (and how) is property C03; the stereo bookkeeping is compared on accepted input
                ctx.dist(f'parser:real-rejects:{type(e).__name__}')
                d = None
                continue
            po.add('po ' + ' '.join(map(str, [strong] + w)), real, {'kind': 'parser', 'smiles': smi, 'strong': strong},
                   nontrivial=len(toks) > 1)
        # reader: stereo_bonds -> add_cis_trans_stereo calls -> stored label of every double bond that ends up labelled
        # (tied at the public observation point `bond.stereo`; which substituent the reader picks is not compared)
        if d is not None and d['stereo_bonds']:
            try:
                mol = smiles(smi)
            except Exception:
                mol = None
            if mol is not None:
                sbw = [len(d['stereo_bonds'])]
                for a_, l in d['stereo_bonds'].items():
                    sbw += [a_ + 1, len(l)] + [x for b_, v in l.items() for x in (b_ + 1, int(v))]
                ctc = mol._stereo_cis_trans_counterpart
                cw = [len(ctc)] + [x for k_, v in ctc.items() for x in (k_, v)]
                sct = mol.stereogenic_cis_trans
                sw = [len(sct)]
                for (n_, m_), env in sct.items():
                    sw += [n_, m_] + ends_wire(env)
                real = {}
                for (n_, m_) in sct:
                    i_, j_ = mol._stereo_cis_trans_centers[n_]
                    st_ = mol._bonds[i_][j_].stereo
                    if st_ is not None:
                        real[f'{min(n_, m_)},{max(n_, m_)}'] = str(int(st_))
                rc_req.append(('rct ' + ' '.join(map(str, sbw + cw + sw + lst(h_atoms(mol)))), real, smi))
    po.run()
    if rc_req and ctx.build_ok:
        out = core.run_driver('C12', [q for q, *_ in rc_req])
        bad = []
        for (q, real, smi), mo in zip(rc_req, out):
            ctx.count(q)
            model = dict(x.split(':') for x in mo.split()[1:]) if mo.startswith('ok') else None
            ok = model is not None and all(model.get(k_) == v for k_, v in real.items())
            ctx.dist('reader_cis_trans_labels:' + ('ok' if ok else 'DISAGREE'))
            if not ok:
                bad.append((smi, real, mo))
        if bad:
            ctx.cov['disagreements_checked'] += len(bad)
            ctx.broke('correspondence', 'reader_cis_trans_labels', f'{len(bad)} disagreements; first: {bad[0]}')
            _state.setdefault('disagreements', []).extend(('reader_cis_trans_labels', {'kind': 'parser', 'smiles': b_[0]}) for b_ in bad[:50])
        else:
            ctx.sample({'stream': 'reader_cis_trans_labels', 'request': rc_req[0][0], 'real': rc_req[0][1], 'model': out[0]})


# ---- R: conjugated double bonds (direction-mark propagation `__ct_map`) -------------------------------------------

POLYENES = ['C(=CC=CC)C=CC=CF', 'CC=CC(C=CC)=CC=CC', 'FC=CC=CC=CC=CCl', 'CC=CC(=CC)C=CC', 'NC=CC=CC(O)C=CCl', 'FC=CC(Cl)=CC=CC',
            'C1CCCCC=CCCC=CC1', 'C1CCCCCC=CCC=CC1', 'OC1CCCCCC=CCCC1C=CC=CF',
            # macrocyclic conjugated systems: the known __ct_map finding lives here
            'C1CCCCCC=CC=CC1', 'C1CCCCCCCC=CC=CC=C1', 'FC=CC=CC1=CC=CCCCCCC1', 'C1CCCCCC=C(C=CF)C=C1']


def stream_polyenes(ctx):
    """every E/Z isomer (enumerated by RDKit) of open-chain, cross-conjugated and macrocyclic polyenes: what chython writes
    (canonical + random order) must denote the isomer that was read, judged by the independent reader and RDKit"""
    from rdkit import Chem
    from rdkit.Chem.EnumerateStereoisomers import EnumerateStereoisomers
    for t in POLYENES:
        isos = [Chem.MolToSmiles(i) for i in EnumerateStereoisomers(Chem.MolFromSmiles(t))]
        if ctx.quick and len(isos) > 4:
            isos = ctx.rng.sample(isos, 4)
        for smi in isos:
            if not in_domain(smi):
                continue
            from chython import smiles
            mi = mini_read(smi)
            mol = smiles(smi)
            tet, db = mini_config(mi, list(range(1, len(mi.atoms) + 1)))
            lab_db = set()
            for n, m_, b in mol.bonds():
                if b.stereo is not None and mol._stereo_cis_trans_terminals.get(n):
                    lab_db.add(tuple(sorted(mol._stereo_cis_trans_terminals[n], key=str)))
            # RDKit enumerates every potentially stereogenic bond: each must be labelled by chython as well
            n_rd = sum(1 for b in Chem.MolFromSmiles(smi).GetBonds() if b.GetStereo() != Chem.BondStereo.STEREONONE)
            if n_rd != len(lab_db):
                ctx.fail('C12/stereogenic-double-bond-not-labelled/polyene:' + t,
                         f'{smi!r}: RDKit sees {n_rd} specified double bonds, chython keeps {len(lab_db)} labels ({str(mol)!r})',
                         {'kind': 'rdkit', 'smiles': smi})
            db = {k: v for k, v in db.items() if k in lab_db}
            ctx.dist('polyene-isomers')
            judge_input(ctx, smi, tet, db, ctx.rng, 6 if ctx.quick else 40, 'polyene:' + t, use_rdkit=True)


# ---- allenes: K on the reader / writer allene branch, R on spellings of fully substituted allenes ---------------------

def allene_spellings(mid='C', n_cum=3):
    """(config id, smiles) for F,Cl | Br,I substituted allenes / odd cumulenes: every order inside the ends, either end first,
    chain or branch form of the first end. Reference list [F, Cl, Br, I] with '@'."""
    ref = ['F', 'Cl', 'Br', 'I']
    out = []
    core_mid = '=' + '=C='.join(['[C{m}]'] * 1) if n_cum == 3 else None
    for first_end, second_end in ((('F', 'Cl'), ('Br', 'I')), (('Br', 'I'), ('F', 'Cl'))):
        for a in (first_end, first_end[::-1]):
            for b in (second_end, second_end[::-1]):
                L = list(a) + list(b)
                even = not odd(L, ref)
                for sign in (True, False):
                    mark = '@' if (sign == even) else '@@'
                    centre = f'[C{mark}]'
                    chain = '=C=' .join([]) if False else None
                    middle = centre if n_cum == 3 else f'C={centre}=C'
                    out.append((sign, f'{a[0]}C({a[1]})={middle}=C({b[0]}){b[1]}'))
                    out.append((sign, f'C({a[0]})({a[1]})={middle}=C({b[0]}){b[1]}'))
    return out


def stream_allenes(ctx):
    from chython import smiles, MoleculeContainer
    from chython.files.daylight.tokenize import smiles_tokenize
    from chython.files.daylight.parser import parser
    rd = Stream(ctx, 'smiles_reader_allene')
    wr = Stream(ctx, 'smiles_writer_allene')
    import chython.algorithms.smiles as SM
    rec = []
    orig = MoleculeContainer._format_atom

    def spy(self, n, adjacency, **kw):
        r = orig(self, n, adjacency, **kw)
        if self._atoms[n].stereo is not None and n in self._stereo_allenes_terminals:
            t1, t2 = self._stereo_allenes_terminals[n]
            rec.append((n, list(adjacency[t1]), list(adjacency[t2]), r))
        return r

    cases = allene_spellings(n_cum=3) + allene_spellings(n_cum=5)
    extra = ['FC=[C@]=CBr', 'FC=[C@@]=CBr', 'BrC=[C@]=CF', 'C(F)=[C@]=CBr', '[H]C(F)=[C@]=C([H])Br', 'FC([H])=[C@@]=C(Br)[H]',
             'FC(Cl)=[C@]=CBr', 'C1(=[C@]=C(Br)I)CCOC1', 'C1CCOCC1=[C@]=C(F)Cl', 'CC=[C@]=CC', 'OC(C)=[C@@]=C(N)C']
    old_random = SM.random
    MoleculeContainer._format_atom = spy
    SM.random = ctx.rng.random
    strs = {True: set(), False: set()}
    try:
        for sign, smi in cases + [(None, s) for s in extra]:
            try:
                d = parser(list(smiles_tokenize(smi)), False)
                mol = smiles(smi)
            except Exception as e:
                ctx.broke('correspondence', 'smiles_reader_allene', f'{smi!r} raised {type(e).__name__}: {e}')
                continue
            hs = h_atoms(mol)
            for i, mark in d['stereo_atoms'].items():
                c = i + 1
                if c not in mol.stereogenic_allenes:
                    continue
                env = mol.stereogenic_allenes[c]
                t1, t2 = mol._stereo_allenes_terminals[c]
                o1 = [x + 1 for x in d['order'][t1 - 1]]
                o2 = [x + 1 for x in d['order'][t2 - 1]]
                st = mol._atoms[c].stereo
                rd.add(' '.join(map(str, ['ra'] + ends_wire(env) + lst(o1) + lst(o2) + lst(hs) + [int(mark)])),
                       'none' if st is None else f'ok {int(st)}', {'kind': 'allene', 'smiles': smi})
            for fmt in ('', 'r', 'r'):
                del rec[:]
                mol.__dict__.pop('__cached_method___str__', None)
                out = format(mol, fmt) if fmt else str(mol)
                for n, a1, a2, tok in rec:
                    wr.add(' '.join(map(str, ['wa'] + ends_wire(mol.stereogenic_allenes[n]) + lst(a1) + lst(a2) + lst(hs) +
                                            [tri(mol._atoms[n].stereo)])), f"ok {int('@@' not in tok)}", {'kind': 'allene', 'smiles': smi})
                ctx.count(('allene-reread', out))
                if str(smiles(out)) != str(mol):
                    ctx.fail('C12/allene-write-read-changes-configuration', f'{smi!r} written as {out!r} reads back as {str(smiles(out))!r}',
                             {'kind': 'reread', 'smiles': smi})
            if sign is not None:
                strs[sign].add((str(mol), smi))
    finally:
        MoleculeContainer._format_atom = orig
        SM.random = old_random
    rd.run()
    wr.run()
    # R: per cumulene length, all spellings of one configuration are one molecule, the two configurations differ
    for n_cum, tag in ((3, 'C=C=C'), (5, 'C=C=C=C=C')):
        def of(sign):
            return {s for s, smi in strs[sign] if (smi.count('=') == n_cum - 1)}
        a, b = of(True), of(False)
        ctx.count(('allene-config', tag))
        ex = {sign: next((smi for s, smi in strs[sign] if smi.count('=') == n_cum - 1), None) for sign in (True, False)}
        if len(a) > 1 or len(b) > 1:
            two = [smi for s, smi in strs[True if len(a) > 1 else False] if smi.count('=') == n_cum - 1]
            byS = {}
            for s, smi in strs[True if len(a) > 1 else False]:
                if smi.count('=') == n_cum - 1:
                    byS.setdefault(s, smi)
            x, y = list(byS.values())[:2]
            ctx.fail(f'C12/spellings-of-one-configuration-differ/allene-{tag}', f'{x!r} and {y!r} denote one configuration but parse differently',
                     {'kind': 'spelling-pair', 'a': x, 'b': y, 'same': True})
        elif a and b and a == b:
            ctx.fail(f'C12/mirror-images-equal/allene-{tag}', f'{ex[True]!r} and its mirror image {ex[False]!r} are equal',
                     {'kind': 'spelling-pair', 'a': ex[True], 'b': ex[False], 'same': False})


# ================================================================================================
# round 2: histories (labelling API after reads), ring / axis stereogenicity under renumbering, allene wedges
# ================================================================================================

WARMUPS = ('none', 'str', 'hash', 'eq', 'order', 'chiral', 'format-r', 'copy-eq')


def warm(mol, kind, other=None):
    """read derived values of `mol` before it is mutated (the history half of the case)"""
    if kind == 'str':
        str(mol)
    elif kind == 'hash':
        hash(mol)
    elif kind == 'eq':
        mol == (other if other is not None else mol.copy())
    elif kind == 'order':
        mol.smiles_atoms_order
    elif kind == 'chiral':
        mol.chiral_tetrahedrons, mol.chiral_cis_trans, mol.chiral_allenes, mol._cis_trans_count
    elif kind == 'format-r':
        format(mol, 'r'), format(mol, 'h')
    elif kind == 'copy-eq':
        str(mol), hash(mol), {mol: 1}.get(mol.copy())


def plain_of(spec):
    return Spec(spec.atoms, spec.bonds, name=spec.name + '~plain')


def api_label(mol, spec, num, elements=None):
    """label `mol` (parsed from an unmarked spelling of `spec`, atom ids -> numbers `num`) through the public API,
    one call per element; yields after every call"""
    for c, (ref, sign) in spec.centres.items():
        if elements is not None and ('c', c) not in elements:
            continue
        env = [x for x in ref if x != 'h']
        mark = sign != odd(env + (['h'] if 'h' in ref else []), list(ref))
        mol.add_atom_stereo(num[c], tuple(num[x] for x in env), bool(mark))
        yield ('c', c)
    for (a, b), (x, y, cis) in spec.dbonds.items():
        if elements is not None and ('d', (a, b)) not in elements:
            continue
        mol.add_cis_trans_stereo(num[a], num[b], num[x], num[y], bool(cis))
        yield ('d', (a, b))


def history_case(spec_name, spelling_seed, warmups, probe_only=False):
    """(fails, what). Parse an unmarked spelling, interleave reads and labelling calls, compare with the marked spelling
    parsed afresh; the differently labelled partner must differ; clean_stereo after reads must give the unmarked molecule."""
    import random as _r
    from chython import smiles
    spec = next(s for s in history_specs() if s.name == spec_name)
    rng = _r.Random(spelling_seed)
    plain = plain_of(spec)
    smi0, index, _ = next(iter(spellings(plain, rng, 1)))
    num = {a: index[a] + 1 for a in index}
    expect = smiles(next(iter(spellings(spec, rng, 1)))[0])
    partner = smiles(next(iter(spellings(flip_some(rng, spec), rng, 1)))[0])
    unmarked = smiles(smi0)
    res = []
    for variant, sp, exp in (('labelled', spec, expect), ('partner', None, None)):
        if sp is None:
            continue
        mol = smiles(smi0)
        w = list(warmups)
        warm(mol, w[0], unmarked)
        for k, _el in enumerate(api_label(mol, sp, num)):
            warm(mol, w[(k + 1) % len(w)], unmarked)
        s_now, s_fresh = str(mol), str(mol.copy())
        if s_now != str(exp) or hash(mol) != hash(exp) or not (mol == exp):
            res.append(f'{smi0!r} labelled through the API after reads {w}: str={s_now!r} (fresh copy {s_fresh!r}), '
                       f'the marked spelling parses to {str(exp)!r}; equal={mol == exp}, hash equal={hash(mol) == hash(exp)}')
        if mol == partner or str(mol) == str(partner):
            res.append(f'{smi0!r} labelled through the API after reads {w} equals its stereo partner {str(partner)!r}')
        if s_now == str(unmarked) and (spec.centres or spec.dbonds):
            res.append(f'{smi0!r}: labelled molecule still prints as the unlabelled one {s_now!r}')
        # removing labels after reads
        warm(mol, w[-1], unmarked)
        mol.clean_stereo()
        if str(mol) != str(unmarked) or not (mol == unmarked):
            res.append(f'{smi0!r}: after clean_stereo() following reads {w}: {str(mol)!r}, unlabelled molecule is {str(unmarked)!r}')
    return bool(res), '; '.join(res[:3]) if res else f'{spec_name}: API labelling after reads {list(warmups)} agrees with the parsed marked spelling'


def history_specs():
    out = [s for s in tetra_specs() if '.' not in s.name] + dbond_specs()[:5] + cage_specs()[:2]
    # skipped diene labelled in two steps (the independent writer does not spell marks shared by two double bonds)
    a = {1: 'F', 2: 'C', 3: 'C', 4: 'C', 5: 'C', 6: 'C', 7: 'Cl'}
    b = {(1, 2): 1, (2, 3): 2, (3, 4): 1, (4, 5): 1, (5, 6): 2, (6, 7): 1}
    out.append(Spec(a, b, dbonds={(2, 3): (1, 4, False), (5, 6): (4, 7, True)}, name='FC=CCC=CCl'))
    # centre + double bond
    a = {1: 'F', 2: 'C', 3: 'C', 4: 'C', 5: 'Cl', 6: 'N', 7: 'O'}
    b = {(1, 2): 1, (2, 3): 2, (3, 4): 1, (4, 5): 1, (4, 6): 1, (4, 7): 1}
    out.append(Spec(a, b, {4: ([3, 5, 6, 7], True)}, {(2, 3): (1, 4, True)}, name='FC=CC(Cl)(N)O'))
    return out


def stream_history(ctx):
    """R: the labelling API (`add_atom_stereo`, `add_cis_trans_stereo`, `clean_stereo`) on a molecule whose derived values
    (`str`, `hash`, `==`, `smiles_atoms_order`, chiral sets, random-order string) were read before and between the calls"""
    rng = ctx.rng
    for spec in history_specs():
        kinds = list(WARMUPS)
        combos = [(k,) for k in kinds] + [tuple(rng.sample(kinds, 3)) for _ in range(2 if ctx.quick else 12)]
        for w in combos:
            seed = rng.randrange(10 ** 6)
            ctx.count(('history', spec.name, w, seed))
            ctx.dist('history:' + w[0])
            try:
                fails, what = history_case(spec.name, seed, w)
            except Exception as e:
                fails, what = True, f'{spec.name} reads {w}: labelling API raised {type(e).__name__}: {e}'
            if fails:
                ctx.fail(f'C12/stale-or-wrong-after-labelling-api/{spec.name}', what,
                         {'kind': 'history', 'spec': spec.name, 'seed': seed, 'warmups': list(w)})


# ---- ring / axis stereogenicity: invariance under renumbering + RDKit potential-stereo counts ---------------------------

def axis_specs():
    """unmarked ring / axis systems: (spec, description). Exocyclic double bonds and allenes on rings, 1,n-disubstituted
    rings, spiro and cumulene ring linkers — each with symmetric (non-stereogenic) and unsymmetric (stereogenic) variants."""
    out = []

    def ring(n, first=1):
        return {(first + i, first + (i + 1) % n): 1 for i in range(n)}

    for rs, pos in ((6, 4), (4, 3), (5, 3), (8, 5), (7, 4)):
        for exo in (('C', 'C'), ('C', 'N'), ('F', 'F'), ('F', 'Cl'), ('C', None)):
            for rsub in (('C', None), ('C', 'C'), ('C', 'O'), (None, None)):
                for chain in (1, 2):   # exocyclic C=C or C=C=C
                    atoms = {i: 'C' for i in range(1, rs + 1)}
                    bonds = ring(rs)
                    prev = 1
                    nxt = 100
                    for _ in range(chain):
                        atoms[nxt] = 'C'
                        bonds[(prev, nxt)] = 2
                        prev = nxt
                        nxt += 1
                    for e in exo:
                        if e:
                            atoms[nxt] = e
                            bonds[(prev, nxt)] = 1
                            nxt += 1
                    for r in rsub:
                        if r:
                            atoms[nxt] = r
                            bonds[(pos, nxt)] = 1
                            nxt += 1
                    out.append(Spec(atoms, bonds, name=f'ring{rs}-exo{"=C" * chain}({exo[0]},{exo[1]})-pos{pos}({rsub[0]},{rsub[1]})'))
    # 1,n-disubstituted rings without double bond
    for rs, pos in ((6, 4), (6, 3), (4, 3), (5, 3), (6, 2)):
        for s1 in (('C', None), ('C', 'C'), ('F', 'Cl')):
            for s2 in (('C', None), ('O', None), ('C', 'C')):
                atoms = {i: 'C' for i in range(1, rs + 1)}
                bonds = ring(rs)
                nxt = 100
                for at, subs in ((1, s1), (pos, s2)):
                    for r in subs:
                        if r:
                            atoms[nxt] = r
                            bonds[(at, nxt)] = 1
                            nxt += 1
                out.append(Spec(atoms, bonds, name=f'ring{rs}-1({s1[0]},{s1[1]})-{pos}({s2[0]},{s2[1]})'))
    # spiro linkers: spiro[3.3]heptane 2,6-disubstituted; spiro[3.5]
    for (r1, r2) in ((4, 4), (4, 6)):
        for s1 in (('C', None), ('C', 'C'), (None, None)):
            for s2 in (('F', None), ('F', 'F')):
                atoms = {1: 'C'}
                bonds = {}
                a = [1] + list(range(10, 10 + r1 - 1))
                b = [1] + list(range(30, 30 + r2 - 1))
                for lst_ in (a, b):
                    for x in lst_:
                        atoms[x] = 'C'
                    for i in range(len(lst_)):
                        bonds[(lst_[i], lst_[(i + 1) % len(lst_)])] = 1
                nxt = 100
                for at, subs in ((a[len(a) // 2], s1), (b[len(b) // 2], s2)):
                    for r in subs:
                        if r:
                            atoms[nxt] = r
                            bonds[(at, nxt)] = 1
                            nxt += 1
                out.append(Spec(atoms, bonds, name=f'spiro[{r1}.{r2}]-({s1[0]},{s1[1]})-({s2[0]},{s2[1]})'))
    # double bond linking two rings (cyclohexylidenecyclohexane) with 4,4'-substituents
    for s1 in (('C', None), ('C', 'C')):
        for s2 in (('C', None), ('O', None), (None, None)):
            atoms = {i: 'C' for i in range(1, 7)}
            atoms.update({i: 'C' for i in range(11, 17)})
            bonds = ring(6)
            bonds.update(ring(6, 11))
            bonds[(1, 11)] = 2
            nxt = 100
            for at, subs in ((4, s1), (14, s2)):
                for r in subs:
                    if r:
                        atoms[nxt] = r
                        bonds[(at, nxt)] = 1
                        nxt += 1
            out.append(Spec(atoms, bonds, name=f'ring6=ring6-4({s1[0]},{s1[1]})-4p({s2[0]},{s2[1]})'))
    return out


def rd_potential_stereo(smi):
    """number of potential stereo elements RDKit finds in the unmarked molecule (new perception, ring and axis aware)"""
    from rdkit import Chem
    m = Chem.MolFromSmiles(smi)
    return len(Chem.FindPotentialStereo(m, cleanIt=True, flagPossible=True))


def axis_case(spec_name, seed, n_spell=10):
    """(fails, what): chython's set of potentially stereogenic elements of an unmarked molecule must not depend on the
    spelling (atom numbering); it is empty iff RDKit finds no potential stereo element; and when it is empty every mark
    written on the molecule is dropped."""
    import random as _r
    from chython import smiles
    spec = next(s for s in axis_specs() if s.name == spec_name)
    rng = _r.Random(seed)
    sps = list(spellings(spec, rng, n_spell))
    res, counts, strs = [], {}, set()
    for smi, index, _ in sps:
        m = smiles(smi)
        inv = {v + 1: k for k, v in index.items()}
        key = (tuple(sorted(inv[n] for n in m.chiral_tetrahedrons)),
               tuple(sorted(tuple(sorted((inv[a], inv[b]))) for a, b in m.chiral_cis_trans)),
               tuple(sorted(inv[n] for n in m.chiral_allenes)))
        counts.setdefault(key, smi)
        strs.add(str(m))
    if len(counts) > 1:
        (k1, s1), (k2, s2) = list(counts.items())[:2]
        res.append(f'{spec.name}: stereogenic elements depend on the spelling: {s1!r} -> {k1}, {s2!r} -> {k2} (spec atom ids)')
    if len(strs) > 1:
        res.append(f'{spec.name}: one unmarked molecule, {len(strs)} canonical strings: {sorted(strs)[:3]}')
    n_chy = sum(len(x) for x in next(iter(counts)))
    smi0 = sps[0][0]
    cumulated = bool(_re.search(r'=C\d*=|=C\d*\(=|\(=C\d*\)=', smi0)) or 'exo=C=C' in spec.name
    n_rd = None
    if not cumulated:        # RDKit has no allene / cumulene axis: those molecules are judged by the invariance clauses only
        from rdkit import Chem
        from rdkit.Chem import FindMolChiralCenters
        rm = Chem.MolFromSmiles(smi0)
        legacy = len(FindMolChiralCenters(rm, includeUnassigned=True, useLegacyImplementation=True))
        pots = list(Chem.FindPotentialStereo(rm))
        pot = len(pots)
        if pot == 1 and pots[0].type == Chem.StereoType.Bond_Double:
            legacy += 1      # a single ordinary E/Z double bond (unsymmetric ring): stereogenic on its own
        # classic perception finds ordinary centres; the potential-stereo search finds ring / axis elements, which only
        # exist in pairs (it also flags a lone para-centre without partner: 1 element alone is not stereogenic)
        n_rd = legacy if legacy else (pot if pot >= 2 else 0)
        if (n_rd == 0) != (n_chy == 0):
            res.append(f'{smi0!r}: chython reports {next(iter(counts))} as potentially stereogenic (spec atom ids), '
                       f'RDKit finds {legacy} classic centres and {pot} potential ring/axis elements')
        if n_rd == 0:
            # no stereogenic element at all: every mark written on this molecule is meaningless and must be dropped
            for smi, index, _ in sps[:4]:
                m0 = smiles(smi)
                for variant in marked_variants(smi, rng):
                    mm = smiles(variant)
                    if str(mm) != str(m0):
                        res.append(f'{variant!r} keeps a label on a molecule without stereogenic elements: {str(mm)!r} vs {str(m0)!r}')
                        break
    return bool(res), ('; '.join(res[:3]) if res else
                       f'{spec.name}: {n_chy} stereogenic elements in every spelling (RDKit potential stereo: {n_rd})')


def marked_variants(smi, rng):
    """put @ / @@ on sp3 CH / C atoms and / \\ around double bonds of an unmarked spelling (syntactic decoration only)"""
    out = []
    toks = _re.findall(r'\[[^\]]*\]|Cl|Br|[BCNOPSFI]|.', smi)
    m = mini_read(smi)
    # tetrahedral: any plain C with 3 or 4 neighbours and no double bond
    idx = -1
    for k, t in enumerate(toks):
        if _re.fullmatch(r'\[[^\]]*\]|Cl|Br|[BCNOPSFI]', t):
            idx += 1
            if t == 'C':
                nb = [x for x in m.nbrs[idx] if x is not None]
                dbl = any(m.orders.get(frozenset((idx, x))) == '=' for x in nb)
                if not dbl and len(nb) in (3, 4):
                    for mark in ('@', '@@'):
                        out.append(''.join(toks[:k] + [f'[C{mark}{"H" if len(nb) == 3 else ""}]'] + toks[k + 1:]))
    # double bonds: X/C=C/Y style marks on chain bonds next to '='
    for mo in _re.finditer(r'([A-Za-z\]\)0-9])(C|\[C\])=(C)([A-Z(])', smi):
        pass
    rng.shuffle(out)
    return out[:6]


def stream_axis(ctx):
    rng = ctx.rng
    specs = axis_specs()
    if ctx.quick:
        specs = rng.sample(specs, 70)
    for spec in specs:
        seed = rng.randrange(10 ** 6)
        ctx.count(('axis', spec.name, seed))
        try:
            fails, what = axis_case(spec.name, seed, 8 if ctx.quick else 24)
        except Exception as e:
            ctx.dist(f'axis-skip:{type(e).__name__}')
            continue
        ctx.dist('axis:' + ('FAIL' if fails else 'ok'))
        if fails:
            ctx.fail(f'C12/stereogenicity-ring-axis/{spec.name}', what, {'kind': 'axis', 'spec': spec.name, 'seed': seed})


# ---- allene wedges: add_wedge / _wedge_map allene branches ------------------------------------------------------------

def _vol(p, q, r, s):
    """signed volume of the tetrahedron (q-p, r-p, s-p) — own arithmetic, not chython's"""
    a = [q[i] - p[i] for i in range(3)]
    b = [r[i] - p[i] for i in range(3)]
    c = [s[i] - p[i] for i in range(3)]
    return (a[0] * (b[1] * c[2] - b[2] * c[1]) - a[1] * (b[0] * c[2] - b[2] * c[0]) + a[2] * (b[0] * c[1] - b[1] * c[0]))


_cal = {}


def volume_means_at():
    """calibrate with RDKit (3-D mol block -> chirality -> SMILES): does vol(F; Cl, Br, I) > 0 mean F[C@](Cl)(Br)I ?"""
    if 'v' not in _cal:
        from rdkit import Chem
        pts = {'F': (0.0, 0.0, 1.0), 'Cl': (1.0, 0.0, -0.3), 'Br': (-0.5, 0.87, -0.3), 'I': (-0.5, -0.87, -0.3)}
        lines = ['', '  cal', '', '  5  4  0  0  0  0  0  0  0  0999 V2000', '    0.0000    0.0000    0.0000 C   0  0  0  0  0  0  0  0  0  0  0  0']
        for sym, (x, y, z) in pts.items():
            lines.append(f'{x:10.4f}{y:10.4f}{z:10.4f} {sym:<3} 0  0  0  0  0  0  0  0  0  0  0  0')
        lines += [f'  1{i:3d}  1  0' for i in range(2, 6)] + ['M  END']
        from rdkit import RDLogger
        RDLogger.DisableLog('rdApp.warning')
        try:
            m = Chem.MolFromMolBlock('\n'.join(lines))
        finally:
            RDLogger.EnableLog('rdApp.warning')
        Chem.AssignStereochemistryFrom3D(m)
        is_at = Chem.MolToSmiles(m) == Chem.CanonSmiles('F[C@](Cl)(Br)I')
        v = _vol(pts['F'], pts['Cl'], pts['Br'], pts['I'])
        _cal['v'] = (v > 0) == is_at
    return _cal['v']


def allene_wedge_case(seed, probe_only=False):
    """(fails, what). A fully substituted allene F,Cl | Br,I in a random spelling and a drawing: axis horizontal, one end in
    the paper plane, the other end perpendicular (its substituents wedged). Every wedge (terminal -> substituent, up/down)
    is interpreted independently (3-D model + RDKit-calibrated volume rule -> marked SMILES) and by `add_wedge`;
    up-to-one must equal down-to-sibling; up must differ from down; what `_wedge_map` draws must read back."""
    import random as _r
    from chython import smiles
    rng = _r.Random(seed)
    subs = [['F', 'Cl'], ['Br', 'I']]
    for s_ in subs:
        rng.shuffle(s_)
    rng.shuffle(subs)
    (a1, a2), (b1, b2) = subs
    form = rng.choice(['{a1}C({a2})=C=C({b1}){b2}', 'C({a1})({a2})=C=C({b1}){b2}', '{a1}C(=C=C({b1}){b2}){a2}', 'C(=C({a1}){a2})=C({b1}){b2}'])
    plain = form.format(a1=a1, a2=a2, b1=b1, b2=b2)
    mol0 = smiles(plain)
    num = {a.atomic_symbol: n for n, a in mol0.atoms() if a.atomic_symbol != 'C'}
    c = next(iter(mol0.stereogenic_allenes))
    ta = next(n for n in mol0._bonds[num[a1]])      # terminal carrying a1, a2
    tb = next(n for n in mol0._bonds[num[b1]])
    res = []
    flipx, flipy, swap = rng.choice([1, -1]), rng.choice([1, -1]), rng.random() < 0.5
    for wedged_end in (0, 1):
        # 2-D drawing: axis along x; the wedged end's substituents close to the axis, the other end's in the plane
        xy = {ta: (0, 0), c: (10, 0), tb: (20, 0)}
        ends = [(ta, a1, a2, -1), (tb, b1, b2, 1)]
        for k, (t, s1, s2, side) in enumerate(ends):
            x0 = xy[t][0]
            if k == wedged_end:
                xy[num[s1]], xy[num[s2]] = (x0 + 8 * side, 2), (x0 + 8 * side, -2)
            else:
                xy[num[s1]], xy[num[s2]] = (x0 + 5 * side, 9), (x0 + 5 * side, -9)
        def tr(p):
            x, y = p[0] * flipx, p[1] * flipy
            return (y, x) if swap else (x, y)
        xy = {n: tr(p) for n, p in xy.items()}
        t, s1, s2, _ = ends[wedged_end]
        got = {}
        for target, sibling in ((s1, s2), (s2, s1)):
            for mark in (1, -1):
                # independent reading: target at z = mark, sibling at z = -mark, other end in plane
                z = {num[target]: mark, num[sibling]: -mark}
                P = {sym: (*xy[num[sym]], z.get(num[sym], 0)) for sym in (a1, a2, b1, b2)}
                v = _vol(P[a1], P[a2], P[b1], P[b2])
                at = (v > 0) == volume_means_at()
                ref = smiles(f'{a1}C({a2})=[C{"@" if at else "@@"}]=C({b1}){b2}')
                m = smiles(plain)
                for n, p in xy.items():
                    m._atoms[n].xy = p
                try:
                    m.add_wedge(t, num[target], mark)
                except Exception as e:
                    res.append(f'{plain!r}: add_wedge({t}, {num[target]}, {mark}) raised {type(e).__name__}')
                    continue
                got[(target, mark)] = str(m)
                if str(m) != str(ref):
                    res.append(f'{plain!r} drawn {xy}: wedge {"up" if mark == 1 else "down"} from terminal {t} to {target}: the 3-D model is '
                               f'{str(ref)!r}, add_wedge gives {str(m)!r}')
                # what chython draws for this molecule must read back as it
                wm = [w for w in m._wedge_map]
                for n_, m_, v_ in wm:
                    if not v_:
                        continue
                    m2 = smiles(plain)
                    for n, p in xy.items():
                        m2._atoms[n].xy = p
                    m2.add_wedge(n_, m_, v_)
                    if str(m2) != str(m):
                        res.append(f'{plain!r} drawn {xy}: label {str(m)!r} is drawn as wedge {n_}->{m_} mark {v_}, which reads back as {str(m2)!r}')
        if len(got) == 4:
            if got[(s1, 1)] != got[(s2, -1)] or got[(s1, -1)] != got[(s2, 1)]:
                res.append(f'{plain!r}: wedge up to {s1} and wedge down to its sibling {s2} describe one object but give {got[(s1, 1)]!r} / {got[(s2, -1)]!r}')
            if got[(s1, 1)] == got[(s1, -1)]:
                res.append(f'{plain!r}: up and down wedge to {s1} give the same molecule {got[(s1, 1)]!r}')
    return bool(res), '; '.join(res[:3]) if res else f'{plain!r}: 8 wedges agree with the independent 3-D reading, sibling and up/down laws hold'


def stream_allene_wedges(ctx):
    for _ in range(12 if ctx.quick else 200):
        seed = ctx.rng.randrange(10 ** 6)
        ctx.count(('allene-wedge', seed), n=8)
        try:
            fails, what = allene_wedge_case(seed)
        except Exception as e:
            fails, what = True, f'allene wedge case {seed} raised {type(e).__name__}: {e}'
        ctx.dist('allene-wedge:' + ('FAIL' if fails else 'ok'))
        if fails:
            ctx.fail('C12/allene-wedge-configuration', what, {'kind': 'allene-wedge', 'seed': seed})


def stream_allene_wedge_model(ctx):
    """K: real `add_wedge` (allene branch) and `_wedge_map` allene entries vs the Lean model, integer coordinates,
    every end kind (two heavy / heavy + explicit H / heavy + implicit H), cumulenes of 3 and 5 carbons"""
    aw = Stream(ctx, 'add_wedge_allene')
    ws = Stream(ctx, 'wedge_map_sign_allene')
    rng = ctx.rng
    for n_cum in (3, 5):
        for left in END_KINDS:
            for right in END_KINDS:
                for rep in range(2 if ctx.quick else 20):
                    mol, new = ends_template(n_cum, left, right, rep > 0, rng)
                    c = new[(n_cum + 1) // 2]
                    env = mol.stereogenic_allenes.get(c)
                    if env is None:
                        continue
                    lim = rng.choice([2, 5, 30])
                    for n, a in mol._atoms.items():
                        a.xy = (rng.randint(-lim, lim), rng.randint(-lim, lim))
                    t1, t2 = mol._stereo_allenes_terminals[c]
                    hs = h_atoms(mol)
                    pts = lambda n: [int(mol._atoms[n].x), int(mol._atoms[n].y)]
                    subs = [x for x in env if x is not None]
                    cw = [len(subs)] + [v for x in subs for v in [x] + pts(x)]
                    for t in (t1, t2):
                        for m in mol._bonds[t]:
                            if mol._bonds[t][m] != 1:
                                continue
                            for mark in (1, -1):
                                mol._atoms[c]._stereo = None
                                mol.flush_cache()
                                try:
                                    mol.add_wedge(t, m, mark, clean_cache=False)
                                    st = mol._atoms[c].stereo
                                    real = 'ok none' if st is None else f'ok {int(st)}'
                                except Exception as e:
                                    real = f'err {type(e).__name__}'
                                aw.add(' '.join(map(str, ['awa'] + ends_wire(env) + pts(t1) + pts(t2) + cw +
                                                        [int(t == t1), m, int(mol._atoms[m].atomic_number == 1), mark])), real,
                                       {'kind': 'allene-wedge-model', 'cum': n_cum, 'left': left, 'right': right})
                    for s in (True, False):
                        mol._atoms[c]._stereo = s
                        mol.flush_cache()
                        for n_, m_, v in mol._wedge_map:
                            # the tuple `_wedge_map` chose: wedge n_ -> m_; reference substituent at the other terminal
                            i = env.index(m_)
                            x1 = env[1] if i in (0, 2) else env[0]
                            tb = t2 if n_ == t1 else t1
                            ws.add(' '.join(map(str, ['wsa'] + ends_wire(env) + lst(hs) + [m_, x1] + pts(n_) + pts(tb) + pts(x1) + [tri(s)])),
                                   f'ok {v}', {'kind': 'allene-wedge-model', 'cum': n_cum, 'left': left, 'right': right})
                    mol._atoms[c]._stereo = None
    aw.run()
    ws.run()


# ================================================================================================
# round 3: which atoms may carry a tetrahedral label at all (gate conditions: element, charge, radical, bond orders,
# ring linkers with a symmetric ring) — chython's candidates vs RDKit's potential centres, under renumbering
# ================================================================================================

SPIRO_PATHS_SYM = ['CC', 'CCC', 'CCCC', 'CCCCC', 'COC', 'CC(C)C', 'C=CC=C', 'CC(=O)C', 'CNC']
SPIRO_PATHS_UNSYM = ['OC', 'OCC', 'CCO', 'C=CC', 'C(C)CC', 'NC(=O)C', 'CCCO', 'SCC', 'C(F)C', 'C=CCC']

GATE_TEMPLATES = [
    # carbon radicals / ions with three different heavy neighbours, alone and next to a real centre
    'C[C](F)Cl |^1:1|', 'CC[C](O)N |^1:2|', 'OC[C](C)N |^1:2|', 'C[C](F)C(C)(N)O |^1:1|', 'C[C](Cl)C(F)N |^1:1|', 'C1CC[C](C)O1 |^1:3|',
    'F[C](Cl)C1CCCO1 |^1:1|', 'C[C+](F)Cl', 'C[C-](F)Cl', 'CC[C+](O)N', 'C[C-](Cl)C(F)N', 'C[CH](F)Cl', 'CC(F)(Cl)Br', 'C[N+](F)(Cl)Br', 'C[Si](F)(Cl)Br',
    'C[B-](F)(Cl)Br', 'CP(F)Cl', 'CS(=O)CC', 'CC(=O)C(F)Cl', 'CC(F)=C(Cl)Br', 'C[C](F)=O', 'CC(F)(Cl)[Li]', 'C[C]([Na])(F)Cl', 'C[CH]C(F)Cl |^1:1|',
    '[CH2]C(F)(Cl)C |^1:0|', 'C[C](C)C(F)(Cl)Br |^1:1|', 'C[C](N)C1CC1 |^1:1|', 'O[C](F)C=C |^1:1|', 'CC(C)[C](F)Cl |^1:3|', 'C[C]1CCOC1 |^1:1|',
    # ordinary controls
    'CC(F)Cl', 'CC(O)C(N)C', 'C1CC(C)CCC1O', 'CC1CCC(C)CC1', 'C1CCC2(C1)CCCC2', 'CC(C)C(C)C',
]


def gate_templates():
    out = list(GATE_TEMPLATES)
    for p in SPIRO_PATHS_SYM + SPIRO_PATHS_UNSYM:
        for q in SPIRO_PATHS_SYM[:5] + SPIRO_PATHS_UNSYM:
            out.append(f'C12({p}1){q}2')
    # spiro atom plus a substituted far ring atom, fused / bridged linkers that share more than one atom
    out += ['C1CC2(C1)CC(F)C2', 'CC1CC2(C1)CC(F)C2', 'C1CC2(CC1)OCCO2', 'C1CCC2(CC1)OCC(C)O2', 'C1CC2(CCC1O)CCNC2', 'C1CC2CCC1C2', 'C1CC2CC1CO2',
            'C1CC12CC2', 'C1CC12CO2', 'O=C1CCC2(C1)CCCC2', 'O=C1CCC2(CC1)CCOC2', 'C1CC2(C1)C1(CCC1)C2', 'C1CCC2(C1)CC[C](C)C2 |^1:8|']
    return out


def rd_renumbered(smi, rng):
    """(cx-smiles of a randomly renumbered copy, list: output position -> original atom index)"""
    from rdkit import Chem
    m = Chem.MolFromSmiles(smi)
    if m is None:
        return None, None
    perm = list(range(m.GetNumAtoms()))
    rng.shuffle(perm)
    m2 = Chem.RenumberAtoms(m, perm)          # new atom i is old atom perm[i]
    s = Chem.MolToCXSmiles(m2, canonical=False)
    if Chem.MolToSmiles(m2, canonical=False) != s.split(' ')[0]:     # sets _smilesAtomOutputOrder (same traversal)
        return None, None
    order = [int(x) for x in _re.findall(r'\d+', m2.GetProp('_smilesAtomOutputOrder'))]
    return s, [perm[i] for i in order]


def rd_potential_centres(smi):
    from rdkit import Chem
    m = Chem.MolFromSmiles(smi)
    return {e.centeredOn for e in Chem.FindPotentialStereo(m) if e.type == Chem.StereoType.Atom_Tetrahedral}, m


def mark_atom_variants(smi, k):
    """'@' and '@@' written on the k-th atom token of an unmarked (CX)SMILES when it is a carbon written as C, [C], [CH], [C+], [C-]"""
    body, _, cx = smi.partition(' ')
    toks = _re.findall(r'\[[^\]]*\]|Cl|Br|[BCNOPSFI]|[bcnops]|.', body)
    idx = -1
    for j, t in enumerate(toks):
        if _re.fullmatch(r'\[[^\]]*\]|Cl|Br|[BCNOPSFI]|[bcnops]', t):
            idx += 1
            if idx == k:
                if t == 'C':
                    h = None
                elif _re.fullmatch(r'\[CH?[+-]?\]', t):
                    h = t
                else:
                    return []
                outs = []
                for mark in ('@', '@@'):
                    if h is None:
                        outs.append((mark, None))
                    else:
                        outs.append((mark, t[:2] + mark + t[2:]))
                return [(''.join(toks[:j] + [new] + toks[j + 1:]) + ((' ' + cx) if cx else ''), mark) for mark, new in outs if new]\
                    or [(None, k)]
    return []


def proven_nonstereogenic(rm):
    """atoms for which a constitutional automorphism fixes the atom and permutes its neighbours oddly (implicit H fixed):
    inverting the atom alone gives the same molecule, so by itself it cannot be a stereocentre. Brute force through RDKit's
    self-match (independent of chython); ring pairs such as 1,4-dimethylcyclohexane are excluded by the caller through
    RDKit's potential-stereo set."""
    out = set()
    autos = rm.GetSubstructMatches(rm, uniquify=False, useChirality=False, maxMatches=20000)
    for a in rm.GetAtoms():
        x = a.GetIdx()
        nb = [n.GetIdx() for n in a.GetNeighbors()]
        if len(nb) not in (3, 4):
            continue
        for sig in autos:
            if sig[x] != x:
                continue
            img = [sig[n] for n in nb]
            if sorted(img) == sorted(nb) and odd(img, nb):
                out.add(x)
                break
    return out


def gate_case(template, seed, n_spell=6):
    """(fails, what). Atoms chython offers as (or keeps labelled as) tetrahedral stereocentres must be potential centres
    for RDKit as well, in every renumbering; a mark on a carbon that RDKit does not consider a potential centre is dropped
    and `@` / `@@` give one molecule."""
    import random as _r
    from chython import smiles
    from rdkit import Chem
    rng = _r.Random(seed)
    rd, rm = rd_potential_centres(template)
    # atoms that are certainly not stereocentres: (a) inverting them alone is a constitutional automorphism; (b) carbon atoms
    # that are not neutral closed-shell sp3 carbons (radical, cation, anion: trigonal or rapidly inverting) — both only when
    # RDKit does not list them as potential centres either
    dead = (proven_nonstereogenic(rm) | {a.GetIdx() for a in rm.GetAtoms() if a.GetSymbol() == 'C' and
                                         (a.GetNumRadicalElectrons() or a.GetFormalCharge())}) - rd
    ri = rm.GetRingInfo()
    res, known = [], False
    for _ in range(n_spell):
        smi, order = rd_renumbered(template, rng)
        if smi is None:
            return False, 'RDKit cannot read the template'
        try:
            mol = smiles(smi)
        except Exception as e:
            return False, f'skipped: chython cannot read {smi!r} ({type(e).__name__})'
        if len(mol) != len(order):
            return False, 'skipped: atom count differs (explicit hydrogens)'
        offered = {order[n - 1] for n in mol.chiral_tetrahedrons}
        extra = offered & dead
        if extra:
            # class of the open finding: a spiro atom with one symmetric ring, offered together with another ring atom
            known = all(ri.NumAtomRings(x) == 2 and any(y != x and any(x in r and y in r for r in ri.AtomRings()) for y in offered)
                        for x in extra)
            res.append(f'{smi!r}: chiral_tetrahedrons offers atom(s) {sorted(n for n in mol.chiral_tetrahedrons if order[n - 1] in extra)} '
                       f'that RDKit does not consider potential stereocentres (RDKit: {sorted(rd)} in template numbering of {template!r})')
            break
        plain = str(mol)
        for pos in range(len(order)):
            a = rm.GetAtomWithIdx(order[pos])
            if a.GetSymbol() != 'C' or order[pos] not in dead or a.GetDegree() not in (3, 4) or \
                    any(b.GetBondTypeAsDouble() != 1 for b in a.GetBonds()):
                continue
            body, _, cx = smi.partition(' ')
            toks = _re.findall(r'\[[^\]]*\]|Cl|Br|[BCNOPSFI]|[bcnops]|.', body)
            ai = [j for j, t in enumerate(toks) if _re.fullmatch(r'\[[^\]]*\]|Cl|Br|[BCNOPSFI]|[bcnops]', t)]
            t = toks[ai[pos]]
            nh = a.GetTotalNumHs()
            if t == 'C':
                new = lambda mk: f'[C{mk}{"H" if nh == 1 else ""}]' if nh <= 1 else None
            elif _re.fullmatch(r'\[CH?\d?[+-]?\]', t):
                new = lambda mk, t=t: t[:2] + mk + t[2:]
            else:
                continue
            strs = {}
            for mk in ('@', '@@'):
                tk = new(mk)
                if tk is None:
                    continue
                v = ''.join(toks[:ai[pos]] + [tk] + toks[ai[pos] + 1:]) + ((' ' + cx) if cx else '')
                try:
                    strs[v] = str(smiles(v))
                except Exception as e:
                    strs[v] = f'!{type(e).__name__}'
            bad = {v: s for v, s in strs.items() if s != plain}
            if bad:
                v, s = next(iter(bad.items()))
                res.append(f'{v!r}: the marked atom is not a potential stereocentre for RDKit, but chython keeps a label: {s!r} vs unmarked {plain!r}')
                break
        if res:
            break
    if res and known:
        res[0] = '[spiro atom with a symmetric ring next to a ring stereocentre] ' + res[0]
    return bool(res), '; '.join(res[:2]) if res else f'{template!r}: no atom that is provably not a stereocentre is offered or keeps a mark (RDKit potential centres {sorted(rd)})'


def stream_gate(ctx):
    tpl = gate_templates()
    if ctx.quick:
        tpl = GATE_TEMPLATES[:24] + ctx.rng.sample(tpl[len(GATE_TEMPLATES):], 60)
    for t in tpl:
        seed = ctx.rng.randrange(10 ** 6)
        ctx.count(('gate', t, seed))
        try:
            fails, what = gate_case(t, seed, 4 if ctx.quick else 12)
        except Exception as e:
            ctx.dist(f'gate-skip:{type(e).__name__}')
            continue
        ctx.dist('gate:' + ('FAIL' if fails else 'skipped' if what.startswith('skipped') or 'cannot' in what else 'ok'))
        if fails and what.startswith('[spiro atom with a symmetric ring next to a ring stereocentre]'):
            ctx.fail(KNOWN_SPIRO, what, {'kind': 'gate', 'template': t, 'seed': seed})
        elif fails:
            ctx.fail(f'C12/non-stereogenic-atom-offered-or-labelled/{t}', what, {'kind': 'gate', 'template': t, 'seed': seed})


# ================================================================================================
# Round 5: label-dependent stereo units (pseudo-asymmetric centres and double bonds)
# ================================================================================================
# A *hub* (tetrahedral carbon or one end of a double bond) carries two or more constitutionally identical *arms*, each arm
# holding a labelled stereo unit of its own.  Whether the hub is a stereo unit then depends on the labels of the arms
# (`_chiral_morgan` / `__differentiation` rank equally-classed labelled units by configuration, `__chiral_centers` is re-read
# after every round of `fix_stereo` / `postprocess_molecule` / `add_*_stereo`).  Judge (independent of chython and of RDKit):
# two labelled molecules of one constitution are the same compound iff some constitutional automorphism (brute force over
# the spec graph) carries every tetrahedral parity and every cis/trans relation of one onto the other; a unit is stereogenic
# in a labelled molecule iff inverting it alone gives a different compound.

DEP_ARMS = ('t3h', 't4', 'st3h', 'd2', 'd3', 'd3n', 'd4', 'sd3', 'a4', 'sa4')
DEP_DB_ARMS = ('d2', 'd3', 'd3n', 'd4', 'a4')  # double bond directly on the attachment atom (not on a double-bond hub: conjugation)
DEP_HUBS = ('T3h', 'T4', 'D3', 'D4', 'A')
DEP_EDIT = {'F': 'Cl', 'O': 'S'}              # leaf replacement that makes two identical arms constitutionally distinct


def dep_arm(kind, o, hub):
    """one arm: (atoms, bonds, centres, dbonds, attachment atom[, allenes]); ids o+1.. ; `hub` = id of the atom it hangs on"""
    A, B, C, D, E = o + 1, o + 2, o + 3, o + 4, o + 5
    F, G = o + 6, o + 7
    if kind == 'a4':       # -C(F)=C=C(Cl)CH3
        return ({A: 'C', B: 'C', C: 'C', D: 'F', E: 'Cl', F: 'C'}, {(A, B): 2, (B, C): 2, (A, D): 1, (C, E): 1, (C, F): 1}, {}, {}, A,
                {B: ([hub, D, E, F], True)})
    if kind == 'sa4':      # -CH2-C(F)=C=C(Cl)CH3
        return ({A: 'C', B: 'C', C: 'C', D: 'C', E: 'F', F: 'Cl', G: 'C'},
                {(A, B): 1, (B, C): 2, (C, D): 2, (B, E): 1, (D, F): 1, (D, G): 1}, {}, {}, A, {C: ([A, E, F, G], True)})
    if kind == 't3h':      # -CH(CH3)OH
        return {A: 'C', B: 'C', C: 'O'}, {(A, B): 1, (A, C): 1}, {A: ([hub, B, C, 'h'], True)}, {}, A
    if kind == 't4':       # -C(CH3)(OH)F
        return {A: 'C', B: 'C', C: 'O', D: 'F'}, {(A, B): 1, (A, C): 1, (A, D): 1}, {A: ([hub, B, C, D], True)}, {}, A
    if kind == 'st3h':     # -CH2-CH(CH3)OH
        return {A: 'C', B: 'C', C: 'C', D: 'O'}, {(A, B): 1, (B, C): 1, (B, D): 1}, {B: ([A, C, D, 'h'], True)}, {}, A
    if kind == 'd2':       # -CH=CH-CH3
        return {A: 'C', B: 'C', C: 'C'}, {(A, B): 2, (B, C): 1}, {}, {(A, B): (hub, C, True)}, A
    if kind == 'd3':       # -CH=C(F)CH3      (far end carries two heavy substituents)
        return {A: 'C', B: 'C', C: 'F', D: 'C'}, {(A, B): 2, (B, C): 1, (B, D): 1}, {}, {(A, B): (hub, C, True)}, A
    if kind == 'd3n':      # -C(F)=CH-CH3     (near end carries two heavy substituents)
        return {A: 'C', B: 'C', C: 'C', D: 'F'}, {(A, B): 2, (B, C): 1, (A, D): 1}, {}, {(A, B): (hub, C, True)}, A
    if kind == 'd4':       # -C(F)=C(Cl)CH3
        return ({A: 'C', B: 'C', C: 'Cl', D: 'C', E: 'F'}, {(A, B): 2, (B, C): 1, (B, D): 1, (A, E): 1}, {},
                {(A, B): (E, D, True)}, A)
    if kind == 'sd3':      # -CH2-CH=C(F)CH3
        return ({A: 'C', B: 'C', C: 'C', D: 'F', E: 'C'}, {(A, B): 1, (B, C): 2, (C, D): 1, (C, E): 1}, {},
                {(B, C): (A, E, True)}, A)
    raise KeyError(kind)


def dep_spec(name):
    """'dep:<hub>:<arm>:<arm>' one hub, two arms | 'dep3:<arm>' C(O)(arm)3 | 'dep2:<arm>' two equivalent hubs, four arms
    (arm)2CH-O-CH(arm)2 | 'depring:<n>' ring hubs"""
    parts = name.split(':')
    atoms, bonds, centres, dbonds, allenes = {}, {}, {}, {}, {}

    def add(kind, o, hub):
        a = dep_arm(kind, o, hub)
        atoms.update(a[0]), bonds.update(a[1]), centres.update(a[2]), dbonds.update(a[3])
        if len(a) > 5:
            allenes.update(a[5])
        bonds[(hub, a[4])] = 1
        return a[4]

    if parts[0] == 'dep':
        hub, k1, k2 = parts[1:]
        atoms[1] = 'C'
        x, y = add(k1, 10, 1), add(k2, 20, 1)
        if hub == 'T3h':
            atoms[2] = 'O'
            bonds[(1, 2)] = 1
            centres[1] = ([2, 'h', x, y], True)
        elif hub == 'T4':
            atoms.update({2: 'O', 3: 'N'})
            bonds.update({(1, 2): 1, (1, 3): 1})
            centres[1] = ([2, 3, x, y], True)
        elif hub == 'D3':
            atoms.update({2: 'C', 3: 'C'})
            bonds.update({(1, 2): 2, (2, 3): 1})
            dbonds[(1, 2)] = (x, 3, True)
        elif hub == 'D4':
            atoms.update({2: 'C', 3: 'C', 4: 'F'})
            bonds.update({(1, 2): 2, (2, 3): 1, (2, 4): 1})
            dbonds[(1, 2)] = (x, 4, False)
        elif hub == 'A':       # (arm)2C=C=C(F)Cl: the hub unit is the allene centre
            atoms.update({2: 'C', 3: 'C', 4: 'F', 5: 'Cl'})
            bonds.update({(1, 2): 2, (2, 3): 2, (3, 4): 1, (3, 5): 1})
            allenes[2] = ([x, y, 4, 5], True)
        else:
            raise KeyError(hub)
    elif parts[0] == 'dep3':
        atoms.update({1: 'C', 2: 'O'})
        bonds[(1, 2)] = 1
        centres[1] = ([2] + [add(parts[1], 10 * (i + 1), 1) for i in range(3)], True)
    elif parts[0] == 'dep2':
        atoms.update({1: 'C', 2: 'C', 3: 'O'})
        bonds.update({(1, 3): 1, (3, 2): 1})
        for h, offs in ((1, (10, 20)), (2, (30, 40))):
            centres[h] = ([3, 'h'] + [add(parts[1], o, h) for o in offs], True)
    elif parts[0] == 'depring':
        if parts[1] == 'cyclobutane-1,3':        # 3-methylcyclobutanol
            atoms.update({1: 'C', 2: 'C', 3: 'C', 4: 'C', 5: 'O', 6: 'C'})
            bonds.update({(1, 2): 1, (2, 3): 1, (3, 4): 1, (4, 1): 1, (1, 5): 1, (3, 6): 1})
            centres.update({1: ([5, 'h', 2, 4], True), 3: ([6, 'h', 2, 4], True)})
        else:                                    # 2,6-dimethylcyclohexanol
            atoms.update({1: 'C', 2: 'C', 3: 'C', 4: 'C', 5: 'C', 6: 'C', 7: 'O', 8: 'C', 9: 'C'})
            bonds.update({(i, i + 1): 1 for i in range(1, 6)})
            bonds.update({(6, 1): 1, (1, 7): 1, (2, 8): 1, (6, 9): 1})
            centres.update({1: ([7, 'h', 2, 6], True), 2: ([1, 3, 8, 'h'], True), 6: ([1, 5, 9, 'h'], True)})
    else:
        raise KeyError(name)
    return Spec(atoms, bonds, centres, dbonds, name, allenes)


def dep_names():
    out = [f'dep:{h}:{k}:{k}' for h in DEP_HUBS for k in DEP_ARMS if not (h[0] in 'DA' and k in DEP_DB_ARMS)]
    out += ['dep:T3h:t3h:t4', 'dep:T4:d3:d3n', 'dep:D3:t3h:st3h', 'dep:T3h:d2:sd3']      # controls: arms constitutionally distinct
    out += ['dep2:t3h', 'dep2:d3', 'dep2:d3n', 'dep2:a4']
    return out


def spec_automorphisms(spec):
    """all constitutional automorphisms of a Spec graph (element, bond orders), brute-force backtracking"""
    inv = {a: (spec.atoms[a], tuple(sorted(spec.order(a, b) for b in spec.adj[a]))) for a in spec.atoms}
    seen, order = set(), []
    for s in spec.atoms:
        if s in seen:
            continue
        q = [s]
        seen.add(s)
        while q:
            x = q.pop(0)
            order.append(x)
            for y in spec.adj[x]:
                if y not in seen:
                    seen.add(y)
                    q.append(y)
    out = []

    def go(i, pi, used):
        if i == len(order):
            out.append(dict(pi))
            return
        a = order[i]
        for b in order:
            if b in used or inv[b] != inv[a]:
                continue
            if all(c not in pi or (pi[c] in spec.adj[b] and spec.order(a, c) == spec.order(b, pi[c])) for c in spec.adj[a]):
                pi[a] = b
                used.add(b)
                go(i + 1, pi, used)
                del pi[a]
                used.discard(b)

    go(0, {}, set())
    return out


def same_config(s1, s2, pi):
    """the configuration of s1, carried along the automorphism pi, is the configuration of s2"""
    def f(v):
        return v if v == 'h' else pi[v]
    for c, (ref, sign) in s1.centres.items():
        if same_tetra(([f(v) for v in ref], sign), s2.centres[pi[c]]) is not True:
            return False
    for c, (ref, sign) in s1.allenes.items():
        if same_tetra(([f(v) for v in ref], sign), s2.allenes[pi[c]]) is not True:
            return False
    for (a, b), (x, y, cis) in s1.dbonds.items():
        a2, b2, x2, y2 = pi[a], pi[b], pi[x], pi[y]
        if (a2, b2) in s2.dbonds:
            p, q, cis2 = s2.dbonds[(a2, b2)]
        else:
            q, p, cis2 = s2.dbonds[(b2, a2)]
        if (cis2 == ((p == x2) == (q == y2))) != cis:
            return False
    return True


def dep_combos(spec):
    """(elements, the 2^k label combinations, class id per combination by the automorphism judge)"""
    els = [('c', c) for c in spec.centres] + [('d', d) for d in spec.dbonds] + [('a', c) for c in spec.allenes]
    auts = spec_automorphisms(spec)
    combos = []
    for mask in range(1 << len(els)):
        pick = [e for i, e in enumerate(els) if mask >> i & 1]
        combos.append(flip_subset(spec, {x for t, x in pick if t == 'c'}, {x for t, x in pick if t == 'd'},
                                  {x for t, x in pick if t == 'a'}))
    cls = list(range(len(combos)))
    for i in range(len(combos)):
        for j in range(i):
            if cls[j] == j and any(same_config(combos[i], combos[j], pi) for pi in auts):
                cls[i] = j
                break
    return els, combos, cls


def n_labels(mol):
    return sum(a.stereo is not None for _, a in mol.atoms()) + sum(b.stereo is not None for *_, b in mol.bonds())


def _h_fix(m):
    m.fix_stereo()
    return m


def _h_hyd(m):
    m.explicify_hydrogens()
    m.implicify_hydrogens()
    return m


def _h_union(m):
    from chython import smiles
    return max((m | smiles('O')).split(), key=len)


def _h_add_delete(m):
    m.delete_atom(m.add_atom('C'))
    return m


def _h_canon(m):
    m.canonicalize()
    return m


def _h_rdkit(m):
    from chython.utils.rdkit import to_rdkit_molecule, from_rdkit_molecule
    return from_rdkit_molecule(to_rdkit_molecule(m))


def _h_bond(m):
    n = m.add_atom('C')
    k = m.add_atom('C')
    m.add_bond(n, k, 1)
    m.delete_bond(n, k)
    m.delete_atom(n)
    m.delete_atom(k)
    return m


def _h_warm_fix(m):
    str(m), m.chiral_tetrahedrons, m.chiral_cis_trans
    m.fix_stereo()
    return m


DEP_HISTORIES = {'fix_stereo': _h_fix, 'explicify+implicify': _h_hyd, 'substructure(all)': lambda m: m.substructure(list(m)),
                 'union+split': _h_union, 'add_atom+delete_atom': _h_add_delete, 'canonicalize': _h_canon,
                 'rdkit-round-trip': _h_rdkit, 'copy': lambda m: m.copy(), 'add_bond+delete_bond': _h_bond,
                 'reads+fix_stereo': _h_warm_fix}


def dep_history(smi, hist):
    """(fails, what): a constitution-preserving operation must leave the labelled molecule what its fresh parse is"""
    from chython import smiles
    fresh = smiles(smi)
    m = DEP_HISTORIES[hist](smiles(smi))
    ok = str(m) == str(fresh) and m == fresh and n_labels(m) == n_labels(fresh)
    return not ok, (f'{smi!r} parses to {str(fresh)!r} ({n_labels(fresh)} labels); after {hist} it is {str(m)!r} '
                    f'({n_labels(m)} labels), equal={m == fresh}')


def dep_api(smi_plain, smi_marked, calls, rounds=False):
    """(fails, what): labelling an unmarked parse through add_atom_stereo / add_cis_trans_stereo gives the molecule the marked
    spelling parses to.  rounds=False: one call after the other with the default cache handling, arm units before hub units
    (a hub labelled while only one of its arms is, is a stereocentre at that moment - not judged); rounds=True: calls in any
    order, units refused as not stereogenic are retried after the others with the stereo caches flushed in between (what
    every reader does)"""
    from chython import smiles
    from chython.exceptions import NotChiral
    m, exp = smiles(smi_plain), smiles(smi_marked)
    todo = [tuple(c) for c in calls]
    kw = {'clean_cache': False} if rounds else {}
    while todo:
        rest = []
        for c in todo:
            try:
                if c[0] == 'c':
                    m.add_atom_stereo(c[1], tuple(c[2]), bool(c[3]), **kw)
                else:
                    m.add_cis_trans_stereo(c[1], c[2], c[3], c[4], bool(c[5]), **kw)
            except NotChiral:
                rest.append(c)
        if rounds:
            m.flush_stereo_cache()
        if len(rest) == len(todo):
            break
        todo = rest
    if rounds:
        m.flush_cache()
    ok = str(m) == str(exp) and m == exp and n_labels(m) == n_labels(exp)
    return not ok, (f'{smi_plain!r} labelled through the API ({len(calls)} calls{", reader-like rounds" if rounds else ""}, {len(todo)} refused as not stereogenic): {str(m)!r} '
                    f'({n_labels(m)} labels); the marked spelling {smi_marked!r} parses to {str(exp)!r} ({n_labels(exp)} labels)')


def dep_edit(smi_from, smi_to, num, new_symbol):
    """(fails, what): replace atom `num` of the parsed smi_from by `new_symbol` (same valence), fix_stereo; the result must be
    what smi_to (the same atom order with the replaced element, labels unchanged) parses to"""
    from chython import smiles
    from chython.periodictable import Element
    m, exp = smiles(smi_from), smiles(smi_to)
    if n_labels(m) < n_labels(exp):
        # a unit that is not stereogenic before the edit has lost its label at parse time: nothing to restore, no expectation
        return False, f'{smi_from!r}: {n_labels(m)} labels, {smi_to!r}: {n_labels(exp)} labels - no expectation'
    old = m._atoms[num]
    new = Element.from_symbol(new_symbol)()
    new._implicit_hydrogens = old._implicit_hydrogens
    m._atoms[num] = new
    m.flush_cache()
    m.calc_labels()
    m.fix_stereo()
    ok = str(m) == str(exp) and m == exp and n_labels(m) == n_labels(exp)
    return not ok, (f'{smi_from!r} with atom {num} replaced by {new_symbol} + fix_stereo: {str(m)!r} ({n_labels(m)} labels); '
                    f'{smi_to!r} parses to {str(exp)!r} ({n_labels(exp)} labels)')


def dep_block(smi):
    """(fails, what): the MDL route. RDKit draws `smi` (2-D coordinates, wedges); chython's reading of that block (wedges in retry
    rounds, double bonds from the coordinates after every round) must be the molecule `smi` parses to; the block chython writes for
    it must read back as the same molecule, by chython and by RDKit"""
    from chython import smiles
    block, can = rd_block(smi)
    if block is None or rd_canon_block(block) != can:
        return False, f'{smi!r}: skipped (RDKit does not read its own drawing back as the input)'
    ref = smiles(smi)
    m = chy_from_block(block)
    if not (m == ref) or n_labels(m) != n_labels(ref):
        return True, (f'{smi!r} parses to {str(ref)!r} ({n_labels(ref)} labels); its RDKit drawing (RDKit reads it as {can!r}) is read by chython as '
                      f'{str(m)!r} ({n_labels(m)} labels)')
    b2 = chy_to_block(m)
    m2 = chy_from_block(b2)
    if not (m2 == ref) or n_labels(m2) != n_labels(ref):
        return True, f'{smi!r}: {str(m)!r} written as mol block and read back is {str(m2)!r} ({n_labels(m2)} labels instead of {n_labels(ref)})'
    back = rd_canon_block(b2)
    back = rd_canon(back) if back else back
    if back != can:
        return True, f'{smi!r}: chython holds {str(m)!r} but writes wedges that RDKit reads as {back!r} (input: {can!r})'
    return False, f'{smi!r}: mol-block read and write agree with the SMILES parse and with RDKit'


def _api_calls(sp, index):
    num = {a: index[a] + 1 for a in index}
    calls = []
    for c, (ref, sign) in sp.centres.items():
        env = [x for x in ref if x != 'h']
        mark = sign != odd(env + (['h'] if 'h' in ref else []), list(ref))
        calls.append(['c', num[c], [num[x] for x in env], bool(mark)])
    for (a, b), (x, y, cis) in sp.dbonds.items():
        calls.append(['d', num[a], num[b], num[x], num[y], bool(cis)])
    for c, (ref, sign) in sp.allenes.items():
        # (nn, nm, mark): the mark a SMILES string carries when nn is the first substituent written on one terminal and nm the
        # first on the other
        t = {x: next(y for y in sp.adj[x] if y in sp.adj[c]) for x in ref}     # the terminal atom a substituent sits on
        nn, nm = ref[0], next(x for x in ref if t[x] != t[ref[0]])
        nn2 = next(x for x in ref if t[x] == t[nn] and x != nn)
        nm2 = next(x for x in ref if t[x] == t[nm] and x != nm)
        calls.append(['c', num[c], [num[nn], num[nm]], bool(sign != odd([nn, nn2, nm, nm2], list(ref)))])
    return calls


def dep_case(ctx, name, rng, n_spell, n_combos=None, n_hist=2, known=None):
    """run one family member; reports through ctx.fail; returns number of failures"""
    from chython import smiles
    spec = dep_spec(name)
    els, combos, cls = dep_combos(spec)
    pick = list(range(len(combos)))
    if n_combos is not None and n_combos < len(pick):
        pick = sorted(rng.sample(pick, n_combos))
        pick = sorted(set(pick) | {i ^ 1 for i in pick[:4]})     # keep some single-unit partners
    ctx.dist(f'dependent:classes:{len(set(cls))}-of-{len(combos)}')
    res, bad = {}, 0

    def fail(sig, what, inp):
        nonlocal bad
        bad += 1
        ctx.fail(known or f'C12/{sig}/{name}', what, inp)

    for i in pick:
        sp = combos[i]
        sgen = sum(cls[i ^ (1 << j)] != cls[i] for j in range(len(els)))
        strs, first = {}, None
        for smi, index, _nb in spellings(sp, rng, n_spell):
            ctx.count(('dependent', smi))
            try:
                m = smiles(smi)
            except Exception as e:
                fail('label-dependent-unit/reader-raises', f'{smi!r}: {type(e).__name__}: {e}', {'kind': 'reread', 'smiles': smi})
                continue
            strs[smi] = str(m)
            if n_labels(m) != sgen:
                fail('label-dependent-unit/labels-kept-vs-stereogenic-units',
                     f'{smi!r} -> {str(m)!r} carries {n_labels(m)} labels; {sgen} of its {len(els)} marked units are stereogenic '
                     f'(inverting one of them alone gives a different compound under every constitutional automorphism)',
                     {'kind': 'stereo-count', 'smiles': smi, 'expected': sgen})
            if first is None:
                first = (smi, index)
        if not strs:
            continue
        res[i] = strs
        ref_smi, ref = next(iter(strs.items()))
        for smi, s in strs.items():
            if s != ref:
                fail('label-dependent-unit/spellings-of-one-configuration-differ', f'{ref_smi!r} -> {ref!r} but {smi!r} -> {s!r} (one compound)',
                     {'kind': 'spelling-pair', 'a': ref_smi, 'b': smi, 'same': True})
                break
        # histories, API labelling, edits on the first spelling
        smi, index = first
        for h in rng.sample(sorted(h for h in DEP_HISTORIES if not (spec.allenes and h == 'rdkit-round-trip')), n_hist):
            ctx.count(('dependent-history', smi, h))
            ctx.dist('dependent-history:' + h)
            try:
                f, what = dep_history(smi, h)
            except Exception as e:
                f, what = True, f'{smi!r} after {h}: {type(e).__name__}: {e}'
            if f:
                fail('label-dependent-unit/changed-by-constitution-preserving-operation', what, {'kind': 'dependent-history', 'smiles': smi, 'history': h})
        if not spec.allenes and rng.random() < 0.5:
            ctx.count(('dependent-block', smi))
            try:
                f, what = dep_block(smi)
            except Exception as e:
                f, what = True, f'{smi!r} through a mol block: {type(e).__name__}: {e}'
            ctx.dist('dependent-block:' + ('FAIL' if f else 'skipped' if 'skipped' in what else 'ok'))
            if f:
                fail('label-dependent-unit/mol-block-differs-from-smiles', what, {'kind': 'dependent-block', 'smiles': smi})
        if rng.random() < 0.5:
            seed = rng.randrange(10 ** 9)
            import random as _r
            (smi_m, idx, _x), = list(spellings(sp, _r.Random(seed), 1))
            (smi_p, idx2, _x), = list(spellings(plain_of(sp), _r.Random(seed), 1))
            calls = _api_calls(sp, idx)
            rng.shuffle(calls)
            rounds = rng.random() < 0.5
            if not rounds:      # arm units first: hub atoms are the first ten ids of a family member
                hubs = {idx[a] + 1 for a in sp.atoms if a < 10}
                calls.sort(key=lambda c: c[1] in hubs)
            ctx.count(('dependent-api', smi_m, rounds))
            try:
                f, what = dep_api(smi_p, smi_m, calls, rounds)
            except Exception as e:
                f, what = True, f'{smi_p!r}: labelling API raised {type(e).__name__}: {e}'
            if f:
                fail('label-dependent-unit/api-labelling-differs-from-reader', what,
                     {'kind': 'dependent-api', 'plain': smi_p, 'marked': smi_m, 'calls': calls, 'rounds': rounds})
        leaves = [a for a in sp.atoms if a >= 20 and a < 30 and sp.atoms[a] in DEP_EDIT and len(sp.adj[a]) == 1]
        if leaves and rng.random() < 0.5:
            a = leaves[0]
            sp2 = Spec({**sp.atoms, a: DEP_EDIT[sp.atoms[a]]}, sp.bonds, sp.centres, sp.dbonds, sp.name + '~edited', sp.allenes)
            seed = rng.randrange(10 ** 9)
            import random as _r
            (s1, idx, _x), = list(spellings(sp, _r.Random(seed), 1))
            (s2, idx2, _x), = list(spellings(sp2, _r.Random(seed), 1))
            for src, dst, sym in ((s1, s2, sp2.atoms[a]), (s2, s1, sp.atoms[a])):
                ctx.count(('dependent-edit', src, dst))
                try:
                    f, what = dep_edit(src, dst, idx[a] + 1, sym)
                except Exception as e:
                    f, what = True, f'{src!r} edit: {type(e).__name__}: {e}'
                if f:
                    fail('label-dependent-unit/fix_stereo-after-edit-differs-from-fresh-parse', what,
                         {'kind': 'dependent-edit', 'from': src, 'to': dst, 'atom': idx[a] + 1, 'symbol': sym})
    # classes: same compound <=> equal; RDKit where it agrees with the judge
    keys = sorted(res)
    if spec.allenes:        # RDKit has no allene stereo: automorphism judge only
        rd = {i: {s: None for s in res[i]} for i in keys}
    else:
        rd = {i: {s: rd_canon(s) for s in res[i]} for i in keys}
    for x, i in enumerate(keys):
        si, vi = next(iter(res[i].items()))
        for j in keys[:x]:
            sj, vj = next(iter(res[j].items()))
            ctx.count(('dependent-pair', si, sj))
            same = cls[i] == cls[j]
            if same != (vi == vj):
                fail('label-dependent-unit/' + ('one-compound-unequal' if same else 'stereoisomers-equal'),
                     f'{si!r} -> {vi!r} and {sj!r} -> {vj!r}: ' + ('one compound (an automorphism carries one configuration onto the other)' if same
                                                                   else 'different stereoisomers (no automorphism carries one configuration onto the other)')
                     + f'; RDKit: {rd[i][si]!r} vs {rd[j][sj]!r}', {'kind': 'spelling-pair', 'a': si, 'b': sj, 'same': same})
            if not spec.allenes and same != (rd[i][si] == rd[j][sj]):
                ctx.dist('dependent:rdkit-disagrees-with-automorphism-judge')
        if len(set(rd[i].values())) == 1 and None not in rd[i].values():
            r_out = rd_canon(vi.split()[0])
            ctx.count(('dependent-rdkit', si))
            if r_out != rd[i][si] and all((cls[i] == cls[j]) == (rd[i][si] == next(iter(rd[j].values()))) for j in keys):
                fail('label-dependent-unit/rdkit-disagrees', f'input {si!r} (RDKit canonical {rd[i][si]!r}) is written as {vi!r} (RDKit canonical {r_out!r})',
                     {'kind': 'rdkit', 'smiles': si})
    return bad


def stream_dependent(ctx):
    """R: hubs with constitutionally identical labelled arms: equality classes and label counts against the automorphism judge,
    RDKit, constitution-preserving histories, API labelling, edits that make / unmake the arm equivalence"""
    names = dep_names()
    for name in names:
        big = name.startswith('dep2')
        if ctx.quick:
            dep_case(ctx, name, ctx.rng, 3, 10 if big else None, 1)
        else:
            dep_case(ctx, name, ctx.rng, 8, None, 4)


# ---- K: fix_stereo against the Lean model (Model/StereoFix.lean, driver op `fx`) -----------------------------------------

def _fx_units_now(mol):
    """labels present on `mol`, as model units (kind, a, b, sign); a labelled carrier that is no unit gives kind 9"""
    st, sa, term = mol.stereogenic_tetrahedrons, mol.stereogenic_allenes, mol._stereo_cis_trans_terminals
    out = []
    for n, a in mol.atoms():
        if a.stereo is not None:
            out.append((0 if n in st else 1 if n in sa else 9, n, 0, int(a.stereo)))
    for n, m, b in mol.bonds():
        if b.stereo is not None:
            ta = term.get(n)
            out.append((2, ta[0], ta[1], int(b.stereo)) if ta and term.get(m) == ta else (9, n, m, int(b.stereo)))
    return sorted(out)


def _fx_chiral(mol, labels):
    """the three chiral_* sets of the real code when exactly `labels` are present (fresh copy, fresh caches)"""
    c = mol.copy()
    for _, a in c.atoms():
        a._stereo = None
    for *_x, b in c.bonds():
        b._stereo = None
    c.flush_cache()
    for k, a, b, s in labels:
        if k == 2:
            i, j = c._stereo_cis_trans_centers[a]
            c._bonds[i][j]._stereo = bool(s)
        else:
            c._atoms[a]._stereo = bool(s)
    c.flush_cache()
    return ([(0, n, 0) for n in sorted(c.chiral_tetrahedrons)] + [(1, n, 0) for n in sorted(c.chiral_allenes)] +
            [(2, n, m) for n, m in sorted(c.chiral_cis_trans)])


def fx_case(mol):
    """(request line, real outcome) for one molecule whose labels are to be re-validated"""
    st, sa, term = mol.stereogenic_tetrahedrons, mol.stereogenic_allenes, mol._stereo_cis_trans_terminals
    atoms, bonds, pend_t, pend_a, pend_c = [], [], [], [], []
    for n, a in mol.atoms():
        atoms += [n, tri(a.stereo), int(n in st), int(n in sa)]
        if a.stereo is not None:
            if n in st:
                pend_t.append((0, n, 0, int(a.stereo)))
            elif n in sa:
                pend_a.append((1, n, 0, int(a.stereo)))
    nb = 0
    for n, m, b in mol.bonds():
        tn, tm = term.get(n), term.get(m)
        bonds += [n, m, int(b), tri(b.stereo)] + list(tn or (-1, -1)) + list(tm or (-1, -1))
        nb += 1
        if b.stereo is not None and int(b) == 2 and tn and tm == tn:
            pend_c.append((2, tn[0], tn[1], int(b.stereo)))
    # the oracle table: the label sets a restore loop can ask about, answered by the real chiral_* sets
    pending, restored, table = pend_t + pend_a + pend_c, [], []
    for _ in range(len(pending) + 1):
        if not pending:
            break
        ch = _fx_chiral(mol, restored)
        table.append((list(restored), ch))
        units = set(ch)
        ok = [l for l in pending if l[:3] in units]
        if not ok:
            break
        restored = restored + ok
        pending = [l for l in pending if l[:3] not in units]
    line = ['fx', len(atoms) // 4] + atoms + [nb] + bonds + [len(table)]
    for ls, us in table:
        line += [len(ls)] + [x for l in ls for x in l] + [len(us)] + [x for u in us for x in u]
    m2 = mol.copy()
    for (n, a), (_n, a2) in zip(mol.atoms(), m2.atoms()):
        a2._stereo = a.stereo
    for n, m, b in mol.bonds():
        m2._bonds[n][m]._stereo = b.stereo
    m2.flush_cache()
    try:
        m2.fix_stereo()
        real = 'ok ' + ' '.join(':'.join(map(str, u)) for u in _fx_units_now(m2)) + \
               f" | cache={int('_MoleculeStereo__chiral_centers' in m2.__dict__)}"
    except Exception as e:
        real = f'crash:{type(e).__name__}'
    return ' '.join(map(str, line)), real


FX_EXTRA = ['CC(F)=[C@]=C(C)Cl', 'C[C@H](O)C=[C@]=C[C@@H](C)O', 'F/C=C=C=C/Cl', 'C[C@H](O)/C=C=C=C/[C@@H](C)O', 'C[C@H](F)/C=C/[C@@H](F)C',
            'C[C@H](O)[C@@H](O)[C@H](O)C', 'C[C@H](O)[C@H](O)[C@H](O)C', 'O[C@H]1C[C@@H](C)C1', 'C1CC[C@]2(CC[C@H]2C)C1',
            'C/C=C/C(/C=C/C)=C/C', 'C[C@@H](Cl)C(=C=C(C)F)[C@H](C)Cl']


def stream_fix_model(ctx):
    """K: real `fix_stereo` vs `fixStereo` (labels afterwards, cache left behind) on label-dependent molecules, on molecules
    with labels forced onto arbitrary atoms / bonds, and on molecules whose constitution was edited underneath the labels"""
    from chython import smiles
    from chython.periodictable import Element
    st = Stream(ctx, 'fix_stereo')
    rng = ctx.rng
    mols = []
    for name in dep_names():
        spec = dep_spec(name)
        els = [('c', c) for c in spec.centres] + [('d', d) for d in spec.dbonds] + [('a', c) for c in spec.allenes]
        masks = list(range(1 << len(els)))
        if ctx.quick:
            masks = rng.sample(masks, 3)
        for mask in masks:
            pick = [e for i, e in enumerate(els) if mask >> i & 1]
            sp = flip_subset(spec, {x for t, x in pick if t == 'c'}, {x for t, x in pick if t == 'd'}, {x for t, x in pick if t == 'a'})
            for smi, index, _nb in spellings(sp, rng, 1):
                mols.append((smi, index, sp))
    for spec in tetra_specs() + dbond_specs() + cage_specs()[:3]:
        for smi, index, _nb in spellings(spec, rng, 2):
            mols.append((smi, index, spec))
    for smi in FX_EXTRA:
        mols.append((smi, None, None))
    for _ in range(20 if ctx.quick else 300):
        spec = random_spec(rng)
        for smi, index, _nb in spellings(spec, rng, 1):
            mols.append((smi, index, spec))
    for smi, index, sp in mols:
        try:
            base = smiles(smi)
        except Exception:
            continue
        variants = [('as-read', base)]
        # labels forced onto arbitrary carriers (what a structural change underneath leaves behind)
        f = base.copy()
        for n, a in f.atoms():
            if rng.random() < 0.25:
                a._stereo = rng.random() < 0.5
        for n, m, b in f.bonds():
            if rng.random() < 0.2:
                b._stereo = rng.random() < 0.5
        f.flush_cache()
        variants.append(('forced-labels', f))
        # constitution edited underneath the labels (halogen / chalcogen leaf replaced)
        leaves = [n for n, a in base.atoms() if a.atomic_symbol in ('F', 'Cl', 'O', 'S') and len(base._bonds[n]) == 1]
        if leaves:
            e = base.copy()
            for (n, a), (_n, a2) in zip(base.atoms(), e.atoms()):
                a2._stereo = a.stereo
            for n, m, b in base.bonds():
                e._bonds[n][m]._stereo = b.stereo
            n = rng.choice(leaves)
            old = e._atoms[n]
            new = Element.from_symbol({'F': 'Cl', 'Cl': 'F', 'O': 'S', 'S': 'O'}[old.atomic_symbol])()
            new._implicit_hydrogens = old._implicit_hydrogens
            e._atoms[n] = new
            e.flush_cache()
            e.calc_labels()
            variants.append(('edited', e))
        for tag, mol in variants:
            try:
                line, real = fx_case(mol)
            except Exception as ex:
                ctx.dist(f'fix_stereo-skip:{type(ex).__name__}')
                continue
            ctx.dist('fix_stereo:' + tag)
            st.add(line, real, {'kind': 'fix-model', 'smiles': smi, 'variant': tag})
    _fx_compare(ctx, st, True)


def _fx_compare(ctx, st, with_cache):
    """run the `fx` requests of a Stream; labels compared as sorted sets, cache flag only when the real side reports one"""
    if not st.req or not ctx.build_ok:
        return
    out = core.run_driver('C12', st.req)
    if len(out) != len(st.req):
        ctx.broke('correspondence', st.name, f'driver returned {len(out)} lines for {len(st.req)} requests')
        return
    bad = []
    for q, r, mo, me in zip(st.req, st.real, out, st.meta):
        rounds = mo.rsplit('rounds=', 1)[1] if 'rounds=' in mo else '?'
        ctx.dist(f'{st.name}:rounds:{rounds}')
        mo2 = mo.rsplit(' | rounds=', 1)[0]
        if mo2.startswith('ok'):
            head, cache = mo2[2:].rsplit('|', 1)
            mo2 = 'ok ' + ' '.join(sorted(head.split(), key=lambda t: tuple(map(int, t.split(':')))))
            if with_cache:
                mo2 += ' |' + cache
        if ' '.join(mo2.split()) != ' '.join(r.split()):
            bad.append((q, r, mo, me))
    if bad:
        ctx.cov['disagreements_checked'] += len(bad)
        q, r, mo, me = bad[0]
        ctx.sample({'stream': st.name, 'request': q[:300], 'real': r, 'model': mo, 'DISAGREE': True})
        ctx.broke('correspondence', st.name, f'{len(bad)} disagreements; first: real={r!r} model={mo!r} meta={me!r}')
        _state.setdefault('disagreements', []).extend((st.name, me) for *_x, me in bad[:50])
    else:
        i = len(st.req) // 2
        ctx.sample({'stream': st.name, 'request': st.req[i][:300], 'real': st.real[i], 'model': out[i]})


def stream_reader_rounds(ctx):
    """K: the retry rounds of the SMILES reader (`postprocess_molecule`: calls refused as NotChiral are retried after the stereo
    caches were flushed, until a round makes no progress) are the restore rounds of the model: queue = every unit marked in the
    spelling (known from the spec, not from the parser), oracle = the real chiral_* sets for the labels present so far"""
    from chython import smiles
    st = Stream(ctx, 'reader_rounds')
    rng = ctx.rng
    for name in dep_names():
        spec = dep_spec(name)
        els = [('c', c) for c in spec.centres] + [('d', d) for d in spec.dbonds] + [('a', c) for c in spec.allenes]
        masks = list(range(1 << len(els)))
        if ctx.quick:
            masks = rng.sample(masks, 2)
        for mask in masks:
            pick = [e for i, e in enumerate(els) if mask >> i & 1]
            sp = flip_subset(spec, {x for t, x in pick if t == 'c'}, {x for t, x in pick if t == 'd'}, {x for t, x in pick if t == 'a'})
            for smi, index, _nb in spellings(sp, rng, 1 if ctx.quick else 3):
                try:
                    mol = smiles(smi)
                except Exception:
                    continue
                num = {a: index[a] + 1 for a in index}
                term = mol._stereo_cis_trans_terminals
                now = {u[:3]: u[3] for u in _fx_units_now(mol)}
                # text order of the marks = order of the reader's call list: atoms (tetrahedra, allenes) by token, then bonds
                marked = sorted([(num[c], 0) for c in sp.centres] + [(num[c], 1) for c in sp.allenes])
                atoms, pend = [], []
                for n, k in marked:
                    sgn = now.get((k, n, 0), 1)
                    atoms += [n, sgn, int(k == 0), int(k == 1)]
                    pend.append((k, n, 0, sgn))
                bonds = []
                for (a, b) in sp.dbonds:
                    ta = term.get(num[a])
                    if not ta:
                        continue
                    sgn = now.get((2, ta[0], ta[1]), 1)
                    bonds += [ta[0], ta[1], 2, sgn, ta[0], ta[1], ta[0], ta[1]]
                    pend.append((2, ta[0], ta[1], sgn))
                pending, restored, table = list(pend), [], []
                for _ in range(len(pending) + 1):
                    if not pending:
                        break
                    ch = _fx_chiral(mol, restored)
                    table.append((list(restored), ch))
                    units = set(ch)
                    ok = [l for l in pending if l[:3] in units]
                    if not ok:
                        break
                    restored = restored + ok
                    pending = [l for l in pending if l[:3] not in units]
                line = ['fx', len(atoms) // 4] + atoms + [len(bonds) // 8] + bonds + [len(table)]
                for ls, us in table:
                    line += [len(ls)] + [x for l in ls for x in l] + [len(us)] + [x for u in us for x in u]
                real = 'ok ' + ' '.join(':'.join(map(str, u)) for u in _fx_units_now(mol))
                st.add(' '.join(map(str, line)), real, {'kind': 'reader-rounds', 'smiles': smi})
    _fx_compare(ctx, st, False)


# ---- K: the reference pair and mark `__differentiation` computes, against Model/StereoDiff.lean (driver op `df`) -----------

def stream_diff_model(ctx):
    """K: every call `__differentiation` makes to `_translate_cis_trans_sign` / `_translate_allene_sign` (arguments = the two
    reference substituents it chose, result = the mark) vs `diffMark` fed with the environment tuple, the classes (`morgan`, read
    from the caller's frame at the moment of the call), the hydrogens and the stored label"""
    import sys
    from chython import smiles, MoleculeContainer
    st = Stream(ctx, 'differentiation_ref')
    rng = ctx.rng
    rec = []
    o_ct, o_al = MoleculeContainer._translate_cis_trans_sign, MoleculeContainer._translate_allene_sign

    def note(self, ends, stored, nn, nm, run):
        f = sys._getframe(2)
        inside = f.f_code.co_name.endswith('__differentiation')
        try:
            r = run()
            res = f'ok {nn} {nm} {int(r)}'
        except Exception as e:
            if inside:
                rec.append((ends, None, None, stored, f'err {type(e).__name__}'))
            raise
        if inside:
            morgan = f.f_locals['morgan']
            rec.append((ends, [morgan.get(x) if x is not None else None for x in ends], lst(h_atoms(self)), stored, res))
        return r

    def spy_ct(self, n, m, nn, nm, s=None):
        sc = self.stereogenic_cis_trans
        ends = sc[(n, m)] if (n, m) in sc else sc.get((m, n))
        i, j = self._stereo_cis_trans_centers[n]
        return note(self, ends, self._bonds[i][j].stereo, nn, nm, lambda: o_ct(self, n, m, nn, nm, s))

    def spy_al(self, c, nn, nm, s=None):
        return note(self, self.stereogenic_allenes.get(c), self._atoms[c].stereo, nn, nm, lambda: o_al(self, c, nn, nm, s))

    inputs = []
    for name in dep_names():
        if not any(k in name.split(':')[1:] for k in ('d2', 'd3', 'd3n', 'd4', 'sd3', 'a4', 'sa4')):
            continue
        spec = dep_spec(name)
        els = [('c', c) for c in spec.centres] + [('d', d) for d in spec.dbonds] + [('a', c) for c in spec.allenes]
        masks = list(range(1 << len(els)))
        if ctx.quick:
            masks = rng.sample(masks, 3)
        for mask in masks:
            pick = [e for i, e in enumerate(els) if mask >> i & 1]
            sp = flip_subset(spec, {x for t, x in pick if t == 'c'}, {x for t, x in pick if t == 'd'}, {x for t, x in pick if t == 'a'})
            inputs += [smi for smi, *_ in spellings(sp, rng, 2 if ctx.quick else 6)]
    inputs += FX_EXTRA + ['C/C=C/C(O)/C=C/C', 'C/C=C/C(O)/C=C\\C', 'C/C=C\\C(/C=C/C)=C/C', 'F/C=C/C(/C=C/F)(/C=C\\F)/C=C\\F',
                          'CC(F)=[C@]=C(Cl)C(O)C(Cl)=[C@@]=C(C)F', 'C/C=C/C=C/C=C/C', 'F/C(C)=C/[C@H](O)/C=C(/C)F']
    MoleculeContainer._translate_cis_trans_sign = spy_ct
    MoleculeContainer._translate_allene_sign = spy_al
    try:
        for smi in inputs:
            del rec[:]
            try:
                m = smiles(smi)
                str(m)
                m.fix_stereo()
                str(m)
            except Exception as e:
                ctx.dist(f'differentiation-skip:{type(e).__name__}')
                continue
            for ends, cls, hs, stored, res in rec:
                if ends is None or cls is None:
                    ctx.broke('correspondence', 'differentiation_ref', f'{smi!r}: call inside __differentiation without environment / raised: {res}')
                    continue
                line = ['df'] + [(-1 if x is None else x) for x in ends]
                for x, c in zip(ends, cls):
                    line += [int(c is not None), c if c is not None else 0]
                line += hs + [tri(stored)]
                st.add(' '.join(map(str, line)), res, {'kind': 'differentiation', 'smiles': smi})
    finally:
        MoleculeContainer._translate_cis_trans_sign = o_ct
        MoleculeContainer._translate_allene_sign = o_al
    ctx.dist('differentiation-calls', len(st.req))
    st.run()
