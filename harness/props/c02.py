"""C02 — SMILES write then read is lossless; canonical strings never collide (translation validation + partial proofs).

G  harness/gen/gen_c02.py: `charge_str`, `organic_set`, the B/C/N/P/S constants, the closure-number heap range and the
   `_format_closure` rule are re-extracted from /repo -> Gen/C02Tables.lean (the writer model formats *from this table*).
P  Props/C02.lean: lexical round trip of the writer's token shapes, closure-number discipline of the heap allocator,
   parenthesis balance of the flattening, connection round trip of the flattened tree, injectivity as a corollary of losslessness.
K  exact equality, real chython vs the Lean writer model (driver drv_c02): `format(mol, spec)` text AND `smiles_atoms_order`
   for every style; the writer's token list; the closure-number allocator alone (incl. the empty-heap IndexError).
R  (1) the Lean-side checkers on the intermediate results of every run (spanning tree + closures cover each bond once,
       closure discipline, parentheses, denotation of the token list = the molecule, lexer = tokens);
   (2) reader model of C03 applied to the model's text, judged in Lean under the written order;
   (3) real `smiles(text)` re-read judged in Python under the written order (elements, isotopes, charges, radicals,
       H counts, bond orders, stereo configuration) — no canonicaliser involved;
   (4) injectivity: exhaustively enumerated small decorated graphs and stereoisomers — equal canonical strings only
       for isomorphic structures (own brute-force isomorphism judge).
"""
import itertools
import sys

from .. import molgen, wire
from ..core import run_driver
from ..gen import gen_c02

LEVEL = 'translation_validation'
LEVEL_TEXT = ('The writer (`_smiles`: start choice, BFS distances, DFS with cycle detection, flattening, closure-number heap with '
              'delayed release, atom/bond/closure formatting incl. chirality and cis/trans marks, CXSMILES radical block) is an '
              'executable Lean model compared exactly with the real code on every style; the parts of "write then read gives the '
              'same molecule" that are pure logic are universally quantified theorems about that model: the text lexes back to the '
              'emitted tokens, the reader raises no error on it, its chain bonds are the DFS tree bonds, its ring-closure bonds are '
              'the two ends of each DFS cycle (number reuse never mispairs), parentheses balance, the allocator fails exactly when '
              'more than 99 numbers are needed at once, and injectivity follows from losslessness. Since round 5 the DFS itself is '
              'proved for ALL well-formed molecules (decidable Mol.WF, evaluated on every case): the stack machine visits exactly the '
              'component, every atom is written once in discovery order, every bond is recorded exactly once (tree bond or one '
              'closure pair), no fuel bound of the model is ever reached, and hence the written body lexes and a positional reader '
              '(readL, compared with the real smiles(text) on every sampled case) reads back exactly the atoms and the bond set of the '
              'molecule under the written order; equal token lists force equal elements, isotope labels, charges, bracket H counts '
              'and bond sets; every chain bond read back carries exactly the symbol _format_bond(parent, atom), every ring-closure bond '
              '_format_bond at its two digits (one with asymmetric closures), and the symbols decode to the bond orders. The DFS locals '
              'of the real frame (start, discovery order, tree, closure bonds) are compared with the '
              'model per round. NOT proved for all graphs: everything about stereo configuration (chirality and / \\ marks); '
              'these are certified run by run by Lean-executed checkers and by re-reading the text with the reader model of C03 '
              '(Lean judge incl. stereo) and with the real reader (Python judge under the written atom order, no canonicaliser; '
              'for nested dependent stereo units additionally an own permutation-parity judge).')
LEVEL_NOTE = ('Lean kernel; hand transcription Model/SmilesWriter.lean validated by exact correspondence (not derived from the Python '
              'text); the round-5 theorems assume only the decidable Mol.WF (and, for the lexical step, no aromatic-bonded halogen), both '
              'evaluated on the wire molecule of every case; the positional reader readL is a model of "a SMILES reader numbers atoms in '
              'reading order", tied to the real smiles(text) by correspondence; '
              'atom weights, CPython set iteration orders and random draws are inputs of the model taken from the real run; '
              'reader model of C03 and translation functions of C12 (Model/Stereo.lean) imported; the stereogenic-centre tables are inputs.')
TECHNIQUE = 'Lean 4 executable writer model + DFS-invariant/round-trip/closure/lexer theorems for all well-formed graphs + exact correspondence (text, tokens, DFS locals, positional re-read) + Lean-side structural checkers + re-read judged under the written order'
HAS_DRIVER = True
EXTRA_MODULES = []
FINDINGS_MODULE = 'ChythonModel.Findings.C02'
RULE = ('K case = (style, molecule in one concrete numbering/insertion order[, seeded random draws]); molecules: repo corpus sample, '
        'hand-made set, exhaustive small graphs with random decoration, ring assemblies, each also renumbered with shuffled '
        'insertion order, and closure-heavy hub/cage graphs; styles: "", a, A, m, h, !b, !z, !s, r, !x and combinations. '
        'Non-trivial = at least one bond; distinct by (op, style, wire form, draws). R case = (molecule, style) re-read and judged; '
        'injectivity case = pair of non-isomorphic decorated graphs / stereoisomers with their canonical strings. '
        'D case = (molecule, style) whose real DFS locals are compared; L case = written text read positionally by the model vs the real reader; '
        'N case = molecule with nested dependent stereo units (depth 2-5, built through the labelling API) x style/order, plus its epimer.')
TRUSTED = ['hand transcription Model/SmilesWriter.lean, Model/C02RoundTrip.lean (validated by this correspondence)',
           'reader model of C03 (Model/C03Tokenize, C03Parser, C03Front), validated by the C03 check',
           'gen_c02 translator (module tables read from the imported module, heap initialiser evaluated from the AST, _format_closure fitted by calling it)',
           'the harness-side replication of CPython set iteration orders (same objects, same operations)',
           'Python-side isomorphism judge under the written order (harness/props/c02.py: judge, own_stereo_diffs)',
           'sys.settrace hook reading the locals of the real _smiles frame after its DFS loop (located by its source text)']
ASSUMPTIONS = ['atom weights (atoms_order/_chiral_morgan) are inputs: their numbering-independence is property C01',
               'iteration of a Python set yields every element exactly once (order supplied from the real run)',
               'molecules carry a defined implicit hydrogen count on every atom (valence-valid); others are reported separately, not judged',
               'stored labels (hybridization) are those of calc_labels',
               'the molecule graph is well formed (Mol.WF: symmetric adjacency, no self loops, unique ids) — checked on every wire molecule']

SPECS = ['', 'a', 'A', 'm', 'h', '!b', '!z', '!s', 'r', '!x', 'ah', 'Am', 'r!s', 'rA', 'ram', 'hm!s', 'aA!s', 'rh']
LOSSLESS = lambda spec: '!b' not in spec and '!z' not in spec  # noqa: E731  styles the property lists as lossless


# ------------------------------------------------------------------------------------------------
# running the real writer with its hidden inputs recorded
# ------------------------------------------------------------------------------------------------

def opts_bits(spec):
    return ((1 if 'a' in spec else 0) | (0 if '!s' in spec else 2) | (0 if 'A' in spec else 4) | (8 if 'm' in spec else 0)
            | (16 if 'h' in spec else 0) | (0 if '!b' in spec else 32) | (0 if '!z' in spec else 64)
            | (128 if 'r' in spec else 0) | (0 if '!x' in spec else 256))


class Recorder:
    """pass-through wrapper of Smiles._smiles that remembers the returned order, and a seeded `random`"""

    def __init__(self):
        import chython.algorithms.smiles as S
        self.S = S
        self.orig_smiles = S.Smiles._smiles
        self.orig_random = S.random
        self.order = None
        self.draws = []
        self.rng = None
        self.first = None      # atoms that always draw the smallest values, in this priority (they start their components)
        self.trace_dfs = False  # capture the locals of the real `_smiles` frame after its DFS loop (every round)
        self.dfs = None

    def __enter__(self):
        rec = self

        def _smiles(self_, weights, **kw):
            line = dfs_done_line(rec.orig_smiles) if rec.trace_dfs else None
            if line is None:   # no hook wanted, or the source no longer has the recognisable statement: run untraced
                res = rec.orig_smiles(self_, weights, **kw)
            else:
                code, got, bad = rec.orig_smiles.__code__, [], []

                def local(frame, event, arg):
                    if event == 'line' and frame.f_lineno == line and not bad:
                        try:
                            loc = frame.f_locals
                            got.append((loc['start'], list(loc['visited']), [(k, list(v)) for k, v in loc['edges'].items()],
                                        [(k, list(v)) for k, v in loc['tokens'].items()]))
                        except Exception:  # noqa  locals renamed: the hook is not usable (never disturb the traced call)
                            bad.append(1)
                    return local

                def tracer(frame, event, arg):
                    return local if frame.f_code is code else None

                old = sys.gettrace()
                sys.settrace(tracer)
                try:
                    res = rec.orig_smiles(self_, weights, **kw)
                finally:
                    sys.settrace(old)
                if kw.get('_return_order'):
                    rec.dfs = None if bad else got
            if kw.get('_return_order'):
                rec.order = list(res[1])
            return res

        def fake_random():
            v = rec.rng.getrandbits(48)
            loc = sys._getframe(1).f_locals  # the weight closure `def w(_): return random()`: its only int local is the atom
            atom = next((x for x in loc.values() if isinstance(x, int) and not isinstance(x, bool)), None)
            if atom is not None and rec.first and atom in rec.first:
                v = (v >> 44) + 16 * rec.first.index(atom)
            rec.draws.append((atom, v))
            return v / 2 ** 48

        self.S.Smiles._smiles = _smiles
        self.S.random = fake_random
        return self

    def __exit__(self, *a):
        self.S.Smiles._smiles = self.orig_smiles
        self.S.random = self.orig_random


_DFS_LINE = []


def dfs_done_line(func):
    """line number of the first statement after the DFS loop of `_smiles` (the flattening starts there); found in the source"""
    if not _DFS_LINE:
        import inspect
        try:
            src, first = inspect.getsourcelines(func)
            hits = [first + i for i, l in enumerate(src) if l.strip() == 'stack = [[start, 0, [start]]]']
        except Exception:  # noqa
            hits = []
        _DFS_LINE.append(hits[0] if len(hits) == 1 else None)   # None: hook not available (reported in the distribution)
    return _DFS_LINE[0]


def show_dfs(rounds):
    """start ; discovery order ; tree (children in discovery order, parents sorted) ; closure bonds (sorted pairs).  Cycle ids and
    the insertion orders of the `edges`/`tokens` dicts are internal (nothing observable depends on them) and not compared."""
    return ' / '.join('%d;%s;%s;%s' % (st, ','.join(map(str, vis)),
                                        ' '.join('%d>%s' % (p, ','.join(map(str, cs))) for p, cs in sorted(edges)),
                                        ' '.join('%d-%d' % ab for ab in sorted({(a, b) for a, l in tokens for b, _ in l if a < b})))
                      for st, vis, edges, tokens in rounds)


def real_positions(text):
    """what the real reader makes of the text, positionally: number of atoms and the bonds as sorted pairs of atom indices in
    reading order (the observable the positional reader model `readL` of the round-5 text theorem is compared with)"""
    from chython import smiles
    try:
        r = smiles(text)
        idx = {n: i for i, n in enumerate(r._atoms)}
        pairs = sorted({(min(idx[x], idx[y]), max(idx[x], idx[y])) for x, y, _ in r.bonds()})
    except Exception:  # noqa  (the judge reports reader failures)
        return None
    return 'ok %d;%s' % (len(idx), ','.join('%d-%d' % p for p in pairs))


def components_in_order(mol, order):
    comp_of = {}
    for i, c in enumerate(mol.connected_components):
        for n in c:
            comp_of[n] = i
    out, cur = [], None
    for n in order:
        if comp_of[n] != cur:
            out.append([])
            cur = comp_of[n]
        out[-1].append(n)
    return out


def set_orders(mol, order):
    """iteration order of `atoms_set` at the start of every round, replicated with the same operations"""
    s = set(mol._atoms)
    res = []
    for comp in components_in_order(mol, order):
        res.append(list(s))
        s.difference_update(dict.fromkeys(comp))
    return res


def front_orders(mol):
    res = []
    for child, ms in mol._bonds.items():
        if len(ms) >= 3:
            for parent in ms:
                res.append((child, parent, list(ms.keys() - {parent})))
    return res


def real_write(mol, spec, draw_seed=0, first=None, trace=None):
    """-> (canonical outcome line, hidden inputs dict) ; the molecule's caches are flushed first (str() is cached);
    `trace`: a list that receives the DFS result of every round (locals of the real frame)"""
    import random as _random
    mol.flush_cache()
    with Recorder() as rec:
        rec.trace_dfs = trace is not None
        rec.rng = _random.Random(draw_seed)
        rec.first = [first] if isinstance(first, int) else first
        try:
            text = format(mol, spec)
            order = rec.order if rec.order is not None else []
            line = 'ok ' + ','.join(map(str, order)) + ';' + text
        except Exception as e:  # noqa
            text, order = None, None
            line = 'err crash:' + type(e).__name__
        draws = rec.draws
        if trace is not None and rec.dfs is not None:
            trace.extend(rec.dfs)
    return line, text, order, draws


def request(op, mol, spec, order, draws):
    xs = [opts_bits(spec)] + wire.mol_to_ints(mol)
    if 'r' in spec:
        ws = []
    else:
        try:
            w = mol._smiles_order('!s' not in spec)
            ws = [(n, w(n)) for n in mol._atoms]
        except Exception:  # noqa
            ws = []
    xs.append(len(ws))
    for n, v in ws:
        xs += [n, v]
    if order and 'r' not in spec:
        so = set_orders(mol, order)
    else:
        so = [list(set(mol._atoms))] if 'r' not in spec else []
    xs.append(len(so))
    for l in so:
        xs += [len(l)] + l
    fr = front_orders(mol) if 'r' not in spec else []
    xs.append(len(fr))
    for c, p, l in fr:
        xs += [c, p, len(l)] + l
    xs.append(len(draws))
    for a, v in draws:
        xs += [a if a is not None else 0, v]
    # stereo tables the writer reads (derived structure tables of MoleculeStereo; inputs of the model)
    if '!s' not in spec and has_stereo(mol):
        try:
            te = [[n] + list(env) for n, env in mol.stereogenic_tetrahedrons.items()]
            cu = [[e[0], e[1], 0 if e[2] is None else e[2] + 1, 0 if e[3] is None else e[3] + 1] + list(path)
                  for path, e in mol.stereogenic_cumulenes.items()]
        except Exception:  # noqa
            te, cu = [], []
    else:
        te, cu = [], []
    xs.append(len(te))
    for l in te:
        xs += [len(l)] + l
    xs.append(len(cu))
    for l in cu:
        xs += [len(l)] + l
    return op + ' ' + ' '.join(map(str, xs))


# ------------------------------------------------------------------------------------------------
# judge: re-read molecule vs original under the written order (no canonicaliser)
# ------------------------------------------------------------------------------------------------

def judge(mol, text, order, spec=''):
    """list of differences between `smiles(text)` and `mol` with atom i of the re-read <-> order[i]"""
    from chython import smiles
    try:
        r = smiles(text)
    except Exception as e:  # noqa
        return [f'reader-raises:{type(e).__name__}']
    ratoms = list(r._atoms)
    if len(ratoms) != len(order) or len(order) != len(mol._atoms):
        return ['atom-count']
    back = dict(zip(ratoms, order))
    diffs = []
    lossy = not LOSSLESS(spec)
    kek = None
    for rn, n in back.items():
        a, b = mol._atoms[n], r._atoms[rn]
        if a.atomic_number != b.atomic_number:
            diffs.append(f'element@{n}')
        if (a.isotope or None) != (b.isotope or None):
            diffs.append(f'isotope@{n}')
        if lossy:
            continue
        if a.charge != b.charge:
            diffs.append(f'charge@{n}')
        if '!x' not in spec and a.is_radical != b.is_radical:
            diffs.append(f'radical@{n}')
        if a.implicit_hydrogens != b.implicit_hydrogens:
            if b.implicit_hydrogens is None and b.hybridization == 4:
                # chython leaves the H count of aromatic hetero atoms read from lower-case symbols undefined until kekule()
                # (DESIGN §7 #18): compare after kekule() on copies of both sides (H counts do not depend on the Kekule form)
                if kek is None:
                    try:
                        k1 = mol.copy()
                        k1.kekule()
                    except Exception:  # noqa  the original itself has no Kekule form: its aromatic H counts cannot be judged
                        kek = 'skip'
                    else:
                        try:
                            k2 = r.copy()
                            k2.kekule()
                            kek = (k1, k2)
                        except Exception:  # noqa
                            kek = False
                if kek == 'skip':
                    continue
                if kek and kek[0]._atoms[n].implicit_hydrogens == kek[1]._atoms[rn].implicit_hydrogens:
                    continue
                if kek is False:
                    diffs.append(f'reread-not-kekulizable@{n}')
                    continue
            diffs.append(f'hcount@{n}:{a.implicit_hydrogens}->{b.implicit_hydrogens}')
    rb = {frozenset((back[x], back[y])): int(bd) for x, y, bd in r.bonds()}
    ob = {frozenset((x, y)): int(bd) for x, y, bd in mol.bonds()}
    if set(rb) != set(ob):
        diffs.append('connectivity')
    elif '!b' not in spec:
        for k in ob:
            if ob[k] != rb[k]:
                diffs.append('bond@' + '-'.join(map(str, sorted(k))) + f':{ob[k]}->{rb[k]}')
    if not lossy and '!s' not in spec and not diffs:
        diffs += stereo_diffs(mol, r, back)
    return diffs


def stereo_diffs(mol, r, back):
    """configuration compared through the library-independent definition: the re-read molecule is renumbered to the
    original numbers (plain relabelling of dict keys, no stereo translation), then every stereo label is translated to the
    SAME reference neighbour order on both sides with the C12-verified translators."""
    diffs = []
    fwd = {v: k for k, v in back.items()}
    # tetrahedral
    for n, a in mol._atoms.items():
        b = r._atoms[fwd[n]]
        sa, sb = a.stereo, b.stereo
        in_t = n in mol.stereogenic_tetrahedrons
        in_al = n in mol.stereogenic_allenes
        if (sa is None) != (sb is None):
            diffs.append(f'stereo-presence@{n}:{sa}->{sb}')
            continue
        if sa is None:
            continue
        if in_t:
            ref = tuple(sorted(mol._bonds[n]))
            s1 = mol._translate_tetrahedron_sign(n, ref)
            s2 = r._translate_tetrahedron_sign(fwd[n], tuple(fwd[x] for x in ref))
            if s1 != s2:
                diffs.append(f'tetrahedron@{n}')
        elif in_al:
            t1, t2 = mol._stereo_allenes_terminals[n]
            env = mol.stereogenic_allenes[n]
            n1 = next(x for x in sorted(mol._bonds[t1]) if x in env)
            n2 = next(x for x in sorted(mol._bonds[t2]) if x in env)
            s1 = mol._translate_allene_sign(n, n1, n2)
            s2 = r._translate_allene_sign(fwd[n], fwd[n1], fwd[n2])
            if s1 != s2:
                diffs.append(f'allene@{n}')
    for x, y, bd in mol.bonds():
        rbd = r._bonds[fwd[x]][fwd[y]]
        sa, sb = bd.stereo, rbd.stereo
        if (sa is None) != (sb is None):
            diffs.append(f'ct-presence@{x}-{y}:{sa}->{sb}')
            continue
        if sa is None:
            continue
        # terminals of the cumulene chain this bond belongs to
        try:
            n_, m_ = mol._stereo_cis_trans_terminals[x]
        except KeyError:
            diffs.append(f'ct-unregistered@{x}-{y}')
            continue
        env = mol.stereogenic_cis_trans[(n_, m_)]
        nn = next(v for v in sorted(mol._bonds[n_]) if v in env)
        nm = next(v for v in sorted(mol._bonds[m_]) if v in env)
        s1 = mol._translate_cis_trans_sign(n_, m_, nn, nm)
        try:
            s2 = r._translate_cis_trans_sign(fwd[n_], fwd[m_], fwd[nn], fwd[nm])
        except Exception as e:  # noqa
            diffs.append(f'ct-translate@{x}-{y}:{type(e).__name__}')
            continue
        if s1 != s2:
            diffs.append(f'cis-trans@{x}-{y}')
    return diffs


def judgeable(mol):
    return all(a.implicit_hydrogens is not None for a in mol._atoms.values())


# ------------------------------------------------------------------------------------------------
# generators
# ------------------------------------------------------------------------------------------------

def hub_graph(n_ring, hub_z=26):
    """a ring of n atoms all bonded to one hub atom: n-1 .. n simultaneously open closures whatever the traversal"""
    xs = [n_ring + 1]
    hub = n_ring + 1
    for i in range(1, n_ring + 1):
        nb = [(i % n_ring) + 1, ((i - 2) % n_ring) + 1, hub]
        nb = list(dict.fromkeys(nb))
        xs += [i, 6, 0, 0, 0, 4 - len(nb), -1, len(nb)]
        for k in nb:
            xs += [k, 1, -1]
    xs += [hub, hub_z, 0, 0, 0, -1, -1, n_ring]
    for i in range(1, n_ring + 1):
        xs += [i, 1, -1]
    return xs


def build_from_ints(xs):
    mol, _ = wire.ints_to_mol(xs, calc=False)
    for a in mol._atoms.values():  # labels the writer reads, without ring perception (expensive on cages)
        a._hybridization = 1
        a._in_ring = True
        a._ring_sizes = set()
        a._neighbors = 0
        a._heteroatoms = 0
        a._explicit_hydrogens = 0
    for n, ms in mol._bonds.items():
        hyb = 1
        for m, b in ms.items():
            b._in_ring = True
            if b == 4:
                hyb = 4
            elif hyb != 4:
                if b == 3:
                    hyb = 3
                elif b == 2:
                    hyb = 2 if hyb == 1 else 3 if hyb == 2 else hyb
        mol._atoms[n]._hybridization = hyb
        mol._atoms[n]._neighbors = len(ms)
    return mol


def strip_stereo(mol):
    c = mol.copy()
    for a in c._atoms.values():
        a._stereo = None
    for _, _, b in c.bonds():
        b._stereo = None
    c.flush_cache()
    return c


def has_stereo(mol):
    return any(a.stereo is not None for a in mol._atoms.values()) or any(b.stereo is not None for _, _, b in mol.bonds())


STEREO_EXTRA = [
    'F[C@](Cl)(Br)I', 'C[C@@](N)(O)/C=C/F', 'C[C@](F)(Cl)CC', 'F/C=C/C=C/C', 'F/C=C\\C=C/Cl', 'C1CCC/C=C\\CC1', 'C/C=C1/CCCC(F)C1',
    'F/C=C=C=C/Cl', 'CC=[C@]=CC', 'C[C@H](F)/C=C/[C@@H](Cl)Br', 'C/C(F)=C(/Cl)Br', 'F/C=C1\\CC[C@H](C)C1', 'C/C=C/C=C/C=C/C',
    'F[C@](Cl)(Br)I.C/C=C\\F', '[2H][C@](F)(Cl)Br', 'C[C@]12CC[C@H](O)CC1CC2', 'C[C@@]1(F)CC[C@](C)(Cl)CC1', 'O[C@H]1C[C@@H](O)C1',
    'C/C1=C/C=C/CCCCCC1', 'C/C1=C\\C=C\\CCCCCC1', 'C1=C/C=C/CCCCCC/1', 'O=C1N/C=C/C=C(C)/CCCC1', 'C.[C@H](F)(Cl)Br', 'CC.N[C@@H](C)C(=O)O', '[Na+].[O-][C@H](F)Cl', 'O.F/C=C/Cl.[C@H](N)(O)C', 'C[N@+](CC)(CCC)CCCC', 'C[Si@](F)(Cl)Br', 'C(/F)=C/[C@](C)(N)O', 'C1C[C@]2(CCCO2)OC1', 'N[C@](C)(F)C(=O)O', 'C/C=C(/C)\\C=C\\C',
    'CC(C)=[C@]=C(C)F', 'F/C(Cl)=C(/Br)I',
]


RADICAL_EXTRA = ['c1cccc[c]1 |^1:5|', '[c]1ccccc1C |^1:0|', 'c1cc[n]c1 |^1:3|', 'C[N](C)[O] |^1:3|', '[O]O |^1:0|',
                 '[CH2]c1ccccc1 |^1:0|', 'C[C](C)C |^1:1|', '[NH2] |^1:0|', 'CC(=O)[O] |^1:3|', 'c1cccc[c]1.[CH3] |^1:5,6|',
                 '[c]1cc[c]cc1 |^1:0,3|', 'Cc1cc[c]cc1.O |^1:4|']


# radicals built through the API (not through the CXSMILES reader): (SMILES, atom number, H count of the radical atom)
RADICAL_API = [('c1ccccc1', 1, 0), ('Cc1ccccc1', 4, 0), ('c1cc[nH]c1', 4, 0), ('CC', 1, 2), ('CO', 2, 0), ('c1ccncc1', 2, 0),
               ('c1ccc2ccccc2c1', 1, 0), ('CC(C)C', 2, 0), ('c1ccccc1.CC', 3, 0),
               # radicals the reader cannot re-infer from the H count: only the CXSMILES block carries them
               ('[Li]', 1, 0), ('[H]', 1, 0), ('[Na]', 1, 0), ('[Cu]', 1, 0), ('C[SiH](C)C', 2, 0), ('[SiH4]', 1, 3),
               ('C[SH](=O)=O', 2, 0), ('O=[NH]=O', 2, 0), ('CNC', 2, 0), ('C1=CC=CC1', 5, 1), ('CSC', 2, 0), ('C[Mg]C', 2, 0),
               ('c1ccsc1', 2, 0), ('[Li].c1ccccc1', 1, 0)]


def radical_api():
    out = []
    for smi, n, h in RADICAL_API:
        m = molgen.parse(smi)
        if m is None:
            continue
        a = m._atoms[n]
        a._is_radical = True
        a._implicit_hydrogens = h
        try:
            if not m.check_implicit(n, h):   # not a valence-valid radical: H count undefined, judged on graph + radical flag
                a._implicit_hydrogens = None
        except Exception:  # noqa
            a._implicit_hydrogens = None
        m.flush_cache()
        out.append((f'radical-api:{smi}@{n}', m))
    return out


# allenes whose terminal is a ring atom (the terminal opens a ring-closure digit when the traversal enters the ring through
# the allene). Both labels, set through add_atom_stereo on a stereo-free skeleton: the SMILES stereo reader is not its own oracle.
RING_ALLENES = ['FC1CCC(=C=C2CCC(Cl)CC2)CC1', 'CC=C=C1CCC(C)CC1', 'CC(F)=C=C1CCC(C)CC1', 'CC=C=C1CCCC(C)C1', 'C1CCCC=C=CCC1',
                'C1CCCCC=C=CCCC1', 'CC1CCC(=C=C(C)Cl)CC1', 'CC=C=C1CCOC1', 'ClC=C=C1CCC1C', 'CC=C=C1CCCCC1C', 'CC=C=C1CC(C)C1',
                'CC=C=C(C)F', 'FC(Cl)=C=C(C)CC']


def allene_api():
    out = []
    for smi in RING_ALLENES:
        m = molgen.parse(smi)
        if m is None:
            continue
        for c, env in m.stereogenic_allenes.items():
            for mark in (True, False):
                x = m.copy()
                try:
                    x.add_atom_stereo(c, (env[0], env[1]), mark)
                except Exception:  # noqa  not chiral for the library: nothing to write
                    continue
                out.append((f'allene-api:{smi}@{c}{"+" if mark else "-"}', x))
    return out


# every number the text can contain, in every width the reader's grammar has to cope with: isotopes of 1-3 digits, charges
# up to +-4, H counts up to 4, atom classes of 1-4 digits (style m on renumbered copies), closure numbers 1..99 (hub graphs),
# CXSMILES atom positions of 1-3 digits (radicals late in long molecules, several per molecule)
WIDE_NUMBERS = ['[238U]', '[235U+4]', 'C[125I]', 'C[131I]', '[Fe+3]', '[Ti+4]', '[O-2]', '[N-3]', '[Zr+4].[Cl-].[Cl-].[Cl-].[Cl-]',
                '[99Tc]', '[Al+3]', '[P-3]', '[Pt+4]', '[Sn+4]', '[C-4]', '[Ce+4]', '[210Po]', '[18OH2]', '[Mn+2]', '[Cr+3]', '[S-2]',
                '[3H]C([2H])([2H])[13CH2][15NH2]', '[NH4+].[BH4-]', '[SiH4]', '[PH4+]', 'C[14CH2][127I]', '[2H]O[3H]']


def late_radicals(rng, quick):
    """radical molecules whose radical atoms are written at positions of 1, 2 and 3 digits: H abstracted (through the API)
    from 1-3 atoms of long chains and of corpus molecules; kept only when the radical is valence-valid"""
    out = []
    base = [('chain12', 'C' * 12), ('chain30', 'C' * 30), ('chain120', 'C' * 120), ('octylbenzene', 'CCCCCCCCc1ccccc1'),
            ('dodecanol', 'OCCCCCCCCCCCC'), ('tempo-like', 'CC1(C)CCCC(C)(C)N1O'), ('PEG', 'OCCOCCOCCOCCOCCOCCO')]
    mols = [(nm, molgen.parse(smi)) for nm, smi in base]
    mols += [(nm, m) for nm, m in molgen.corpus(rng, 12 if quick else 150) if len(m) >= 14]
    for nm, m in mols:
        if m is None:
            continue
        # not from a stereo centre or an end of a labelled double bond: that would leave a label on a non-stereogenic atom
        cand = [n for n, a in m._atoms.items() if a.implicit_hydrogens and a.atomic_number in (6, 7, 8) and a.stereo is None
                and not any(b.stereo is not None or int(b) == 2 for b in m._bonds[n].values())]
        if not cand:
            continue
        for k in (1, 2, 3):
            c = m.copy()
            picked = [cand[-1]] if k == 1 else rng.sample(cand, min(k, len(cand)))
            ok = True
            for n in picked:
                a = c._atoms[n]
                h = a.implicit_hydrogens - 1
                a._is_radical = True
                try:
                    ok = ok and bool(c.check_implicit(n, h))
                except Exception:  # noqa
                    ok = False
                a._implicit_hydrogens = h
            if ok:
                c.flush_cache()
                out.append((f'late-radical:{nm}x{k}', c))
    return out


def wide_numbers():
    out = []
    for smi in WIDE_NUMBERS:
        m = molgen.parse(smi)
        if m is not None:
            out.append(('wide:' + smi, m))
    return out


def benzo_assembly(rng):
    """a 4-7 membered base ring with 2-3 benzene rings fused on pairwise non-adjacent bonds (biphenylene / fluorene /
    dibenzo-cycloheptane type), optional exocyclic =O / heteroatom on a free base atom: after thiele() the base ring keeps
    SINGLE ring bonds between aromatic atoms — the only context where `-` must be written inside a ring"""
    size = rng.choice([4, 5, 5, 6, 7])
    base = list(range(1, size + 1))
    edges = [(base[i], base[(i + 1) % size]) for i in range(size)]
    orders = {e: 1 for e in edges}
    nxt = size + 1
    free = list(range(size))          # indices of base bonds still available
    used_atoms = set()
    for _ in range(rng.choice([2, 2, 3])):
        cand = [i for i in free if base[i] not in used_atoms and base[(i + 1) % size] not in used_atoms]
        if not cand:
            break
        i = rng.choice(cand)
        a, b = base[i], base[(i + 1) % size]
        used_atoms |= {a, b}
        free.remove(i)
        x = [nxt, nxt + 1, nxt + 2, nxt + 3]
        nxt += 4
        orders[(a, b) if (a, b) in orders else (b, a)] = 2
        ring = [(b, x[0], 1), (x[0], x[1], 2), (x[1], x[2], 1), (x[2], x[3], 2), (x[3], a, 1)]
        for p, q, o in ring:
            edges.append((p, q))
            orders[(p, q)] = o
    elements = {}
    rest = [v for v in base if v not in used_atoms]
    if rest and rng.random() < 0.6:
        v = rng.choice(rest)
        kind = rng.choice(['keto', 'N', 'O', 'gem'])
        if kind == 'keto':
            edges.append((v, nxt)); orders[(v, nxt)] = 2; elements[nxt] = 'O'; nxt += 1
        elif kind in ('N', 'O'):
            elements[v] = kind
        else:
            edges += [(v, nxt), (v, nxt + 1)]; orders[(v, nxt)] = 1; orders[(v, nxt + 1)] = 1; nxt += 2
    m = molgen.from_edges(edges, elements, orders, None, nxt - 1)
    m.thiele()
    return m


def stereo_polycycle(rng):
    """fused / bridged / spiro assemblies of three or more rings with a few substituents, every chiral tetrahedral centre
    labelled at random through add_atom_stereo (not through the SMILES reader): ring-fusion centres carry two closure
    digits, and with three rings closure numbers are recycled"""
    # ortho-/peri-fused and bridged assembly: every new ring shares a bond (or a two-bond path) with the rings so far
    size = rng.choice([5, 6, 6])
    edges = [(i, i % size + 1) for i in range(1, size + 1)]
    deg = {v: 2 for v in range(1, size + 1)}
    nxt = size + 1
    for _ in range(rng.randint(2, 4)):
        if rng.random() < 0.8:      # fuse on a bond
            cand = [(a, b) for a, b in edges if deg[a] <= 3 and deg[b] <= 3]
            if not cand:
                break
            a, b = rng.choice(cand)
        else:                      # bridge two atoms two bonds apart
            nb = {}
            for x, y in edges:
                nb.setdefault(x, []).append(y)
                nb.setdefault(y, []).append(x)
            cand = [(x, z) for y in nb for x in nb[y] for z in nb[y] if x < z and deg[x] <= 3 and deg[z] <= 3
                    and z not in nb[x]]
            if not cand:
                continue
            a, b = rng.choice(cand)
        k = rng.choice([2, 3, 3, 4, 4])
        path = [a] + list(range(nxt, nxt + k)) + [b]
        nxt += k
        for x, y in zip(path, path[1:]):
            edges.append((x, y))
            deg[x] = deg.get(x, 0) + 1
            deg[y] = deg.get(y, 0) + 1
    verts = sorted(deg)
    elements = {}
    for _ in range(rng.randint(1, 4)):
        host = rng.choice([v for v in verts if deg[v] < 4])
        edges.append((host, nxt))
        deg[host] += 1
        elements[nxt] = rng.choice(['O', 'N', 'F', 'C', 'C', 'Cl'])
        nxt += 1
    for v in rng.sample(verts, min(2, len(verts))):
        if deg[v] <= 2 and rng.random() < 0.4:
            elements[v] = rng.choice(['O', 'N'])
    m = molgen.from_edges(edges, elements, None, None, nxt - 1)
    for _ in range(3):     # labelling one centre can make further ones chiral
        todo = [n for n in m.chiral_tetrahedrons if m._atoms[n].stereo is None]
        if not todo:
            break
        for n in todo:
            try:
                m.add_atom_stereo(n, m.stereogenic_tetrahedrons[n], rng.random() < 0.5)
            except Exception:  # noqa
                continue
    return m if has_stereo(m) else None


# natural-product type representatives of the same classes (three or more fused rings with labelled fusion centres; single
# ring bonds between aromatic atoms)
POLYCYCLES = ['C[C@]12CC[C@H]3[C@@H](CCc4cc(O)ccc34)[C@@H]1CC[C@@H]2O', 'C[C@]12CC[C@H]3[C@@H](CCC4=CC(=O)CC[C@]34C)[C@@H]1CC[C@@H]2O',
              'CN1CC[C@]23c4c5ccc(O)c4O[C@H]2[C@@H](O)C=C[C@H]3[C@H]1C5', 'CC1(C)[C@@H]2CC[C@@]1(C)C(=O)C2', 'O[C@]12CC3CC(CC(C3)C1)C2',
              'O=C1c2ccccc2-c2ccccc12', 'c1ccc2c(c1)Cc1ccccc1-2', 'c1ccc2c(c1)-c1ccccc1-2', 'c1ccc2c(c1)-c1cccc3cccc-2c13',
              'CC1(C)c2ccccc2-c2ccccc12', 'c1ccc2c(c1)CCc1ccccc1-2', 'O=C1c2ccccc2C(=O)c2ccccc12', 'c1ccc2c(c1)[nH]c1ccccc12']


def polycycles(rng, quick):
    out = []
    for smi in POLYCYCLES:
        m = molgen.parse(smi)
        if m is not None:
            out.append(('polycycle:' + smi, m))
    for i in range(10 if quick else 120):
        try:
            out.append((f'benzo-assembly[{i}]', benzo_assembly(rng)))
        except Exception:  # noqa
            continue
    for i in range(14 if quick else 200):
        try:
            m = stereo_polycycle(rng)
        except Exception:  # noqa
            m = None
        if m is not None:
            out.append((f'stereo-polycycle[{i}]', m))
    return out


def h_allowed(mol, n):
    """every implicit-hydrogen count the valence rules allow for atom n in its bond environment (the default AND the
    alternatives), computed here from `atom.valence_rules` so that the generator does not depend on check_implicit"""
    from collections import defaultdict
    atom = mol._atoms[n]
    if atom.atomic_number == 1:
        return {0}
    total, env = 0, defaultdict(int)
    for k, b in mol._bonds[n].items():
        if int(b) == 4:
            return set()
        if int(b) != 8:
            total += int(b)
            env[(int(b), mol._atoms[k].atomic_number)] += 1
    try:
        rules = atom.valence_rules(total)
    except Exception:  # noqa
        return set()
    return {h for st, d, h in rules if st.issubset(env) and all(env[k] >= c for k, c in d.items())}


GRID_CENTRES = [5, 6, 7, 8, 9, 13, 14, 15, 16, 17, 33, 34, 35, 53, 26, 28]       # B C N O F Al Si P S Cl As Se Br I Fe Ni
GRID_ENVS = [[], [(1, 6)], [(2, 8)], [(3, 7)], [(1, 6), (1, 6)], [(2, 8), (1, 8)], [(2, 8), (2, 8)], [(1, 6), (1, 6), (1, 6)],
             [(2, 8), (1, 8), (1, 8)], [(2, 8), (1, 6), (1, 6)], [(1, 9), (1, 9), (1, 9), (1, 9)], [(8, 26)], [(8, 26), (8, 26)],
             [(1, 6), (8, 26)], [(2, 8), (8, 28)], [(1, 17), (1, 17)]]


def atom_grid(rng, quick):
    """the decision table of `_format_atom` x the hydrogen reconciliation of the reader, systematically: centre element x
    bond environment (none / single / double / triple / several / only coordination bonds `~` / mixed) x charge x EVERY
    hydrogen count the valence rules allow (default and alternatives). Built from ints (no SMILES reader involved)."""
    out = []
    for z in GRID_CENTRES:
        for env in GRID_ENVS:
            for ch in (0, 1, -1):
                if quick and ch and rng.random() < 0.5:
                    continue
                # atom 1 = centre, neighbours 2.. ; H of neighbours computed afterwards
                xs = [1 + len(env), 1, z, 0, ch, 0, 0, -1, len(env)]
                for i, (o, _) in enumerate(env):
                    xs += [2 + i, o, -1]
                for i, (o, nz) in enumerate(env):
                    xs += [2 + i, nz, 0, 0, 0, -1, -1, 1, 1, o, -1]
                try:
                    m, _ = wire.ints_to_mol(xs, calc=True)
                    for k in range(2, 2 + len(env)):
                        m.calc_implicit(k)
                    hs = h_allowed(m, 1)
                except Exception:  # noqa
                    continue
                for h in sorted(hs):
                    c = m.copy()
                    c._atoms[1]._implicit_hydrogens = h
                    c.flush_cache()
                    if judgeable(c):
                        out.append((f'grid:z{z}/{env}/q{ch}/H{h}', c))
    return out


def stereo_extra():
    out = []
    for s in STEREO_EXTRA:
        m = molgen.parse(s)
        if m is not None:
            out.append(('stereo:' + s, m))
    for s in RADICAL_EXTRA:  # radicals that the reader cannot guess from the H count (aromatic) and ones it can
        m = molgen.parse(s)
        if m is not None:
            out.append(('radical:' + s, m))
    return out


# ------------------------------------------------------------------------------------------------
# nested dependent stereo units (labels whose stereogenicity depends on other labels, to any depth), built through the API
# ------------------------------------------------------------------------------------------------
# level 0 = arms labelled in the skeleton text (independent centres / double bonds); a unit of level k >= 1 is a centre
# CH(X)(X') or a double bond C(C)=C(X)(X') whose two substituents are the same constitution and differ only in labels of
# level k-1, so the unit is stereogenic only once those labels are stored (pseudo-asymmetric to depth k).  The top unit
# F-CH(X)(X') has level `depth`.  All labels above level 0 are set with add_atom_stereo / add_cis_trans_stereo (which flush
# the stereo caches after every label): the SMILES reader is not its own oracle here, it only reads the level-0 skeleton.

NEST_ARM = {'T': ('[C@H](F)Cl', '[C@@H](F)Cl'), 'D': ('/C=C/C', '/C=C\\C')}


def nest_build(level, kinds):
    """-> (skeleton text attached through its first atom, atom count, unit tree or None): positions are offsets from the first atom"""
    if level == 0:
        return NEST_ARM[kinds[0]], 3, None
    sub, n, tree = nest_build(level - 1, kinds)
    a, b = sub if level == 1 else (sub, sub)
    if kinds[level] == 'T':
        text, first = 'C(' + a + ')' + b, 1
    else:
        text, first = 'C(C)=C(' + a + ')' + b, 3

    def shift(t, d):
        return None if t is None else {'level': t['level'], 'kind': t['kind'], 'pos': t['pos'] + d, 'kids': [shift(k, d) for k in t['kids']]}

    node = {'level': level, 'kind': kinds[level], 'pos': 0, 'kids': [shift(tree, first), shift(tree, first + n)]}
    return text, first + 2 * n, node


def nest_chiral(mol, node):
    if node['kind'] == 'T':
        return node['pos'] in mol.chiral_tetrahedrons
    return any(set(k) == {node['pos'], node['pos'] + 2} for k in mol.chiral_cis_trans)


def nest_label(mol, node, sign):
    n = node['pos']
    if node['kind'] == 'T':
        mol.add_atom_stereo(n, mol.stereogenic_tetrahedrons[n], sign)
    else:
        key = next(k for k in mol.stereogenic_cis_trans if set(k) == {n, n + 2})
        env = mol.stereogenic_cis_trans[key]
        mol.add_cis_trans_stereo(key[0], key[1], env[0], env[1], sign)


def nest_fill(rng, mol, node, parent, plan, mirror):
    """label the subtree of `node` bottom-up; `plan`: signs to reuse (mirror image of the sibling) or None; if `parent` is
    given the top label is chosen so that the parent becomes stereogenic. Returns (molecule, signs used) or None"""
    used = []
    for i, kid in enumerate(node['kids']):
        if kid is None:
            continue
        sub_plan = None
        if i == 1 and mirror and used:
            sub_plan = used[0]
        elif plan is not None:
            sub_plan = plan[1][i] if i < len(plan[1]) else None
        r = nest_fill(rng, mol, kid, node if i == 1 else None, sub_plan, mirror)
        if r is None:
            return None
        mol, u = r
        used.append(u)
    first = plan[0] if plan is not None else rng.random() < 0.5
    for sign in (first, not first):
        c = mol.copy()
        try:
            nest_label(c, node, sign)
        except Exception:  # noqa  NotChiral: the two substituents are (still) equal
            return None
        if parent is None or nest_chiral(c, parent):
            return c, (sign, used)
    return None


def nested_stereo(rng, quick):
    """[(name, molecule, epimer of the top centre)]"""
    from chython import smiles
    out = []
    plans = [(2, 'TTT'), (2, 'DDT'), (2, 'TDT'), (3, rng.choice(['TTTT', 'DTDT', 'TDTT']))] if quick else \
        [(2, 'TTT'), (2, 'DDT'), (2, 'TDT'), (2, 'DTT'), (3, 'TTTT'), (3, 'DTDT'), (3, 'TDTT'), (3, 'DDTT'), (4, 'TTTTT'), (4, 'DTDTT'), (5, 'TTDTTT')]
    if quick and rng.random() < 0.5:
        plans.append((4, rng.choice(['TTTTT', 'DTTDT', 'TDTTT'])))
    for depth, kinds in plans:
        text, n, t0 = nest_build(depth, kinds)

        def shift(t, d):
            return None if t is None else {'level': t['level'], 'kind': t['kind'], 'pos': t['pos'] + d, 'kids': [shift(k, d) for k in t['kids']]}
        tree = shift(t0, 2)   # atom 1 is F, the top centre is atom 2
        for mirror in ((True, False) if (not quick or kinds == 'TTT') else (True,)):
            try:
                m = smiles('F' + text)
            except Exception:  # noqa
                continue
            if m is None or len(m) != n + 1:
                continue
            # everything below the top, then both labels of the top centre
            used = []
            ok = True
            for i, kid in enumerate(tree['kids']):
                r = nest_fill(rng, m, kid, tree if i == 1 else None, used[0] if (i == 1 and mirror and used) else None, mirror)
                if r is None:
                    ok = False
                    break
                m, u = r
                used.append(u)
            if not ok:
                continue
            pair = []
            for sign in (True, False):
                c = m.copy()
                try:
                    nest_label(c, tree, sign)
                except Exception:  # noqa
                    break
                pair.append(c)
            if len(pair) == 2:
                tag = f'nested:d{depth}:{kinds}:{"mirror" if mirror else "mixed"}'
                out.append((tag + '+', pair[0], pair[1]))
                out.append((tag + '-', pair[1], pair[0]))
    return out


def perm_parity(a, b):
    """True if b is an odd permutation of a"""
    p = [a.index(x) for x in b]
    return sum(p[i] > p[j] for i in range(len(p)) for j in range(i + 1, len(p))) % 2 == 1


def own_stereo_diffs(mol, text, order):
    """configuration after re-reading, compared WITHOUT the library's translators: the stored sign of a centre refers to its
    `stereogenic_tetrahedrons` neighbour tuple, so original and re-read agree iff (signs differ) == (the re-read tuple is an
    odd permutation of the mapped original tuple); a double-bond label refers to the first substituents of its environment:
    it flips once for every end whose reference substituent changed."""
    from chython import smiles
    try:
        r = smiles(text)
    except Exception as e:  # noqa
        return [f'reader-raises:{type(e).__name__}']
    got = list(r._atoms)
    if len(got) != len(order):
        return ['atom-count']
    fw = dict(zip(order, got))
    diffs = []
    for n, a in mol._atoms.items():
        b = r._atoms[fw[n]]
        if (a.stereo is None) != (b.stereo is None):
            diffs.append(f'stereo-presence@{n}:{a.stereo}->{b.stereo}')
        elif a.stereo is not None and n in mol.stereogenic_tetrahedrons and fw[n] in r.stereogenic_tetrahedrons:
            own = [fw[x] for x in mol.stereogenic_tetrahedrons[n]]
            new = list(r.stereogenic_tetrahedrons[fw[n]])
            if sorted(own) != sorted(new):
                diffs.append(f'environment@{n}')
            elif (a.stereo != b.stereo) != perm_parity(own, new):
                diffs.append(f'tetrahedron@{n}')
    for x, y, bd in mol.bonds():
        if not r.has_bond(fw[x], fw[y]):
            diffs.append('connectivity')
            continue
        rbd = r._bonds[fw[x]][fw[y]]
        if (bd.stereo is None) != (rbd.stereo is None):
            diffs.append(f'ct-presence@{x}-{y}:{bd.stereo}->{rbd.stereo}')
        elif bd.stereo is not None:
            k1 = next((k for k in mol.stereogenic_cis_trans if set(k) == {x, y}), None)
            k2 = next((k for k in r.stereogenic_cis_trans if set(k) == {fw[x], fw[y]}), None)
            if k1 is None or k2 is None:
                continue  # label inside a longer cumulene chain: left to the translator-based judge
            e1, e2 = mol.stereogenic_cis_trans[k1], r.stereogenic_cis_trans[k2]
            ref = {fw[k1[0]]: fw[e1[0]], fw[k1[1]]: fw[e1[1]]}   # end -> reference substituent, mapped
            flips = sum(ref[end] != sub for end, sub in ((k2[0], e2[0]), (k2[1], e2[1])))
            if (bd.stereo != rbd.stereo) != (flips % 2 == 1):
                diffs.append(f'cis-trans@{x}-{y}')
    return diffs


def nested_stream(ctx, fam):
    """write -> read of molecules with nested dependent stereo units in several styles and orders, judged by the own
    permutation-parity comparison AND the translator-based judge; the two epimers at the top centre never share a
    canonical string and never re-read as the same molecule"""
    for name, m, twin in fam:
        depth = name.split(':')[1]
        ctx.dist('nested-dependent-stereo:depth=' + depth[1:])
        specs = [('', 0), ('h', 0), ('a', 0), ('A', 0)] + [('r', ctx.rng.getrandbits(30)) for _ in range(3 if ctx.quick else 10)]
        for spec, seed in specs:
            line, text, order, _ = real_write(m, spec, seed)
            ctx.count(('N', spec, tuple(wire.mol_to_ints(m)), seed), True)
            if text is None:
                ctx.broke('relational', 'writer-raises', f'{name} [{spec!r}] {line}')
                continue
            d = own_stereo_diffs(m, text, order) or judge(m, text, order, spec)
            if d:
                ctx.cov['disagreements_checked'] += 1
                inp = {'kind': 'roundtrip', 'mol': wire.mol_to_ints(m), 'spec': spec, 'draw_seed': seed, 'first': None, 'name': name}
                ctx.fail(signature_of(d, m, spec), f'{name} [{spec!r}] written {text!r} re-reads with differences {d[:5]} (own parity judge)', inp)
        if name.endswith('+'):
            s1, s2 = str(m), str(twin)
            ctx.count(('NE', tuple(wire.mol_to_ints(m))), True)
            same_text = s1 == s2
            same_back = False
            if not same_text:
                try:
                    from chython import smiles
                    same_back = str(smiles(s1)) == str(smiles(s2))
                except Exception:  # noqa
                    same_back = False
            if same_text or same_back:
                ctx.cov['disagreements_checked'] += 1
                inp = {'kind': 'epimers', 'mol': wire.mol_to_ints(m), 'mol2': wire.mol_to_ints(twin), 'name': name}
                ctx.fail('C02/collision/epimers', f'{name}: epimers at the top centre: canonical {s1!r} vs {s2!r}; same text: {same_text}; '
                         f're-read as the same molecule: {same_back}', inp)


def molecules(ctx):
    rng = ctx.rng
    q = ctx.quick
    out = []
    out += molgen.handmade()
    out += stereo_extra()
    out += allene_api()
    out += radical_api()
    out += wide_numbers()
    out += late_radicals(rng, q)
    out += polycycles(rng, q)
    out += atom_grid(rng, q)
    out += molgen.corpus(rng, 110 if q else 1200)
    for n in (3, 4, 5) if q else (3, 4, 5, 6):
        graphs = list(molgen.small_graphs(n))
        if len(graphs) > (60 if q else 600):
            graphs = rng.sample(graphs, 60 if q else 600)
        for i, e in enumerate(graphs):
            try:
                out.append((f'small{n}[{i}]', molgen.decorate(rng, e, n)))
            except Exception:  # noqa
                continue
    for i in range(25 if q else 250):
        try:
            out.append((f'rings[{i}]', molgen.decorate(rng, molgen.ring_assembly(rng), hetero=0.15, multiple=0.1, charge=0.03)))
        except Exception:  # noqa
            continue
    # aromatic forms produced by thiele() from a Kekule form (independent of how the reader assigns aromatic bonds)
    rearom = []
    for name, m in out[:(80 if q else 600)]:
        try:
            c = m.copy()
            if c.kekule() | c.thiele():
                rearom.append((name + '/rearom', c))
        except Exception:  # noqa
            continue
    out += rearom
    try:
        tf = molgen.test_files()
        out += tf if not q else rng.sample(tf, min(len(tf), 25))
    except Exception:  # noqa
        pass
    extra = []
    for i, (name, m) in enumerate(out[::3 if q else 2]):
        try:
            if i % 5 == 4 and len(m) < 2000:   # atom numbers of 3 and 4 digits (atom classes of style m)
                extra.append((name + '/renum4', molgen.renumber(rng, m, lo=rng.choice([100, 1000]), hi=9999)[0]))
            else:
                extra.append((name + '/renum', molgen.renumber(rng, m)[0]))
        except Exception:  # noqa
            continue
    out += extra
    # nested dependent stereo units: after the generic renumbering (molgen.renumber re-inserts the neighbour dicts in random order
    # and carries the stored signs over unchanged, i.e. it produces ANOTHER stereoisomer: harmless for independent centres,
    # but here it would create labels on units that are not stereogenic, objects the labelling API refuses to build).
    # Their numbering variants are made with remap(), which keeps the neighbour order and therefore the configuration.
    _state['nested'] = nested_stereo(rng, q)
    for nm, m, _ in _state['nested']:
        if nm.endswith('-') and (q and ':d2:' not in nm):
            continue   # the other epimer is still written, re-read and compared in nested_stream
        out.append((nm, m))
        if nm.endswith('+') and (not q or ':d2:' in nm):
            try:
                c = m.copy()
                nums = list(c._atoms)
                c.remap(dict(zip(nums, rng.sample(range(1, 4 * len(nums)), len(nums)))))
                out.append((nm + '/remap', c))
            except Exception:  # noqa
                pass
    for k in (5, 12, 30) if q else (5, 12, 30, 60, 98):
        out.append((f'hub{k}', build_from_ints(hub_graph(k))))
    return out


def order_first(mol):
    """the other evaluation order of the two canonical observables on a FRESH object: `smiles_atoms_order` first (it primes
    the str() cache as a side effect), then str() and format(mol, '')"""
    c = mol.copy()
    c.flush_cache()
    try:
        order = list(c.smiles_atoms_order)
        return order, str(c), format(c, ''), None
    except Exception as e:  # noqa
        return None, None, None, type(e).__name__


def history_stream(ctx, mols):
    """canonical text and smiles_atoms_order belong together whichever is read first: text after order-first == text of
    format-first (which K ties to the model's text incl. the CXSMILES block), and it re-reads to the molecule; a radical
    and its twin without the radical flag (same H counts) never share the canonical string"""
    n = 0
    for name, m in mols:
        line, text_ff, order_ff, _ = real_write(m, '', 0)
        order, t_str, t_fmt, err = order_first(m)
        n += 1
        ctx.count(('O', tuple(wire.mol_to_ints(m))), m.bonds_count > 0 or any(a.is_radical for a in m._atoms.values()))
        if err or text_ff is None:
            if (err is None) != (text_ff is not None):
                ctx.broke('relational', 'evaluation-order', f'{name}: format-first {line}, order-first raises {err}')
            continue
        bad = []
        if t_str != text_ff:
            bad.append(f'str() after smiles_atoms_order {t_str!r} != format-first {text_ff!r}')
        if t_fmt != text_ff:
            bad.append(f"format(mol,'') after smiles_atoms_order {t_fmt!r} != format-first {text_ff!r}")
        if order != order_ff:
            bad.append(f'order {order} != {order_ff}')
        d = judge(m, t_str, order, '') if judgeable(m) else judge_connectivity_only(m, t_str, order)
        if bad:
            ctx.cov['disagreements_checked'] += 1
            ctx.broke('relational', 'evaluation-order', f'{name}: ' + '; '.join(bad))
        if d:
            ctx.cov['disagreements_checked'] += 1
            ctx.fail('C02/order-first/' + signature_of(d, m, '').split('/', 2)[-1],
                     f'{name}: canonical text read AFTER smiles_atoms_order {t_str!r} re-reads with differences {d[:5]}',
                     {'kind': 'order-first', 'mol': wire.mol_to_ints(m), 'name': name})
        # radical twin
        if any(a.is_radical for a in m._atoms.values()):
            tw = m.copy()
            for a in tw._atoms.values():
                a._is_radical = False
            tw.flush_cache()
            try:
                _, tw_str, _, _ = order_first(tw)
            except Exception:  # noqa
                tw_str = None
            if tw_str is not None and tw_str == t_str:
                ctx.cov['disagreements_checked'] += 1
                ctx.fail('C02/order-first/radical-collision',
                         f'{name}: the radical and its twin without the radical flag (same H counts) are both written {t_str!r} '
                         'when smiles_atoms_order is read first',
                         {'kind': 'order-first', 'mol': wire.mol_to_ints(m), 'name': name, 'twin': True})
    ctx.dist('evaluation-order-cases(order-first)', n)


# ------------------------------------------------------------------------------------------------
# check steps
# ------------------------------------------------------------------------------------------------

def generate(ctx):
    """own tables + the two stereo sign tables of C12 that the imported Model/Stereo.lean evaluates (the writer model must
    mirror today's tables; whether they are right is C12's property, a change there must not alarm here)"""
    from ..gen import gen_stereo
    return [gen_c02.generate(), gen_stereo.generate()[0]]


def correspond(ctx):
    ctx.cov['programs'] = 7  # Smiles._smiles DFS locals ; smiles(text) atoms+bonds by position ; format(mol, spec) ; smiles_atoms_order (also read first) ; str(mol) ; smiles(text) ; Smiles._smiles token list ; heap allocator
    mols = molecules(ctx)
    reqs, expect, meta = [], [], []
    n_specs = 5 if ctx.quick else 9
    for name, mol in mols:
        ctx.dist('atoms:%s' % ('1' if len(mol) == 1 else '2-9' if len(mol) < 10 else '10-29' if len(mol) < 30 else '30+'))
        stereo = has_stereo(mol)
        variants = [(mol, 'as-is')]
        if stereo:
            variants.append((strip_stereo(mol), 'stereo-stripped'))
            if len(mol) <= 14 and any(a.stereo is not None for a in mol._atoms.values()):
                try:   # stereo centres whose hydrogen is an explicit atom (four written neighbours, no implicit H)
                    c = mol.copy()
                    if c.explicify_hydrogens():
                        variants.append((c, 'explicit-H'))
                except Exception:  # noqa
                    pass
            labelled = [(x, y) for x, y, b in mol.bonds() if b.stereo is not None]
            if name.startswith('nested:'):
                labelled = []   # removing a label there leaves dependent labels on units that are no longer stereogenic
            if len(labelled) >= 2:  # partially labelled polyenes: marks exist around a double bond without a label
                for x, y in (labelled[0], labelled[-1]):
                    c = mol.copy()
                    c._bonds[x][y]._stereo = None
                    c.flush_cache()
                    variants.append((c, f'unlabelled:{x}-{y}'))
        for m, tag in variants:
            st = has_stereo(m)
            if name.startswith('grid:'):
                specs = [('', None), ('r', None), (ctx.rng.choice(['A', 'a', 'm', 'h', 'ra']), None)]
            else:
                specs = [(sp, None) for sp in dict.fromkeys(['', 'r'] + ctx.rng.sample(SPECS[1:], n_specs))]
            if st:
                specs += [('a', None)] + [('ra', None)] * 4
                try:  # recycled closure numbers on labelled ring-fusion centres: needs three rings and many traversal orders
                    if m.rings_count >= 3 and any(a.stereo is not None for a in m._atoms.values()):
                        specs += [('r', None)] * 8 + [('ra', None), ('rh', None)]
                except Exception:  # noqa
                    pass
                try:  # '/' on a ring-closure bond written at one end only: needs the closure to fall on that bond
                    if m.rings_count and any(b.stereo is not None for _, _, b in m.bonds()):
                        specs += [('ra', None)] * 12
                except Exception:  # noqa
                    pass
            if st:  # every stereo atom / double-bond end once as the first atom of the text (first-atom chirality rule, '/' placement)
                centres = [n for n, a in m._atoms.items() if a.stereo is not None]
                centres += [n for x, y, b in m.bonds() if b.stereo is not None for n in (x, y)]
                comps = m.connected_components
                for n in list(dict.fromkeys(centres))[:6 if ctx.quick else 12]:
                    specs.append((ctx.rng.choice(['r', 'rh', 'ra', 'rA']), n))
                    other = [min(c) for c in comps if n not in c]
                    if other:  # the same atom as the first atom of a LATER component (after a dot)
                        specs.append((ctx.rng.choice(['r', 'rh']), [other[0], n]))
            for spec, first in specs:
                seed = ctx.rng.getrandbits(30)
                want_dfs = spec in ('', 'a', 'r', 'ra') and _state.get('dfs_traced', 0) < (1500 if ctx.quick else 12000)
                trace = [] if want_dfs else None
                line, text, order, draws = real_write(m, spec, seed, first, trace)
                # random order: the draws must be attributable to atoms, otherwise this style is validated by re-reading only
                modelled = not ('r' in spec and any(a is None for a, _ in draws))
                nontrivial = m.bonds_count > 0
                if modelled and ctx.build_ok:
                    reqs.append(request('W', m, spec, order, draws))
                    expect.append(line)
                    meta.append(('W', name, tag, spec, seed, m))
                    ctx.count(('W', spec, tuple(wire.mol_to_ints(m)), tuple(draws)), nontrivial)
                    ctx.dist('style:' + (spec or 'canonical'))
                    if want_dfs and not trace and line.startswith('ok'):
                        ctx.dist('dfs-internals:hook-not-available')
                    if trace and line.startswith('ok'):
                        # the DFS itself: start, discovery order, tree (edges), closure records (tokens) of every round, taken
                        # from the locals of the real frame, must equal the model's (the objects the theorems of §8 speak about)
                        _state['dfs_traced'] = _state.get('dfs_traced', 0) + 1
                        reqs.append(request('D', m, spec, order, draws))
                        expect.append('ok ' + show_dfs(trace))
                        meta.append(('D', name, tag, spec, seed, m))
                    if line.startswith('ok') and _state.get('pos_read', 0) < (2500 if ctx.quick else 20000) \
                            and not ('m' in spec and max(m._atoms) > 9999):
                        want_pos = real_positions(text)
                        if want_pos is not None:   # text -> lexer model -> positional reader model vs the real reader's atoms and bonds
                            _state['pos_read'] = _state.get('pos_read', 0) + 1
                            reqs.append(request('L', m, spec, order, draws))
                            expect.append(want_pos)
                            meta.append(('L', name, tag, spec, seed, m))
                    if (spec in ('', 'a', 'r') or (st and '!s' not in spec)) and line.startswith('ok'):
                        reqs.append(request('C', m, spec, order, draws))
                        expect.append(None)
                        meta.append(('C', name, tag, spec, seed, m))
                        if LOSSLESS(spec) and judgeable(m):
                            reqs.append(request('R', m, spec, order, draws))
                            expect.append(None)
                            meta.append(('R', name, tag, spec, seed, m))
                else:
                    ctx.dist('random-order-K-skipped(draws-not-attributable)')
                # relational: real reader on the real text, judged under the written order
                if text is not None and spec == '' and tag == 'as-is':
                    try:
                        for x, y, b in m.bonds():
                            if int(b) == 1 and m._atoms[x].hybridization == 4 == m._atoms[y].hybridization:
                                ctx.dist('single-bond-between-aromatic-atoms:' + ('ring' if b.in_ring else 'chain'))
                    except Exception:  # noqa
                        pass
                if text is not None and ' |^1:' in text:
                    for w in {len(x) for x in text.split(' |^1:')[1].rstrip('|').split(',')}:
                        ctx.dist(f'cx-radical-position-digits:{w}')
                if text is not None and 'm' in spec and ':' in text:
                    ctx.dist(f'atom-class-digits:{len(str(max(m._atoms)))}')
                if text is not None:
                    ctx.count(('J', spec, tuple(wire.mol_to_ints(m)), tuple(draws)), nontrivial)
                    if judgeable(m):
                        d = judge(m, text, order, spec)
                    else:  # an atom without a defined H count (valence error): only the graph is judged
                        d = judge_connectivity_only(m, text, order, '!x' not in spec and LOSSLESS(spec))
                        ctx.dist('reread-graph-only(valence-invalid)')
                    ctx.dist('reread:' + ('iso' if not d else 'DIFF'))
                    if d:
                        if flanked_unlabelled_class(d, m):
                            ctx.dist('known-finding-cases(unlabelled-flanked-double-bond)')
                        elif signature_of(d, m, spec) == 'C02/atom-map-over-9999':
                            ctx.dist('known-finding-cases(atom-map-over-9999)')
                        else:
                            ctx.cov['disagreements_checked'] += 1
                        inp = {'kind': 'roundtrip', 'mol': wire.mol_to_ints(m), 'spec': spec, 'draw_seed': seed, 'first': first, 'name': name}
                        ctx.fail(signature_of(d, m, spec), f'{name} [{spec!r}] written {text!r} re-reads with differences {d[:5]}', inp)
                else:
                    ctx.dist('writer-raises:' + line)
                    if line != 'err crash:IndexError' or not name.startswith('hub'):
                        ctx.broke('relational', 'writer-raises', f'{name} [{spec!r}] {line}')
                if len(ctx.cov['samples']) < 6 and nontrivial and text and 12 < len(text) < 70 and len(m) >= 6 and ('@' in text or '/' in text or ('1' in text and ':' not in text)) \
                        and spec != _state.get('last_sample_spec'):
                    _state['last_sample_spec'] = spec
                    ctx.sample({'molecule': name, 'style': spec, 'written': text, 'order': order})
    # allocator alone
    hreqs, hexp = heap_cases(ctx)
    if ctx.build_ok:
        res = run_driver('C02', reqs + hreqs)
        for (op, name, tag, spec, seed, m), want, got in zip(meta, expect, res):
            if op == 'W':
                if got != want:
                    ctx.cov['disagreements_checked'] += 1
                    ctx.broke('correspondence', 'writer-text', f'{name}/{tag} [{spec!r}] seed={seed}\n real : {want}\n model: {got}')
                    _state.setdefault('disagree', []).append((m, spec, seed, name))
            elif op == 'L':
                ctx.count(('L', spec, tuple(wire.mol_to_ints(m)), seed), m.bonds_count > 0)
                if got != want:
                    if got == 'ok lex-error' and any(a.atomic_number in (9, 17, 35, 53) and a.hybridization == 4 for a in m._atoms.values()):
                        ctx.dist('positional-read:aromatic-halogen(lexical finding of the model, valence-invalid input)')
                    else:
                        ctx.cov['disagreements_checked'] += 1
                        ctx.broke('correspondence', 'positional-read', f'{name}/{tag} [{spec!r}] seed={seed}\n real : {want[:400]}\n model: {got[:400]}')
                        _state.setdefault('disagree', []).append((m, spec, seed, name))
                else:
                    ctx.dist('positional-read:agree')
            elif op == 'D':
                ctx.count(('D', spec, tuple(wire.mol_to_ints(m)), seed), m.bonds_count > 0)
                ctx.dist('dfs-internals:rounds=%s,closures=%s' % (min(want.count(' / ') + 1, 3), 'yes' if '-' in want else 'no'))
                if got != want:
                    ctx.cov['disagreements_checked'] += 1
                    ctx.broke('correspondence', 'dfs-internals', f'{name}/{tag} [{spec!r}] seed={seed}\n real : {want[:400]}\n model: {got[:400]}')
                    _state.setdefault('disagree', []).append((m, spec, seed, name))
            elif op == 'C':
                ctx.count(('C', spec, tuple(wire.mol_to_ints(m)), seed), m.bonds_count > 0)
                if not got.startswith('ok'):
                    ctx.cov['disagreements_checked'] += 1
                    ctx.broke('relational', 'structural-checkers', f'{name}/{tag} [{spec!r}] {got}')
                    _state.setdefault('disagree', []).append((m, spec, seed, name))
                else:
                    ctx.dist('maxopen:' + got.split('maxopen=')[1].split()[0])
            elif op == 'R':
                ctx.count(('R', spec, tuple(wire.mol_to_ints(m)), seed), m.bonds_count > 0)
                if has_stereo(m) and '!s' not in spec:
                    ctx.dist('model-reread-with-stereo-marks')
                if 'm' in spec and max(m._atoms) > 9999 and got.startswith('reader lib:IncorrectSmiles'):
                    ctx.dist('model-reread-agrees-with-known-finding(atom-map-over-9999)')  # the reader model rejects it too
                elif not got.startswith('ok iso'):
                    ctx.cov['disagreements_checked'] += 1
                    ctx.broke('relational', 'model-reread', f'{name}/{tag} [{spec!r}] {got}')
                    _state.setdefault('disagree', []).append((m, spec, seed, name))
        for r, want, got in zip(hreqs, hexp, res[len(reqs):]):
            if got != want:
                ctx.cov['disagreements_checked'] += 1
                ctx.broke('correspondence', 'closure-heap', f'{r[:200]}\n real : {want}\n model: {got}')
    rad = [(nm, m) for nm, m in mols if any(a.is_radical for a in m._atoms.values())]
    others = [(nm, m) for nm, m in mols if not any(a.is_radical for a in m._atoms.values())]
    history_stream(ctx, rad + ctx.rng.sample(others, min(len(others), 60 if ctx.quick else 600)))
    injectivity(ctx)
    nested_stream(ctx, _state.get('nested', []))


_state = {}


def ring_diene_class(diffs, mol):
    """known finding C02/ring-diene-cis-trans: every difference is the configuration of a ring double bond one of whose
    ends is bonded to an end of another labelled double bond (conjugated ring diene)"""
    if not diffs or not all(d.startswith('cis-trans@') for d in diffs):
        return False
    for d in diffs:
        x, y = (int(v) for v in d.split('@')[1].split('-'))
        try:
            bd = mol._bonds[x][y]
            if not bd.in_ring:
                return False
            conj = False
            for e, other in ((x, y), (y, x)):
                for z in mol._bonds[e]:
                    if z != other and any(b.stereo is not None for b in mol._bonds[z].values()):
                        conj = True
            if not conj:
                return False
        except Exception:  # noqa
            return False
    return True


def flanked_unlabelled_class(diffs, mol):
    """known finding C02/unlabelled-flanked-double-bond: every difference is a label that APPEARS (None -> bool) on a
    stereogenic double bond which is unlabelled in the original and both of whose ends are bonded, through a single bond
    to a substituent of its stereo environment, to an end of a LABELLED double bond: both flanking single bonds then
    carry a direction mark that belongs to the neighbours, and SMILES has no way to leave the bond between them unspecified"""
    if not diffs or not all(d.startswith('ct-presence@') and ':None->' in d for d in diffs):
        return False
    try:
        ctt = mol._stereo_cis_trans_terminals
        ctc = mol._stereo_cis_trans_centers
        sct = mol.stereogenic_cis_trans

        def labelled_end(z):
            if z not in ctc or ctt.get(z) is None or z not in ctt[z]:
                return False
            i, j = ctc[z]
            return mol._bonds[i][j].stereo is not None

        for d in diffs:
            x, y = (int(v) for v in d.split('@')[1].split(':')[0].split('-'))
            if mol._bonds[x][y].stereo is not None:
                return False
            n, m = ctt[x]
            env = sct[(n, m)]
            for end, other in ((n, m), (m, n)):
                if not any(z in env and int(mol._bonds[end][z]) == 1 and labelled_end(z) for z in mol._bonds[end]):
                    return False
    except Exception:  # noqa
        return False
    return True


def signature_of(diffs, mol, spec=''):
    if flanked_unlabelled_class(diffs, mol):
        return 'C02/unlabelled-flanked-double-bond'
    if ring_diene_class(diffs, mol):   # fixed finding (891fb3c): a recurrence is reported under its own signature
        return 'C02/ring-diene-cis-trans'
    if 'm' in spec and any(d.startswith('reader-raises') for d in diffs) and max(mol._atoms) > 9999:
        return 'C02/atom-map-over-9999'
    kinds = sorted({d.split('@')[0].split(':')[0] for d in diffs})
    return 'C02/reread-differs/' + '+'.join(kinds)


def real_heap(lists):
    """the closure-number loop of `_smiles` on abstract input: atoms in string order with their cycle ids"""
    from heapq import heappop, heappush
    heap = list(range(1, 100))
    casted = {}
    out = []
    try:
        for cyc in lists:
            released = []
            for c in cyc:
                if c in casted:
                    released.append(casted[c])
                else:
                    casted[c] = heappop(heap)
            for c in released:
                heappush(heap, c)
            out.append(','.join(str(casted[c]) for c in cyc))
    except IndexError:
        return 'err crash:IndexError'
    return 'ok ' + ';'.join(out)


def heap_cases(ctx):
    """NOTE: `real_heap` is a copy of the source loop (kept verbatim) — this stream validates the Lean allocator against
    Python's heapq semantics; the tie to the real `_smiles` is the writer-text stream above (hub graphs reach 98 open)."""
    reqs, exp = [], []
    rng = ctx.rng
    for t in range(40 if ctx.quick else 400):
        n_cycles = rng.choice([1, 3, 8, 20, 60, 99, 100, 105]) if t % 4 == 0 else rng.randint(1, 30)
        events = []
        opened = []
        nxt = 1
        lists = []
        for _ in range(rng.randint(2, 40 + n_cycles)):
            cyc = []
            for _ in range(rng.randint(1, 3)):
                if opened and rng.random() < 0.45:
                    c = opened.pop(rng.randrange(len(opened)))
                    if c not in cyc:
                        cyc.append(c)
                elif nxt <= n_cycles:
                    cyc.append(nxt)
                    opened.append(nxt)
                    nxt += 1
            if cyc:
                lists.append(cyc)
        if not lists:
            continue
        xs = [len(lists)]
        for l in lists:
            xs += [len(l)] + l
        reqs.append('H ' + ' '.join(map(str, xs)))
        exp.append(real_heap(lists))
        ctx.count(('H', tuple(map(tuple, lists))))
    return reqs, exp


# ------------------------------------------------------------------------------------------------
# injectivity: different structures never share a canonical string
# ------------------------------------------------------------------------------------------------

def structure_key(mol):
    """brute-force canonical form of a small decorated graph (independent of chython's canonicaliser): minimum over all
    atom permutations of (atom labels, bond list). Only for <= 7 atoms."""
    atoms = list(mol._atoms)
    lab = {n: (a.atomic_number, a.isotope or 0, a.charge, int(a.is_radical), a.implicit_hydrogens if a.implicit_hydrogens is not None else -1)
           for n, a in mol._atoms.items()}
    bonds = [(x, y, int(b)) for x, y, b in mol.bonds()]
    best = None
    # cheap pruning: sort atoms by label first, permute only within equal labels
    groups = {}
    for n in atoms:
        groups.setdefault(lab[n], []).append(n)
    keys = sorted(groups)
    for perm in itertools.product(*[itertools.permutations(groups[k]) for k in keys]):
        seq = [n for p in perm for n in p]
        pos = {n: i for i, n in enumerate(seq)}
        k = (tuple(lab[n] for n in seq), tuple(sorted((min(pos[x], pos[y]), max(pos[x], pos[y]), o) for x, y, o in bonds)))
        if best is None or k < best:
            best = k
    return best


VALENCE = {'C': 4, 'N': 3, 'O': 2, 'S': 2, 'F': 1}


def valence_ok_decorations(rng, edges, n, elems, limit):
    """decorations (elements x bond orders) of one skeleton that respect the usual valences, exhaustively when few,
    else sampled; charges are added to a fraction afterwards"""
    import itertools as it
    verts = list(range(1, n + 1))
    all_dec = []
    total = (len(elems) ** n) * (3 ** len(edges))
    if total <= limit:
        combos = ((el, od) for el in it.product(elems, repeat=n) for od in it.product((1, 2, 3), repeat=len(edges)))
        exhaustive = True
    else:
        combos = ((tuple(rng.choice(elems) for _ in verts), tuple(rng.choice((1, 1, 1, 2, 2, 3)) for _ in edges))
                  for _ in range(limit * 3))
        exhaustive = False
    seen = set()
    for el, od in combos:
        if (el, od) in seen:
            continue
        seen.add((el, od))
        load = {v: 0 for v in verts}
        for (x, y), o in zip(edges, od):
            load[x] += o
            load[y] += o
        if all(load[v] <= VALENCE[el[v - 1]] for v in verts):
            all_dec.append((el, od))
            if len(all_dec) >= limit:
                break
    return all_dec, exhaustive and len(all_dec) < limit


def injectivity(ctx):
    """(a) non-stereo: exhaustively enumerated small skeletons x valence-valid element/bond-order decorations (+ charged
    variants): equal canonical strings only for structures with the same brute-force canonical form (independent of
    chython's canonicaliser).  (b) stereo: every stereoisomer (all 2^k label assignments) of sampled molecules is written
    and re-read; by `injective_of_lossless` a collision between different configurations would show as a re-read
    difference for one of them."""
    rng = ctx.rng
    seen = {}
    total = 0
    q = ctx.quick
    elems = ['C', 'N', 'O']
    all_exhaustive = True
    for n in ((2, 3, 4) if q else (2, 3, 4, 5)):
        for edges in molgen.unlabeled_small_graphs(n):
            decs, ex = valence_ok_decorations(rng, list(edges), n, elems, (120 if q else (4000 if n <= 4 else 300)))
            all_exhaustive = all_exhaustive and ex
            for el, od in decs:
                variants = [dict()]
                if rng.random() < 0.3:
                    variants.append({rng.randint(1, n): rng.choice([1, -1])})
                for charges in variants:
                    try:
                        m = molgen.from_edges(edges, dict(zip(range(1, n + 1), el)), dict(zip(edges, od)), charges, n)
                    except Exception:  # noqa
                        continue
                    if not judgeable(m):
                        continue
                    try:
                        st = str(m)
                    except Exception as e:  # noqa
                        ctx.broke('relational', 'writer-raises', f'{el} {od} {charges}: {type(e).__name__}')
                        continue
                    k = structure_key(m)
                    total += 1
                    ctx.count(('I', st, k))
                    if st in seen and seen[st][0] != k:
                        ctx.cov['disagreements_checked'] += 1
                        ctx.fail('C02/collision', f'two different structures share the canonical string {st!r}',
                                 {'kind': 'collision', 'mol': wire.mol_to_ints(m), 'mol2': seen[st][1]})
                    seen.setdefault(st, (k, wire.mol_to_ints(m)))
    ctx.dist('injectivity-structures', total)
    ctx.dist('injectivity-distinct-strings', len(seen))
    ctx.dist('injectivity-distinct-structures', len({v[0] for v in seen.values()}))
    ctx.cov['injectivity_small_graphs_exhaustive'] = bool(all_exhaustive)
    # (b) stereoisomers
    pool = [(nm, m) for nm, m in stereo_extra() + molgen.handmade() + molgen.corpus(rng, 40 if q else 400) if has_stereo(m)]
    n_iso = 0
    strings = {}
    for nm, m in pool:
        centres = [('a', n) for n, a in m._atoms.items() if a.stereo is not None] + \
                  [('b', x, y) for x, y, b in m.bonds() if b.stereo is not None]
        if not centres or len(centres) > (4 if q else 7):
            continue
        for mask in range(1 << len(centres)):
            c = m.copy()
            for i, ce in enumerate(centres):
                if mask >> i & 1:
                    if ce[0] == 'a':
                        c._atoms[ce[1]]._stereo = not c._atoms[ce[1]]._stereo
                    else:
                        bd = c._bonds[ce[1]][ce[2]]
                        bd._stereo = not bd._stereo
            c.flush_cache()
            line, text, order, _ = real_write(c, '', 0)
            n_iso += 1
            ctx.count(('S', nm, mask))
            if text is None:
                ctx.broke('relational', 'writer-raises', f'stereoisomer {mask} of {nm}: {line}')
                continue
            d = judge(c, text, order, '') if judgeable(c) else []
            strings.setdefault(nm, set()).add(text)
            if d:
                ctx.cov['disagreements_checked'] += 1
                ctx.fail(signature_of(d, c, ''), f'stereoisomer {mask} of {nm} written {text!r} re-reads with differences {d[:5]}',
                         {'kind': 'roundtrip', 'mol': wire.mol_to_ints(c), 'spec': '', 'draw_seed': 0, 'first': None})
    ctx.dist('stereoisomers-written-and-reread', n_iso)
    ctx.dist('stereoisomer-distinct-strings', sum(len(v) for v in strings.values()))


# ------------------------------------------------------------------------------------------------
# failing-input search and probe
# ------------------------------------------------------------------------------------------------

def search(ctx):
    """property-level oracle on the real code only: write, re-read, judge under the written order; starts from the
    disagreeing molecules and their neighbourhood (all styles, several random orders, renumberings)."""
    import time
    t0 = time.time()
    budget = 60 if ctx.quick else 600
    start = [(m, name) for m, _, _, name in _state.get('disagree', [])]
    pool = start + [(build_from_ints(hub_graph(k)), f'hub{k}') for k in (12, 99, 100)] + [(m, name) for name, m in molecules(ctx)]
    for m, name in pool:
        if time.time() - t0 > budget:
            break
        cands = [m]
        try:
            cands.append(molgen.renumber(ctx.rng, m)[0])
        except Exception:  # noqa
            pass
        for c in cands:
            firsts = [None]
            if has_stereo(c):
                firsts += list(dict.fromkeys([n for n, a in c._atoms.items() if a.stereo is not None] +
                                             [n for x, y, b in c.bonds() if b.stereo is not None for n in (x, y)]))[:8]
            comps = c.connected_components
            later = [[min(k for k in comps[0] if True) if f not in comps[0] else min(comps[-1]), f] for f in firsts[1:]] if len(comps) > 1 else []
            for spec, first in ([(sp, None) for sp in SPECS] + [('r', f) for f in firsts[1:]] + [('rh', f) for f in firsts[1:]]
                                + [('r', f) for f in later]):
                for seed in ((1, 2, 3) if 'r' in spec and first is None else (0,)):
                    line, text, order, draws = real_write(c, spec, seed, first)
                    if text is None:
                        sig = 'C02/closure-heap-exhausted' if line.endswith('IndexError') and c.bonds_count - len(c) >= 98 \
                            else 'C02/writer-raises/' + line.split(':')[-1]
                        ctx.fail(sig, f'{name} [{spec!r}]: writer raises {line}',
                                 {'kind': 'roundtrip', 'mol': wire.mol_to_ints(c), 'spec': spec, 'draw_seed': seed, 'first': first})
                        if sig != 'C02/closure-heap-exhausted':
                            return
                        break
                    d = judge(c, text, order, spec) if judgeable(c) else judge_connectivity_only(c, text, order, '!x' not in spec and LOSSLESS(spec))
                    if d:
                        ctx.fail(signature_of(d, c, spec), f'{name} [{spec!r}] written {text!r} re-reads with differences {d[:5]}',
                                 {'kind': 'roundtrip', 'mol': wire.mol_to_ints(c), 'spec': spec, 'draw_seed': seed, 'first': first})
                        return


def probe(inp):
    kind = inp.get('kind', 'roundtrip')
    if kind == 'hub':
        m = build_from_ints(hub_graph(inp['ring']))
        line, text, order, _ = real_write(m, inp.get('spec', ''), 0)
        if text is None:
            return True, f'writer raises on a graph with {inp["ring"]} simultaneously open closures: {line}'
        d = judge_connectivity_only(m, text, order)
        return bool(d), f'written ({len(text)} chars), re-read differences: {d[:4]}'
    if kind == 'remap-write':
        from chython import smiles
        m = smiles(inp['smiles'])
        m.remap({int(k): v for k, v in inp['remap'].items()})
        line, text, order, _ = real_write(m, inp.get('spec', ''), 0)
        if text is None:
            return True, f'writer raises: {line}'
        d = judge(m, text, order, inp.get('spec', ''))
        return bool(d), f'written {text!r}; differences after re-reading: {d[:4]}'
    if kind == 'unlabel-roundtrip':
        from chython import smiles
        m = smiles(inp['smiles'])
        lab = [(x, y) for x, y, b in m.bonds() if b.stereo is not None]
        for i in inp['unlabel']:
            x, y = lab[i]
            m._bonds[x][y]._stereo = None
        m.flush_cache()
        seen = []
        for spec, seeds in (('', [0]), ('r', range(inp.get('seeds', 60)))):
            for seed in seeds:
                line, text, order, _ = real_write(m, spec, seed)
                d = judge(m, text, order, spec) if text is not None else ['writer-raises']
                if d:
                    seen.append((text, d[:2]))
        return bool(seen), (f'{len(seen)} of the written texts re-read with a label on the unlabelled bond, e.g. {seen[0]}' if seen
                            else 'every written text re-reads without a label on the unlabelled bond')
    if kind == 'order-first':
        m, _ = wire.ints_to_mol(inp['mol'], calc=True)
        order, t_str, t_fmt, err = order_first(m)
        if err:
            return True, f'raises {err}'
        d = judge(m, t_str, order, '') if judgeable(m) else judge_connectivity_only(m, t_str, order)
        if inp.get('twin'):
            tw = m.copy()
            for a in tw._atoms.values():
                a._is_radical = False
            tw.flush_cache()
            d = d or (['radical-collision'] if order_first(tw)[1] == t_str else [])
        return bool(d), f'smiles_atoms_order read first, then str(): {t_str!r}; differences after re-reading: {d[:5]}'
    if kind == 'stereo-collision':
        from chython import smiles
        a, b = smiles(inp['smiles1']), smiles(inp['smiles2'])
        la = sorted((x, y, bd.stereo) for x, y, bd in a.bonds() if bd.stereo is not None)
        lb = sorted((x, y, bd.stereo) for x, y, bd in b.bonds() if bd.stereo is not None)
        same_graph = sorted((x, y, int(bd)) for x, y, bd in a.bonds()) == sorted((x, y, int(bd)) for x, y, bd in b.bonds())
        fails = same_graph and la != lb and str(a) == str(b)
        return fails, f'{inp["smiles1"]} -> {str(a)!r}; {inp["smiles2"]} -> {str(b)!r}; labels {la} vs {lb}; a == b: {a == b}'
    if kind == 'epimers':
        from chython import smiles
        m1, _ = wire.ints_to_mol(inp['mol'], calc=True)
        m2, _ = wire.ints_to_mol(inp['mol2'], calc=True)
        s1, s2 = str(m1), str(m2)
        differ = inp['mol'] != inp['mol2']
        back = str(smiles(s1)) == str(smiles(s2))
        return differ and (s1 == s2 or back), f'{s1!r} vs {s2!r}; labels differ: {differ}; re-read as the same molecule: {back}'
    if kind == 'collision':
        m1, _ = wire.ints_to_mol(inp['mol'], calc=True)
        m2, _ = wire.ints_to_mol(inp['mol2'], calc=True)
        same = str(m1) == str(m2)
        diff = structure_key(m1) != structure_key(m2)
        return same and diff, f'{str(m1)!r} vs {str(m2)!r}; structures differ: {diff}'
    m, _ = wire.ints_to_mol(inp['mol'], calc=True)
    line, text, order, _ = real_write(m, inp.get('spec', ''), inp.get('draw_seed', 0), inp.get('first'))
    if text is None:
        return True, f'writer raises: {line}'
    d = judge(m, text, order, inp.get('spec', ''))
    return bool(d), f'written {text!r}; differences after re-reading: {d[:6]}' if d else f'written {text!r}; re-read is isomorphic under the written order'


def judge_connectivity_only(mol, text, order, check_radicals=True):
    from chython import smiles
    try:
        r = smiles(text)
    except Exception as e:  # noqa
        return [f'reader-raises:{type(e).__name__}']
    back = dict(zip(list(r._atoms), order))
    rb = {frozenset((back[x], back[y])) for x, y, _ in r.bonds()}
    ob = {frozenset((x, y)) for x, y, _ in mol.bonds()}
    diffs = [] if rb == ob else ['connectivity']
    if not diffs and check_radicals:
        # a radical flag of the original is written in the CXSMILES block and must come back (the converse is not judged:
        # for valence-invalid atoms the reader may guess additional radicals)
        for rn, n in back.items():
            a, b = mol._atoms[n], r._atoms[rn]
            if a.atomic_number != b.atomic_number:
                diffs.append(f'element@{n}')
            elif (a.isotope or None) != (b.isotope or None):
                diffs.append(f'isotope@{n}')
            elif a.charge != b.charge:
                diffs.append(f'charge@{n}')
            elif a.is_radical and not b.is_radical:
                diffs.append(f'radical@{n}')
    return diffs
