"""C19 — set/dict operation histories: generators, execution on REAL Python containers, rendering for the Lean driver,
and the tracing wrapper used to replay the container history of the reviewed order-sensitive sites.

A program is a list of ops (tuples) over set registers, exactly the op language of `lean/Drivers/C19.lean`.
`execute(prog)` runs it on real `set`/`dict` objects of this interpreter and returns the observations (strings);
`render(prog)` gives the request line for the model.  Nothing here consults the model.
"""
import ast
import inspect
import sys
import textwrap

OBSERVING = {'remove', 'pop', 'has', 'iter', 'state', 'ddel', 'dpopitem', 'dkeys'}
_BASE = sys.getsizeof(set())


def _mask(s):
    n = sys.getsizeof(s)
    return 7 if n == _BASE else (n - _BASE) // 16 - 1


def fmt(xs):
    return '[' + ' '.join(map(str, xs)) + ']'


def execute(prog):
    """run the program on real containers; list of observation strings"""
    regs, dicts, out = {}, {}, []
    for op in prog:
        name, a = op[0], op[1:]
        if name == 'new':
            regs[a[0]] = set()
        elif name == 'add':
            regs[a[0]].add(a[1])
        elif name == 'discard':
            regs[a[0]].discard(a[1])
        elif name == 'remove':
            try:
                regs[a[0]].remove(a[1])
                out.append('ok')
            except KeyError:
                out.append('KeyError')
        elif name == 'pop':
            try:
                out.append(str(regs[a[0]].pop()))
            except KeyError:
                out.append('KeyError')
        elif name == 'clear':
            regs[a[0]].clear()
        elif name == 'has':
            out.append('1' if a[1] in regs[a[0]] else '0')
        elif name == 'iter':
            out.append(fmt(regs[a[0]]))
        elif name == 'state':
            out.append('mask=%d used=%d' % (_mask(regs[a[0]]), len(regs[a[0]])))
        elif name == 'updl':
            regs[a[0]].update(list(a[1:]))
        elif name == 'updd':
            regs[a[0]].update(dict.fromkeys(a[1:]))
        elif name == 'upds':
            regs[a[0]].update(regs[a[1]])
        elif name == 'copy':
            regs[a[0]] = regs[a[1]].copy() if (a[0] + a[1]) % 2 else set(regs[a[1]])
        elif name == 'dupl':
            regs[a[0]].difference_update(list(a[1:]))
        elif name == 'dups':
            regs[a[0]] -= regs[a[1]]
        elif name == 'inter':
            regs[a[0]] = regs[a[1]] & regs[a[2]]
        elif name == 'interTLc':
            regs[a[0]] = regs[a[1]] & set(list(a[2:]))
        elif name == 'interLTc':
            regs[a[0]] = set(list(a[2:])) & regs[a[1]]
        elif name == 'interIt':
            regs[a[0]] = regs[a[1]].intersection(list(a[2:]))
        elif name == 'diff':
            regs[a[0]] = regs[a[1]] - regs[a[2]]
        elif name == 'diffTLc':
            regs[a[0]] = regs[a[1]] - set(list(a[2:])) if len(a) % 2 else regs[a[1]].difference(dict.fromkeys(a[2:]))
        elif name == 'diffIt':
            regs[a[0]] = regs[a[1]].difference(list(a[2:]))
        elif name == 'union':
            regs[a[0]] = regs[a[1]] | regs[a[2]]
        elif name == 'dset':
            dicts.setdefault(a[0], {})[a[1]] = len(out)
        elif name == 'ddel':
            try:
                del dicts.setdefault(a[0], {})[a[1]]
                out.append('ok')
            except KeyError:
                out.append('KeyError')
        elif name == 'dpopitem':
            try:
                out.append(str(dicts.setdefault(a[0], {}).popitem()[0]))
            except KeyError:
                out.append('KeyError')
        elif name == 'dkeys':
            out.append(fmt(dicts.setdefault(a[0], {})))
        else:
            raise ValueError(name)
    return out


def render(prog):
    """request line for the model.  `…c` ops carry the keys a literal operand is CONSTRUCTED from (`set(list)`); the model is
    given that operand as an observed container: its iteration order on the real interpreter (seed free for ints)"""
    def one(op):
        if op[0] in ('interTLc', 'interLTc', 'diffTLc'):
            op = (op[0][:-1], op[1], op[2], *list(set(list(op[3:]))))
        return ' '.join(map(str, op))
    return ' ; '.join(one(op) for op in prog)


# ------------------------------------------------------------------------------------------------
# generators (every random choice from the rng handed in)
# ------------------------------------------------------------------------------------------------

BIG = [2 ** 61 - 2, 2 ** 61 - 1, 2 ** 61, 2 ** 61 + 1, 2 ** 62, 2 ** 63 - 1, 2 ** 63, 2 ** 64 - 1, 2 ** 64, 2 ** 64 + 7,
       2 ** 70 + 5, 3 * (2 ** 61 - 1), 3 * (2 ** 61 - 1) + 8, -(2 ** 61 - 1), -(2 ** 61), -(2 ** 61) - 1, -(2 ** 63), -(2 ** 64) - 9,
       2 * (2 ** 61 - 1) - 1, -1, -2, 0]


def key_source(rng):
    kind = rng.choice(['dense', 'dense', 'wide', 'stride', 'neg', 'big', 'mixed', 'pow2', 'atoms'])
    if kind == 'dense':
        n = rng.choice([6, 12, 40, 200])
        return kind, lambda: rng.randrange(n)
    if kind == 'atoms':
        n = rng.choice([10, 30, 80])
        return kind, lambda: rng.randrange(1, n + 1)
    if kind == 'wide':
        return kind, lambda: rng.randrange(10 ** 6)
    if kind == 'stride':
        st = rng.choice([8, 16, 32, 64, 1024, 4096, 2 ** 20])
        n = rng.choice([10, 50, 300])
        return kind, lambda: st * rng.randrange(n)
    if kind == 'neg':
        n = rng.choice([10, 100, 10 ** 5])
        return kind, lambda: -rng.randrange(1, n)
    if kind == 'big':
        return kind, lambda: rng.choice(BIG) + rng.choice([0, 0, 1, 8, -8, 2 ** 61 - 1])
    if kind == 'pow2':
        return kind, lambda: (1 << rng.randrange(0, 80)) * rng.choice([1, -1]) + rng.choice([0, 0, 1, -1])
    src = [key_source(rng)[1] for _ in range(3)]
    return kind, lambda: rng.choice(src)()


def random_program(rng, n_ops, n_regs=3, observe_every=1):
    kind, key = key_source(rng)
    prog = [('new', r) for r in range(n_regs)]
    live = {r: set() for r in range(n_regs)}     # shadow content, only to pick keys that hit
    weights = rng.choice([
        dict(add=10, discard=3, remove=2, pop=2, has=2, updl=1, updd=1, upds=1, copy=1, dupl=1, dups=1, inter=1, diff=1, union=1, clear=0.2, lit=1),
        dict(add=10, discard=8, remove=0, pop=1, has=1, updl=0, updd=0, upds=0, copy=0, dupl=0, dups=0, inter=0, diff=0, union=0, clear=0, lit=0),
        dict(add=6, discard=1, remove=0, pop=6, has=0, updl=1, updd=0, upds=0, copy=1, dupl=2, dups=1, inter=0, diff=0, union=0, clear=0.1, lit=0),
        dict(add=3, discard=1, remove=1, pop=1, has=1, updl=3, updd=3, upds=3, copy=3, dupl=3, dups=3, inter=3, diff=3, union=3, clear=0.3, lit=3),
    ])
    names, ws = list(weights), list(weights.values())

    def some_key(r):
        if live[r] and rng.random() < 0.6:
            return rng.choice(sorted(live[r]))
        return key()

    def keys(k):
        return [key() for _ in range(rng.randrange(k))]

    for step in range(n_ops):
        name = rng.choices(names, ws)[0]
        r, q = rng.randrange(n_regs), rng.randrange(n_regs)
        d = rng.randrange(n_regs)
        if name == 'add':
            k = key(); prog.append(('add', r, k)); live[r].add(k)
        elif name in ('discard', 'remove', 'has'):
            k = some_key(r); prog.append((name, r, k))
            if name != 'has':
                live[r].discard(k)
        elif name == 'pop':
            prog.append(('pop', r)); live[r] = None
        elif name == 'clear':
            prog.append(('clear', r)); live[r] = set()
        elif name == 'updl':
            ks = keys(12); prog.append(('updl', r, *ks))
        elif name == 'updd':
            ks = list(dict.fromkeys(keys(rng.choice([4, 12, 40])))); prog.append(('updd', r, *ks))
        elif name == 'upds':
            prog.append(('upds', r, q))
        elif name == 'copy':
            prog.append(('copy', r, q))
        elif name == 'dupl':
            ks = [some_key(r) for _ in range(rng.randrange(10))]; prog.append(('dupl', r, *ks))
        elif name == 'dups':
            prog.append(('dups', r, q))
        elif name == 'inter':
            prog.append(('inter', d, r, q))
        elif name == 'diff':
            prog.append(('diff', d, r, q))
        elif name == 'union':
            prog.append(('union', d, r, q))
        elif name == 'lit':
            ks = [some_key(r) for _ in range(rng.randrange(1, 14))]
            which = rng.choice(['interTLc', 'interLTc', 'interIt', 'diffTLc', 'diffIt'])
            prog.append((which, d, r, *ks))
        for x in range(n_regs):   # shadow tracking is approximate after whole-set ops: recompute lazily
            if live[x] is None:
                live[x] = set()
        if observe_every and step % observe_every == 0:
            t = prog[-1][1]
            prog.append(('iter', t))
            if rng.random() < 0.3:
                prog.append(('state', t))
    for r in range(n_regs):
        prog += [('iter', r), ('state', r)]
    return kind, prog


def growth_program(rng, n, keyf, step_obs):
    """adds crossing every resize boundary up to n keys, iteration observed around each boundary and every step_obs ops,
    then drain by pop (finger order) with re-adds in between"""
    prog = [('new', 0)]
    bounds = set()
    size = 8
    while size < 8 * n:
        b = (size - 1) * 3 // 5
        bounds |= {b - 1, b, b + 1, b + 2}
        size *= 2
    seen = set()
    i = 0
    while len(seen) < n:
        k = keyf(i); i += 1
        if k in seen:
            continue
        seen.add(k)
        prog.append(('add', 0, k))
        if len(seen) in bounds or len(seen) % step_obs == 0:
            prog += [('iter', 0), ('state', 0)]
    prog += [('iter', 0), ('copy', 1, 0), ('iter', 1), ('state', 1)]
    order = sorted(seen)
    # discard a slice (dummies), add fresh keys (free-slot reuse), observe
    for k in rng.sample(order, min(len(order) // 3, 400)):
        prog.append(('discard', 0, k))
    prog += [('iter', 0), ('state', 0), ('copy', 2, 0), ('iter', 2), ('state', 2)]
    for j in range(min(n // 4, 300)):
        prog.append(('add', 0, keyf(i + j)))
    prog += [('iter', 0), ('state', 0)]
    # drain by pop with occasional re-add
    for j in range(min(n, 600)):
        prog.append(('pop', 0))
        if j % 7 == 3:
            prog.append(('add', 0, keyf(rng.randrange(i))))
        if j % 97 == 0:
            prog.append(('iter', 0))
    prog += [('iter', 0), ('state', 0), ('dups', 1, 0), ('iter', 1), ('state', 1), ('dups', 2, 1), ('iter', 2), ('state', 2)]
    return prog


def dict_program(rng, n):
    prog = []
    kind, key = key_source(rng)
    for _ in range(n):
        c = rng.random()
        if c < 0.55:
            prog.append(('dset', 0, key()))
        elif c < 0.8:
            prog.append(('ddel', 0, key()))
        elif c < 0.9:
            prog.append(('dpopitem', 0))
        else:
            prog.append(('dkeys', 0))
    prog.append(('dkeys', 0))
    return prog


def from_dict_programs(rng):
    """set(dict) / update(dict) / update(set) / copy at sizes around every presize boundary"""
    out = []
    for n in [0, 1, 2, 3, 4, 5, 6, 7, 8, 9, 10, 11, 12, 13, 16, 17, 19, 20, 21, 31, 32, 33, 37, 38, 39, 63, 64, 76, 77, 78, 153, 154, 155,
              307, 308, 613, 614, 615, 1228, 1229, 2457, 2458]:
        base = rng.choice([0, 1, 1, 100, -50])
        ks = [base + i * rng.choice([1, 1, 1, 3]) for i in range(n)]
        rng.shuffle(ks)
        ks = list(dict.fromkeys(ks))
        prog = [('new', 0), ('updd', 0, *ks), ('iter', 0), ('state', 0), ('copy', 1, 0), ('iter', 1), ('state', 1),
                ('new', 2), ('updl', 2, *ks), ('iter', 2), ('state', 2), ('new', 3), ('add', 3, 10 ** 9), ('upds', 3, 0), ('iter', 3), ('state', 3),
                ('new', 4), ('add', 4, 7), ('discard', 4, 7), ('upds', 4, 2), ('iter', 4), ('state', 4)]
        for j in range(min(n, 5)):
            prog += [('pop', 0), ('pop', 1)]
        prog += [('dupl', 2, *ks[: (3 * n) // 4]), ('iter', 2), ('state', 2), ('union', 5, 2, 0), ('iter', 5), ('state', 5),
                 ('diff', 6, 1, 2), ('iter', 6), ('inter', 7, 1, 5), ('iter', 7), ('inter', 8, 5, 1), ('iter', 8), ('diff', 9, 5, 6), ('iter', 9), ('state', 9)]
        out.append(prog)
    return out


def programs(rng, quick):
    """(label, program) list"""
    out = []
    for i in range(120 if quick else 600):
        kind, p = random_program(rng, rng.choice([15, 40, 120]), n_regs=rng.choice([1, 2, 3, 4]))
        out.append(('random/' + kind, p))
    for i in range(12 if quick else 60):
        kind, p = random_program(rng, rng.choice([800, 2500]), n_regs=rng.choice([1, 2]), observe_every=rng.choice([37, 101]))
        out.append(('random-long/' + kind, p))
    sizes = [700, 3000] if quick else [700, 3000, 7000, 14000]
    for n in sizes:
        perm = list(range(1, n * 3))
        rng.shuffle(perm)
        for label, f in [('seq', lambda i: i + 1), ('perm', lambda i, perm=perm: perm[i % len(perm)]), ('neg', lambda i: -i - 1),
                         ('stride32', lambda i: 32 * i), ('big', lambda i: 2 ** 61 - 5 + i * 3), ('mod', lambda i: (2 ** 61 - 1) * (i % 5) + i),
                         ('signs', lambda i: (i + 1) * (-1) ** i)]:
            out.append((f'growth/{label}/{n}', growth_program(rng, n, f, 211 if n <= 3000 else 1999)))
    for p in from_dict_programs(rng):
        out.append(('fromdict', p))
    if not quick:
        # the `used > 50000 ? used*2 : used*4` branch of both resize triggers: 120000 keys (262144 slots), a difference_update
        # that leaves 54000 keys behind 66000 dummies (purge -> used*2 -> 131072 slots), then adds up to the next growth
        # boundary (78643 -> used*2 -> 262144 slots; used*4 would give 524288)
        n = 120000
        prog = [('new', 0), ('updl', 0, *range(1, n + 1)), ('state', 0), ('dupl', 0, *range(1, 66001)), ('state', 0), ('pop', 0),
                ('updl', 0, *range(n + 1, n + 24700)), ('state', 0)]
        for k in range(n + 24700, n + 24760):
            prog += [('add', 0, k), ('state', 0)]
        prog += [('pop', 0), ('iter', 0), ('copy', 1, 0), ('state', 1), ('pop', 1)]
        out.append(('growth/over50000', prog))
    for i in range(10 if quick else 40):
        out.append(('dict', dict_program(rng, rng.choice([30, 200]))))
    return out


# ------------------------------------------------------------------------------------------------
# tracing wrapper: the container history of a real run
# ------------------------------------------------------------------------------------------------

FOREIGN = (str, bytes, tuple, type(None))


class Unsupported(Exception):
    pass


class Trace:
    def __init__(self):
        self.prog, self.obs, self.n, self.unsupported, self.sites, self.lost = [], [], 0, [], {}, {}
        self.foreign_discards = 0

    def reg(self):
        self.n += 1
        return self.n - 1

    def op(self, *op, obs=None):
        self.prog.append(op)
        if op[0] in OBSERVING:
            self.obs.append(obs)
        if op[0] in ('pop', 'iter', 'inter', 'interLT', 'interTL', 'dups', 'dupl'):   # which site function issued it
            f = sys._getframe(2)
            for _ in range(6):
                if f is None:
                    break
                if f.f_code.co_name in SITE_NAMES:
                    self.sites[(f.f_code.co_name, op[0])] = self.sites.get((f.f_code.co_name, op[0]), 0) + 1
                    break
                f = f.f_back


def _ints(xs):
    xs = list(xs)
    if not all(type(x) is int for x in xs):
        raise Unsupported('non-int keys')
    return xs


class TSet:
    """wrapper around a REAL set: every operation is performed by the real C implementation on the real object and logged
    as an op of the driver language with what was observed.  `_r` is None once the history can no longer be expressed
    (an operand whose table is unknown, non-int keys): such sets keep working, unlogged."""
    __slots__ = ('_s', '_r', '_t')
    TRACE = None

    def __init__(self, it=(), _wrap=None, _op=None):
        t = self._t = TSet.TRACE
        if _wrap is not None:           # result of a binary operation: adopt the real object
            self._s, self._r = _wrap, None
            if _op is not None:
                try:
                    self._r = t.reg()
                    if _op[0] == 'updl':          # a fresh set filled by successive adds (PySet_New(NULL) + PySet_Add)
                        t.op('new', self._r)
                    t.op(_op[0], self._r, *_op[1:])
                except Unsupported:
                    self._r = None
            return
        self._r = t.reg()
        t.op('new', self._r)
        self._s = set()
        if not (isinstance(it, tuple) and not it):
            self.update(it)

    # -- helpers
    def _lose(self, why):
        if self._r is not None:
            self._t.unsupported.append(why)
            f = sys._getframe(2)       # which local variable of which site function holds this set
            for _ in range(6):
                if f is None:
                    break
                if f.f_code.co_name in SITE_NAMES:
                    names = sorted(n for n, v in f.f_locals.items() if v is self) or ['?']
                    for n in names:
                        key = f'{f.f_code.co_name}:{n}:{why}'
                        self._t.lost[key] = self._t.lost.get(key, 0) + 1
                    break
                f = f.f_back
        self._r = None

    def _log(self, name, *a, obs=None):
        if self._r is not None:
            self._t.op(name, self._r, *a, obs=obs)

    @staticmethod
    def _real(o):
        return o._s if isinstance(o, TSet) else o

    # -- mutation
    def add(self, k):
        self._s.add(k)
        if type(k) is int:
            self._log('add', k)
        else:
            self._lose('non-int key')

    def discard(self, k):
        self._s.discard(k)
        self._log('discard', k) if type(k) is int else self._lose('non-int key')

    def remove(self, k):
        try:
            self._s.remove(k)
            self._log('remove', k, obs='ok')
        except KeyError:
            self._log('remove', k, obs='KeyError')
            raise

    def pop(self):
        try:
            k = self._s.pop()
        except KeyError:
            self._log('pop', obs='KeyError')
            raise
        self._log('pop', obs=str(k))
        return k

    def clear(self):
        self._s.clear()
        self._log('clear')

    def update(self, *others):
        for o in others:
            if isinstance(o, TSet):
                self._s.update(o._s)
                if o._r is None:
                    self._lose('update from an unlogged set')
                else:
                    self._log('upds', o._r)
                continue
            if isinstance(o, (set, frozenset)):
                self._s.update(o)
                if o:
                    self._lose('update from a set whose table is unknown')
                continue
            if type(o) is dict:
                ks = list(o)
                self._s.update(o)
                name = 'updd'
            else:
                ks = list(o)
                self._s.update(ks)
                name = 'updl'
            try:
                self._log(name, *_ints(ks))
            except Unsupported:
                self._lose('non-int keys')

    __ior__ = lambda self, o: (self.update(o), self)[1]

    def difference_update(self, *others):
        for o in others:
            if isinstance(o, TSet):
                self._s.difference_update(o._s)
                if o._r is not None and o is not self:
                    self._log('dups', o._r)
                    continue
                if o is self:
                    self._log('clear')
                    continue
                ks = list(o._s)
            else:
                ks = list(o)
                self._s.difference_update(o if isinstance(o, (set, frozenset, dict)) else ks)
            # keys of a type that never compares equal to an int (e.g. the 'cache' entry `_format_bond` leaves in the dict
            # `_smiles` passes here) cannot be members of an int-only set: discarding them only looks up, the table is untouched
            foreign = [k for k in ks if type(k) in FOREIGN]
            if foreign and self._r is not None:
                self._t.foreign_discards += len(foreign)
                ks = [k for k in ks if type(k) not in FOREIGN]
            try:
                self._log('dupl', *_ints(ks))
            except Unsupported:
                self._lose('non-int keys')

    __isub__ = lambda self, o: (self.difference_update(o), self)[1]

    # -- binary operations (results adopt the real result object)
    def _view(self, o):
        """('r', reg) for a logged TSet, ('L', order) for anything else that is set-like"""
        if isinstance(o, TSet):
            if o._r is not None:
                return 'r', o._r
            return 'L', list(o._s)
        return 'L', list(o)

    def __and__(self, o):
        if not isinstance(o, (TSet, set, frozenset)):
            return NotImplemented
        res = self._s & self._real(o)
        if self._r is None:
            kind, v = self._view(o)
            return TSet(_wrap=res, _op=('interLT', v, *_ints(self._s)) if kind == 'r' else None)
        kind, v = self._view(o)
        return TSet(_wrap=res, _op=('inter', self._r, v) if kind == 'r' else ('interTL', self._r, *_ints(v)))

    def __rand__(self, o):
        if not isinstance(o, (set, frozenset)):
            # a dict view & set: handled by the view's own code (iterates the smaller operand, adds to a fresh set)
            return TSet(_wrap=o & self._s)
        res = o & self._s
        return TSet(_wrap=res, _op=('interLT', self._r, *_ints(o)) if self._r is not None else None)

    def intersection(self, *others):
        if len(others) != 1:
            return TSet(_wrap=self._s.intersection(*[self._real(o) for o in others]))
        o = others[0]
        if isinstance(o, (TSet, set, frozenset)):
            return self & o
        ks = list(o)
        res = self._s.intersection(o if type(o) is dict else ks)
        try:
            return TSet(_wrap=res, _op=('interIt', self._r, *_ints(ks)) if self._r is not None else None)
        except Unsupported:
            return TSet(_wrap=res)

    def __sub__(self, o):
        if not isinstance(o, (TSet, set, frozenset)):
            return NotImplemented
        res = self._s - self._real(o)
        if self._r is None:
            return TSet(_wrap=res)
        kind, v = self._view(o)
        return TSet(_wrap=res, _op=('diff', self._r, v) if kind == 'r' else ('diffTL', self._r, *_ints(v)))

    def __rsub__(self, o):
        return TSet(_wrap=o - self._s)

    def difference(self, *others):
        if len(others) != 1:
            return TSet(_wrap=self._s.difference(*[self._real(o) for o in others]))
        o = others[0]
        if isinstance(o, (TSet, set, frozenset)):
            return self - o
        if type(o) is dict:
            res, ks, name = self._s.difference(o), list(o), 'diffTL'
        else:
            ks = list(o)
            res, name = self._s.difference(ks), 'diffIt'
        try:
            return TSet(_wrap=res, _op=(name, self._r, *_ints(ks)) if self._r is not None else None)
        except Unsupported:
            return TSet(_wrap=res)

    def __or__(self, o):
        if not isinstance(o, (TSet, set, frozenset)):
            return NotImplemented
        res = self._s | self._real(o)
        if self._r is not None and isinstance(o, TSet) and o._r is not None:
            return TSet(_wrap=res, _op=('union', self._r, o._r))
        return TSet(_wrap=res)

    def __ror__(self, o):
        return TSet(_wrap=o | self._s)

    union = lambda self, *o: TSet(_wrap=self._s.union(*[TSet._real(x) for x in o])) if len(o) != 1 or not isinstance(o[0], (TSet, set, frozenset)) else self | o[0]

    def copy(self):
        return TSet(_wrap=self._s.copy(), _op=('copy', self._r) if self._r is not None else None)

    # -- observation
    def __iter__(self):
        self._log('iter', obs=fmt(self._s))
        return iter(self._s)

    def __contains__(self, k):
        r = k in self._s
        if type(k) is int:
            self._log('has', k, obs='1' if r else '0')
        return r

    def __len__(self):
        return len(self._s)

    def __bool__(self):
        return bool(self._s)

    def __eq__(self, o):
        return self._s == self._real(o)

    def __ne__(self, o):
        return self._s != self._real(o)

    __hash__ = None

    def issuperset(self, o):
        return self._s.issuperset(self._real(o))

    def issubset(self, o):
        return self._s.issubset(self._real(o))

    def isdisjoint(self, o):
        return self._s.isdisjoint(self._real(o))

    __le__ = lambda self, o: self._s <= TSet._real(o)
    __ge__ = lambda self, o: self._s >= TSet._real(o)
    __lt__ = lambda self, o: self._s < TSet._real(o)
    __gt__ = lambda self, o: self._s > TSet._real(o)

    def __repr__(self):
        return 'TSet(%r)' % (self._s,)


def _tset_new(it=()):
    # `set(x)` in the traced source: a TSet argument is copied by the real set(...) = set_merge
    if isinstance(it, TSet):
        return TSet(_wrap=set(it._s), _op=('copy', it._r) if it._r is not None else None)
    if isinstance(it, (set, frozenset)):
        return TSet(_wrap=set(it))       # table of the source unknown: unlogged
    return TSet(it)


_KEYS = type({}.keys())


def _tset_and(a, b):
    """`a & b` in the traced source.  Two dict key views: CPython's `_PyDictView_Intersect` fills a fresh set by iterating
    the smaller view (the right one on ties) and adding the keys the other holds — logged as that sequence of adds."""
    r = a & b
    if type(a) is _KEYS and type(b) is _KEYS and type(r) is set and TSet.TRACE is not None:
        so, other = a, b
        if len(other) > len(so):
            so, other = other, so
        try:
            return TSet(_wrap=r, _op=('updl', *_ints([k for k in other if k in so])))
        except Unsupported:
            return TSet(_wrap=r)
    return r


class _Rewrite(ast.NodeTransformer):
    """set displays and set comprehensions build their set by successive adds: route them through the wrapper"""

    def visit_Set(self, node):
        self.generic_visit(node)
        return ast.copy_location(ast.Call(ast.Name('__tset_display__', ast.Load()), [ast.List(node.elts, ast.Load())], []), node)

    def visit_BinOp(self, node):
        self.generic_visit(node)
        if isinstance(node.op, ast.BitAnd):
            return ast.copy_location(ast.Call(ast.Name('__tset_and__', ast.Load()), [node.left, node.right], []), node)
        return node

    def visit_SetComp(self, node):
        self.generic_visit(node)
        return ast.copy_location(ast.Call(ast.Name('__tset_display__', ast.Load()),
                                          [ast.ListComp(node.elt, node.generators)], []), node)


def traced_function(func):
    """the REAL source of `func`, recompiled in a copy of its module globals where `set` is the logging wrapper"""
    src = textwrap.dedent(inspect.getsource(func))
    tree = ast.parse(src)
    fdef = tree.body[0]
    fdef.decorator_list = []
    tree = ast.fix_missing_locations(_Rewrite().visit(tree))
    ns = dict(func.__globals__)
    ns['set'] = _tset_new
    ns['__tset_display__'] = lambda xs: TSet(xs)
    ns['__tset_and__'] = _tset_and
    exec(compile(tree, inspect.getsourcefile(func) or '<traced>', 'exec'), ns)
    return ns[fdef.name]


def unwrap(x):
    """result of a traced function with every wrapper replaced by its real set"""
    if isinstance(x, TSet):
        return x._s
    if isinstance(x, dict):
        return {k: unwrap(v) for k, v in x.items()}
    if isinstance(x, list):
        return [unwrap(v) for v in x]
    if isinstance(x, tuple):
        return tuple(unwrap(v) for v in x)
    return x


# ------------------------------------------------------------------------------------------------
# replay of the reviewed order-sensitive sites: real source, real sets, logged history
# ------------------------------------------------------------------------------------------------

RING_FUNCS = ['_sssr', '_connected_components', '_skin_graph', '_bfs', '_c_set', '_is_condensed_ring', '_rings_filter']
RING_PROPS = ['rings_graph', 'not_special_connectivity']
SITE_NAMES = set(RING_FUNCS) | set(RING_PROPS) | {'_smiles'}


class SitePatch:
    """while active, the site functions of chython.algorithms.rings / smiles are their own source recompiled over TSet"""

    def __enter__(self):
        from functools import cached_property
        from chython.algorithms import rings as R, smiles as SM
        self.saved = []
        ns = dict(R.__dict__)
        ns['set'] = _tset_new
        ns['__tset_display__'] = lambda xs: TSet(xs)
        ns['__tset_and__'] = _tset_and
        self.traced = []
        for name in RING_FUNCS:
            f = getattr(R, name, None)
            if f is None:
                continue
            ns[name] = self._compile(f, ns)
            self.traced.append('rings.' + name)
        for name in RING_FUNCS:
            if name in ns and hasattr(R, name):
                self.saved.append((R, name, getattr(R, name)))
                setattr(R, name, ns[name])
        for name in RING_PROPS:
            cp = R.Rings.__dict__.get(name)
            if isinstance(cp, cached_property):
                new = cached_property(self._compile(cp.func, ns))
                new.__set_name__(R.Rings, name)
                self.saved.append((R.Rings, name, cp))
                setattr(R.Rings, name, new)
                self.traced.append('Rings.' + name)
        f = SM.Smiles.__dict__.get('_smiles')
        if f is not None:
            ns2 = dict(SM.__dict__)
            ns2['set'] = _tset_new
            ns2['__tset_display__'] = lambda xs: TSet(xs)
            ns2['__tset_and__'] = _tset_and
            self.saved.append((SM.Smiles, '_smiles', f))
            setattr(SM.Smiles, '_smiles', self._compile(f, ns2))
            self.traced.append('Smiles._smiles')
        return self

    @staticmethod
    def _compile(func, ns):
        src = textwrap.dedent(inspect.getsource(func))
        tree = ast.parse(src)
        fdef = tree.body[0]
        fdef.decorator_list = []
        tree = ast.fix_missing_locations(_Rewrite().visit(tree))
        loc = {}
        exec(compile(tree, inspect.getsourcefile(func) or '<traced>', 'exec'), ns, loc)
        return loc[fdef.name]

    def __exit__(self, *a):
        for obj, name, old in reversed(self.saved):
            setattr(obj, name, old)
        TSet.TRACE = None


def site_outputs(m):
    """what the reviewed sites feed, with the iteration order of every returned set kept"""
    def sets(x):
        x = unwrap(x)
        if isinstance(x, (set, frozenset)):
            return list(x)
        if isinstance(x, dict):
            return [(k, sets(v)) for k, v in x.items()]
        if isinstance(x, (list, tuple)):
            return [sets(v) for v in x]
        return x
    return {'canon': str(m), 'components': sets(m.connected_components), 'sssr': sets(m.sssr),
            'rings_graph': sets(m.rings_graph), 'skin_graph': sets(m.skin_graph),
            'ring_atoms': [(n, a.in_ring, sorted(a.ring_sizes)) for n, a in m.atoms()],
            'smiles_order': list(m.smiles_atoms_order)}


def reviewed_key_kinds():
    """(function short name, variable) -> 'int' | 'intTuple' from the reviewed list Spec/SetSites.lean"""
    import re
    from ..core import LEAN
    txt = (LEAN / 'ChythonModel' / 'Spec' / 'SetSites.lean').read_text()
    body = txt[txt.index('def reviewedSetSiteKeys'):]
    return {(f.split('.')[-1], v): k for _, f, v, k in re.findall(r'\("([^"]+)", "([^"]+)", "([^"]+)", \.(\w+)\)', body)}


def replay_sites(smi):
    """-> (trace, traced functions, outputs of the unpatched run, outputs of the traced run)"""
    from chython import smiles
    real = site_outputs(smiles(smi))
    with SitePatch() as p:
        t = TSet.TRACE = Trace()
        traced = site_outputs(smiles(smi))
    return t, p.traced, real, traced
