"""C15 — reactions: role-preserving I/O, order-free identity, exact condensed graph (proof).

Model: lean/ChythonModel/Model/C15Compose.lean (MoleculeContainer.compose, Graph.union/remap, ReactionContainer.compose,
DynamicElement.from_atom(s), DynamicBond, CGRContainer.center_atoms), Model/C15Format.lean (ReactionContainer.__format__,
CGRSmiles._format_atom/_format_bond over regenerated string tables), Model/C15Read.lean (reaction branch of
files/daylight/smiles.py: CXSMILES fragment/radical parsing, role split, fragment contraction).
Model/C15Radicals.lean (CXSMILES radical block on reading: findall(cx_radicals), index resolution over the parsed molecules),
Model/C15Mapping.lean (files/_mapping.py: postprocess_parsed_reaction incl. remap / ignore options).
Theorems: lean/ChythonModel/Props/C15.lean.  Tie: K (differential testing of the driver against the real chython on
reactions assembled from corpus molecules by ground-truth edits) + G (regenerated dyn_* string tables).
"""
import itertools
import json

from .. import core, molgen, wire

LEVEL = 'proof'
LEVEL_TEXT = ('The clauses about the condensed graph (bond/atom specification, dynamic <=> sides differ, identical sides have no '
              'centre, equivariance under consistent renumbering), about the reaction signature (invariance under permutation '
              'inside a role) and about reading back the written role partition are universally quantified Lean theorems over an '
              'executable model that mirrors compose / union / center_atoms / ReactionContainer.__format__ / the reaction branch '
              'of smiles() incl. the CXSMILES radical block (write -> read restores the is_radical flag of every atom) / '
              'postprocess_parsed_reaction (mapping repair: clean maps untouched, injective per role, remap=True is one '
              'injective renumbering); the model is tied to today\'s source by differential testing on generated reactions and by string '
              'tables regenerated from /repo. Proof is the right level because these functions are small, first-order and '
              'purely structural; canonical numbering (Morgan) and the molecule-level SMILES writer are NOT in this model '
              '(C01/C02) and enter only as named hypotheses / run-time relational checks.')
LEVEL_NOTE = ('Lean kernel; hand-written model validated by correspondence (not a proof about the Python text); the molecule '
              'parser enters the radical read-back theorems only through its atom count per molecule string (hypothesis checked at '
              'run time); the reader is observed where postprocess_parsed_reaction is called (module-level name wrapped for one '
              'call); CPython set '
              'iteration order is a parameter of the model (theorems hold for every order); molecule-level SMILES strings are '
              'taken from the real writer; harness canonicalisers; gen_c15 table translator.')
TECHNIQUE = 'Lean 4 theorems over an executable model of compose/union/format/read/radical block/mapping repair + differential testing against the real code'
RULE = ('reactions assembled from corpus / handmade molecules: 1-3 molecules per side merged with disjoint numbers, product side '
        'derived by 0-4 ground-truth edits (bond cleaved / formed / order changed, charge changed, radical toggled), components '
        'regrouped into 0-3 molecules per role incl. empty roles and multi-component salts, optional reagents (colliding '
        'numbers exercise remap), optional leaving groups (unbalanced), element/isotope clashes (error branch), all '
        'role-internal orders (<= 6 per role), consistent renumberings; reaction texts with generated CXSMILES radical / fragment '
        'blocks (valid, out of range, colliding, several blocks, junk) over plain and atom-mapped fragments; parsed mapping '
        'records (clean, gaps, duplicates, reagent overlap, unbalanced; exhaustive small domain) with all reader options; '
        'unions of 1-4 molecules with colliding numberings; a case is non-trivial when it has >= 1 atom; distinct by '
        '(stream, canonical request line)')
TRUSTED = ['hand-written models Model/C15*.lean (validated by K, not verified against the Python text)',
           'harness/gen/gen_c15.py translator of the dyn_* / charge_str / organic_set tables',
           'harness canonicalisation of CGRContainer / ReactionContainer (sorting of what came from a set)']
ASSUMPTIONS = ['Bond.order in {1,2,3,4,8} (class invariant enforced by Bond.__init__)',
               '_bonds[n] is a dict: neighbour keys unique; adjacency symmetric, no loops (Mol.WF; checked by the driver per input)',
               'the molecule parser yields the atoms of a written molecule string in the written order (hypothesis hn of '
               'rxn_read_write_radicals; checked on every molecule of the fmt stream)',
               'molecule-level strings (MoleculeContainer.__format__), connected_components_count and Morgan order are outside '
               'this model: they are read from the real code and enter theorems as hypotheses']
HAS_DRIVER = True
EXTRA_MODULES = []
FINDINGS_MODULE = 'ChythonModel.Findings.C15'

_state = {}


# ------------------------------------------------------------------------------------------------
# generate
# ------------------------------------------------------------------------------------------------

def generate(ctx):
    from ..gen import gen_c15
    return [gen_c15.generate()]


# ------------------------------------------------------------------------------------------------
# raw molecules (plain data) and builders
# ------------------------------------------------------------------------------------------------

class Raw:
    """atoms: {n: [z, iso|None, charge, radical]}, bonds: {(n, m) n<m: order} — plain ground-truth data."""

    def __init__(self, atoms=None, bonds=None):
        self.atoms = dict(atoms or {})
        self.bonds = dict(bonds or {})

    def copy(self):
        return Raw({n: list(a) for n, a in self.atoms.items()}, dict(self.bonds))

    @staticmethod
    def of(mol):
        r = Raw()
        for n, a in mol.atoms():
            r.atoms[n] = [a.atomic_number, a.isotope, a.charge, a.is_radical]
        for n, m, b in mol.bonds():
            r.bonds[(min(n, m), max(n, m))] = b.order
        return r

    def nbrs(self, n):
        return [b if a == n else a for (a, b) in self.bonds if n in (a, b)]

    def components(self):
        seen, out = set(), []
        adj = {n: [] for n in self.atoms}
        for a, b in self.bonds:
            adj[a].append(b)
            adj[b].append(a)
        for n in self.atoms:
            if n in seen:
                continue
            comp, st = {n}, [n]
            while st:
                x = st.pop()
                for y in adj[x]:
                    if y not in comp:
                        comp.add(y)
                        st.append(y)
            seen |= comp
            out.append(comp)
        return out

    def sub(self, ns):
        ns = set(ns)
        return Raw({n: list(a) for n, a in self.atoms.items() if n in ns},
                   {k: o for k, o in self.bonds.items() if k[0] in ns and k[1] in ns})

    def renamed(self, f):
        return Raw({f[n]: list(a) for n, a in self.atoms.items()},
                   {(min(f[a], f[b]), max(f[a], f[b])): o for (a, b), o in self.bonds.items()})

    def merged(self, other):
        assert not (self.atoms.keys() & other.atoms.keys())
        return Raw({**self.atoms, **other.atoms}, {**self.bonds, **other.bonds})


def build(raw, rng=None, labels=True):
    """MoleculeContainer with exactly these atoms/bonds; dict insertion orders shuffled when rng is given."""
    from chython import MoleculeContainer
    from chython.containers.bonds import Bond
    from chython.periodictable import Element
    mol = MoleculeContainer()
    ns = list(raw.atoms)
    bs = list(raw.bonds.items())
    if rng is not None:
        rng.shuffle(ns)
        rng.shuffle(bs)
    for n in ns:
        z, iso, ch, rad = raw.atoms[n]
        mol._atoms[n] = Element.from_atomic_number(z)(iso, charge=ch, is_radical=bool(rad))
        mol._bonds[n] = {}
    for (a, b), o in bs:
        if rng is not None and rng.random() < 0.5:
            a, b = b, a
        mol._bonds[a][b] = mol._bonds[b][a] = Bond(o)
    if labels:
        try:
            mol.fix_structure()
        except Exception:
            mol.calc_labels()
    return mol


_pool = {}


def pool(rng, quick):
    """corpus + handmade molecules (aromatic form, as parsed) as Raw, small enough for many reactions per second."""
    key = 'q' if quick else 't'
    if key not in _pool:
        import random
        r0 = random.Random(12345)
        ms = [m for _, m in molgen.handmade()]
        ms += [m for _, m in molgen.corpus(r0, 150 if quick else 900)]
        raws = []
        for m in ms:
            if len(m) > 28:
                continue
            try:
                m.thiele()     # aromaticity normalised: canonical strings are compared only in that form (C01)
            except Exception:
                pass
            raws.append(Raw.of(m))
        _pool[key] = raws
    return _pool[key]


ORDERS = (1, 1, 1, 2, 2, 3, 4, 8)


def gen_reaction(rng, raws):
    """A reaction as ground-truth data. Returns dict with role lists of Raw, merged sides R/P and the edit list."""
    k = rng.choice((1, 1, 2, 2, 3))
    R = Raw()
    nxt = rng.choice((1, 1, 1, 5, 40))
    for _ in range(k):
        m = rng.choice(raws)
        ids = list(m.atoms)
        f = {n: nxt + i for i, n in enumerate(ids)}
        nxt += len(ids) + rng.choice((0, 0, 3))
        R = R.merged(m.renamed(f))
    P = R.copy()
    edits = []
    ns = list(P.atoms)
    for _ in range(rng.choice((0, 1, 1, 2, 2, 3, 4))):
        kind = rng.choice(('cleave', 'form', 'order', 'charge', 'radical', 'form', 'cleave'))
        if kind == 'cleave' and P.bonds:
            b = rng.choice(sorted(P.bonds))
            del P.bonds[b]
            edits.append(('cleave', b))
        elif kind == 'form' and len(ns) > 1:
            a, b = sorted(rng.sample(ns, 2))
            if (a, b) not in P.bonds:
                P.bonds[(a, b)] = rng.choice(ORDERS)
                edits.append(('form', (a, b)))
        elif kind == 'order' and P.bonds:
            b = rng.choice(sorted(P.bonds))
            P.bonds[b] = rng.choice([o for o in (1, 2, 3, 4, 8) if o != P.bonds[b]])
            edits.append(('order', b))
        elif kind == 'charge' and ns:
            n = rng.choice(ns)
            P.atoms[n][2] = max(-4, min(4, P.atoms[n][2] + rng.choice((-1, 1, 1, 2))))
            edits.append(('charge', n))
        elif kind == 'radical' and ns:
            n = rng.choice(ns)
            P.atoms[n][3] = not P.atoms[n][3]
            edits.append(('radical', n))
    # unbalanced: leaving group / new group, clashes
    flavour = rng.choice(('balanced',) * 6 + ('leaving', 'coming', 'both', 'clash_z', 'clash_iso', 'identical'))
    if flavour in ('leaving', 'both'):
        comps = P.components()
        if len(comps) > 1:
            drop = rng.choice(comps)
            P = P.sub(set(P.atoms) - drop)
        elif len(P.atoms) > 2:
            drop = set(rng.sample(sorted(P.atoms), rng.randint(1, min(3, len(P.atoms) - 1))))
            P = P.sub(set(P.atoms) - drop)
    if flavour in ('coming', 'both'):
        m = rng.choice(raws)
        f = {n: nxt + i for i, n in enumerate(m.atoms)}
        nxt += len(m.atoms)
        extra = m.renamed(f)
        P = P.merged(extra)
        if P.atoms and R.atoms and rng.random() < 0.7:
            a = rng.choice(sorted(set(R.atoms) & set(P.atoms)) or sorted(P.atoms))
            b = rng.choice(sorted(extra.atoms))
            if a != b:
                P.bonds[(min(a, b), max(a, b))] = rng.choice(ORDERS)
    if flavour == 'clash_z' and P.atoms:
        n = rng.choice(sorted(P.atoms))
        P.atoms[n][0] = 7 if P.atoms[n][0] != 7 else 8
        P.atoms[n][1] = None
    if flavour == 'clash_iso' and P.atoms:
        n = rng.choice(sorted(P.atoms))
        z = P.atoms[n][0]
        P.atoms[n][1] = {6: 13, 7: 15, 8: 18, 1: 2}.get(z, P.atoms[n][1])
    if flavour == 'identical':
        P = R.copy()
    return {'R': R, 'P': P, 'edits': edits, 'flavour': flavour, 'next': nxt}


def split_roles(rng, side, max_mols=3):
    """Group the connected components of a merged side into <= max_mols molecules (multi-component = salt)."""
    comps = side.components()
    if not comps:
        return []
    rng.shuffle(comps)
    k = rng.randint(1, min(max_mols, len(comps)))
    groups = [set() for _ in range(k)]
    for i, c in enumerate(comps):
        groups[i if i < k else rng.randrange(k)] |= c
    return [side.sub(g) for g in groups]


# ------------------------------------------------------------------------------------------------
# canonical renderings (must agree with Drivers/C15.lean)
# ------------------------------------------------------------------------------------------------

def _o(x):
    return 0 if x is None else x


def atom_str(n, a):
    return f'{n} {a.atomic_number} {a.isotope or 0} {a.charge} {a.p_charge} {int(a.is_radical)} {int(a.p_is_radical)}'


def cgr_canon(h):
    atoms = sorted(h._atoms.items())
    bonds = sorted((n, m, b) for n, mb in h._bonds.items() for m, b in mb.items() if n < m)
    sym = all(h._bonds.get(m, {}).get(n) == b for n, mb in h._bonds.items() for m, b in mb.items())
    return ('ok A %d %s B %d %s C %s %s' % (
        len(atoms), ' '.join(atom_str(n, a) for n, a in atoms), len(bonds),
        ' '.join(f'{n} {m} {_o(b.order)} {_o(b.p_order)}' for n, m, b in bonds),
        ' '.join(map(str, sorted(h.center_atoms))), 'sym' if sym else 'ASYM'))


def cgr_exact(h):
    return ('ok A %d %s R %s' % (
        len(h._atoms), ' '.join(atom_str(n, a) for n, a in h._atoms.items()),
        ' '.join(f'{n} {len(mb)}' + ''.join(f' {m} {_o(b.order)} {_o(b.p_order)}' for m, b in mb.items())
                 for n, mb in h._bonds.items())))


def norm(s):
    return ' '.join(s.split())


def outcome(f):
    try:
        return f()
    except Exception as e:
        return 'err ' + type(e).__name__


# ------------------------------------------------------------------------------------------------
# correspondence
# ------------------------------------------------------------------------------------------------

class Stream:
    def __init__(self, ctx, name):
        self.ctx, self.name = ctx, name
        self.reqs, self.exp, self.meta = [], [], []
        self.render = None        # optional: driver answer -> rendering comparable with the real side

    def add(self, req, expected, meta, nontrivial=True):
        self.reqs.append(req)
        self.exp.append(norm(expected))
        self.meta.append(meta)
        self.ctx.count((self.name, req), nontrivial)

    def run(self):
        ctx = self.ctx
        if not self.reqs or not ctx.build_ok:
            return []
        got = core.run_driver('C15', self.reqs)
        bad = []
        if len(got) != len(self.reqs):
            ctx.broke('correspondence', self.name, f'driver returned {len(got)} lines for {len(self.reqs)} requests')
            return bad
        for req, e, g, meta in zip(self.reqs, self.exp, got, self.meta):
            g = norm(g)
            if self.render is not None:
                g = norm(self.render(g))
            if g.startswith('bad'):
                ctx.dist(f'{self.name}:rejected-by-driver')
            if e != g:
                bad.append((req, e, g, meta))
        ctx.cov['comparisons'] = ctx.cov.get('comparisons', 0) + len(self.reqs)
        ctx.cov['disagreements_checked'] += len(bad)
        return bad


def correspond(ctx):
    from ..gen import pyx2py
    pyx2py.install()
    rng = ctx.rng
    raws = pool(rng, ctx.quick)
    n_rxn = 400 if ctx.quick else 6000
    s_comp, s_exact, s_rxn = Stream(ctx, 'compose'), Stream(ctx, 'composeWith'), Stream(ctx, 'rxn')
    ctx.cov['programs'] = 0
    programs = set()
    cases = []
    for i in range(n_rxn):
        g = gen_reaction(rng, raws)
        cases.append(g)
        ctx.dist('flavour:' + g['flavour'])
        ctx.dist('edits:%d' % len(g['edits']))
        r, p = build(g['R'], rng, labels=False), build(g['P'], rng, labels=False)
        # 1. MoleculeContainer.compose / __xor__
        line = wire.mol_to_line(r) + ' ' + wire.mol_to_line(p)
        real = outcome(lambda: r ^ p)
        s_comp.add('compose ' + line, real if isinstance(real, str) else cgr_canon(real), {'case': i},
                   nontrivial=bool(g['R'].atoms or g['P'].atoms))
        programs.update(('MoleculeContainer.compose', 'DynamicElement.from_atom', 'DynamicElement.from_atoms',
                         'DynamicBond.__init__', 'DynamicBond.from_bond', 'CGRContainer.center_atoms',
                         'DynamicElement.is_dynamic', 'DynamicBond.is_dynamic'))
        ctx.dist('compose:' + (real if isinstance(real, str) else 'ok'))
        # 1b. exact dict order under the set iteration orders observed on this interpreter
        common = r._atoms.keys() & p._atoms.keys()
        ls, fs, cs = list(r._atoms.keys() - common), list(p._atoms.keys() - common), list(common)
        s_exact.add('composeWith %d %s %d %s %d %s %s' % (len(ls), ' '.join(map(str, ls)), len(fs), ' '.join(map(str, fs)),
                                                          len(cs), ' '.join(map(str, cs)), line),
                    real if isinstance(real, str) else cgr_exact(real), {'case': i})
        if i < 3:
            ctx.sample({'stream': 'compose', 'flavour': g['flavour'], 'edits': [list(map(str, e)) for e in g['edits']],
                        'reactant_atoms': len(g['R'].atoms), 'product_atoms': len(g['P'].atoms),
                        'real': (real if isinstance(real, str) else cgr_canon(real))[:160]})
        # 2. ReactionContainer.compose on role lists (reagents may collide -> remap)
        rs, ps = split_roles(rng, g['R']), split_roles(rng, g['P'])
        ags = []
        for _ in range(rng.choice((0, 0, 1, 2))):
            m = rng.choice(raws)
            start = rng.choice((1, g['next'] + 1, g['next'] + 1))
            ags.append(m.renamed({n: start + j for j, n in enumerate(m.atoms)}))
        if rng.random() < 0.08:
            rs = []
        if rng.random() < 0.08:
            ps = []
        g['roles'] = (rs, ags, ps)
        mols = [[build(x, rng) for x in role] for role in (rs, ags, ps)]
        if not any(mols):
            continue
        from chython import ReactionContainer
        rx = ReactionContainer(mols[0], mols[2], mols[1])
        req = 'rxn %d %d %d %s' % (len(mols[0]), len(mols[1]), len(mols[2]),
                                   ' '.join(wire.mol_to_line(m) for role in mols for m in role))
        real = outcome(lambda: rx.compose())
        s_rxn.add(req, real if isinstance(real, str) else cgr_canon(real), {'case': i})
        after = ' '.join(wire.mol_to_line(m) for role in (rx.reactants, rx.reagents, rx.products) for m in role)
        if norm(after) != norm(req.split(' ', 4)[4]) and not _state.get('mutation_reported'):
            # observation changed the observed object: a history on which the signature / read-back clauses fail
            res = oracle_history(g['roles'], rng, first=('compose',))
            if res:
                _state['mutation_reported'] = True
                ctx.fail(res[0], res[1], {'kind': 'history', 'roles': [[raw_json(x) for x in role] for role in g['roles']],
                                          'ops': res[2]})
        programs.update(('ReactionContainer.compose', 'Graph.union', 'Graph.remap'))
        ctx.dist('rxn:roles=%d/%d/%d' % tuple(min(len(x), 3) for x in mols))
        ctx.dist('rxn:' + (real if isinstance(real, str) else 'ok'))
    small_exhaustive(ctx, s_comp, s_exact)
    _state['cases'] = cases
    _state['union_reported'] = False
    s_union = Stream(ctx, 'union')
    union_stream(ctx, rng, raws, s_union, programs)
    s_fmt, s_read, s_tok, s_hash = Stream(ctx, 'fmt'), Stream(ctx, 'read'), Stream(ctx, 'tokens'), Stream(ctx, 'hash')
    format_and_read(ctx, rng, raws, cases, s_fmt, s_read, programs)
    cgr_tokens(ctx, rng, s_tok, programs)
    hash_stream(ctx, s_hash, programs)
    s_rad, s_map = Stream(ctx, 'readrad'), Stream(ctx, 'mapfix')
    s_rad.render = readrad_model
    radicals_and_mapping(ctx, rng, cases, s_rad, s_map, programs, _state.get('written', []))
    renumbering(ctx, rng, cases)
    mirror_states(ctx, rng)
    mutator_histories(ctx, rng, raws, programs)
    disagreements = []
    for s, primary in ((s_comp, True), (s_rxn, True), (s_fmt, True), (s_read, True), (s_tok, True), (s_rad, True), (s_map, True), (s_union, True),
                       (s_exact, False), (s_hash, False)):
        bad = s.run()
        if bad and primary:
            ctx.broke('correspondence', s.name, json.dumps([{'request': b[0][:3000], 'real': b[1][:1500], 'model': b[2][:1500]}
                                                            for b in bad[:3]]))
            disagreements += [(s.name, b) for b in bad]
        elif bad:
            # exact dict order / hash values are private observation points (DESIGN §10): recorded, never an alarm on their own
            # (what the property needs from them is checked on the real code: `composeWith` by `compose`, `hash` by `mirror`)
            ctx.notes.append(f'{s.name}: {len(bad)} differences (secondary stream), first: '
                             + json.dumps({'real': bad[0][1][:300], 'model': bad[0][2][:300]}))
        ctx.dist(f'{s.name}:disagreements', len(bad))
    _state['disagreements'] = disagreements
    ctx.cov['programs'] = len(programs)



def oracle_union(raws_):
    """`reduce(or_, mols)` (the left / right side of `~reaction`) keeps every atom and every molecule: as many atoms as the
    operands have together, and the same multiset of connected components — whatever the numberings (real code only)"""
    from functools import reduce
    from operator import or_
    ms = [build(x) for x in raws_]
    try:
        u = reduce(or_, ms)
    except Exception as e:
        return 'C15/union/raises/' + type(e).__name__, f'union of molecules numbered {[sorted(x.atoms) for x in raws_]} raised {e}'
    if len(u) != sum(len(m) for m in ms):
        return ('C15/union/atoms-lost', f'union of molecules numbered {[sorted(x.atoms) for x in raws_]} has {len(u)} atoms, the '
                f'operands {sum(len(m) for m in ms)}')
    want = sorted(k for m in ms for k in mol_key(m))
    got = sorted(mol_key(u))
    if want != got:
        return 'C15/union/molecules', f'union of molecules numbered {[sorted(x.atoms) for x in raws_]} is {got}, operands {want}'
    return None


def gen_union_raws(rng, small):
    k = rng.choice((1, 2, 2, 2, 3, 3, 4))
    out = []
    for _ in range(k):
        m = rng.choice(small)
        kind = rng.choice(('one', 'one', 'random', 'block', 'far'))
        ids = list(m.atoms)
        if kind == 'one':
            f = {n: 1 + j for j, n in enumerate(ids)}
        elif kind == 'random':
            f = dict(zip(ids, rng.sample(range(1, 3 * len(ids) + 8), len(ids))))
        elif kind == 'block':
            st = rng.randint(1, 15)
            f = {n: st + j for j, n in enumerate(ids)}
        else:
            st = rng.randint(30, 60)
            f = {n: st + 2 * j for j, n in enumerate(ids)}
        out.append(m.renamed(f))
    return out


def union_stream(ctx, rng, raws, s_union, programs):
    """`reduce(or_, mols)` = Graph.union(remap=True) on 1-4 molecules whose numberings are disjoint, overlap partly or
    coincide (remap relative to max of the left operand), compared in exact dict order"""
    from functools import reduce
    from operator import or_
    small = [x for x in raws if len(x.atoms) <= 12]
    for i in range(300 if ctx.quick else 4000):
        rs_ = gen_union_raws(rng, small)
        k = len(rs_)
        ms = [build(x, rng) for x in rs_]
        if i % 3 == 0:
            res = oracle_union(rs_)
            ctx.count(('relational', 'union', i))
            if res and not _state.get('union_reported'):
                _state['union_reported'] = True
                ctx.fail(res[0], res[1], {'kind': 'union', 'mols': [raw_json(x) for x in rs_]})
        collide = any(set(a._atoms) & set(b._atoms) for a, b in itertools.combinations(ms, 2))
        req = 'union %d %s' % (k, ' '.join(wire.mol_to_line(m) for m in ms))
        real = outcome(lambda: 'ok ' + wire.mol_to_line(reduce(or_, ms)))
        s_union.add(norm(req), real, {'union': i})
        ctx.dist('union:collision=%d' % collide)
        ctx.dist('union:k=%d' % k)
    programs.update(('Graph.union', 'Graph.remap', 'Graph.__or__'))


def bond_state_grid():
    """(R, P) for every pair of states (order on the reactant side, order on the product side) over {absent, 1, 2, 3, 4, 8} of
    the bond 1-2: alone (N, Cu: ligand association / dissociation) and next to an unchanged bond 2-3"""
    orders = (None, 1, 2, 3, 4, 8)
    for o in orders:
        for p in orders:
            for third in (False, True):
                for z1, z2 in ((6, 6), (7, 29)):
                    atoms = {1: [z1, None, 0, False], 2: [z2, None, 0, False]}
                    rb, pb = ({(1, 2): o} if o else {}), ({(1, 2): p} if p else {})
                    if third:
                        atoms[3] = [8, None, 0, False]
                        rb[(2, 3)] = pb[(2, 3)] = 1
                    yield Raw(atoms, rb), Raw({n: list(a) for n, a in atoms.items()}, pb)


def small_exhaustive(ctx, s_comp, s_exact):
    """every pair of sides over atoms {1,2,3}: any atom subset per side, every bond-order assignment from {none, 1, 2} on the
    pairs inside the subset (40 sides -> 1600 ordered pairs), product atom 1 neutral or charged: all six atom/bond
    categories of compose in every combination on three atoms"""
    sides = []
    for mask in range(8):
        atoms = [a for a in (1, 2, 3) if mask >> (a - 1) & 1]
        pairs = list(itertools.combinations(atoms, 2))
        for orders in itertools.product((0, 1, 2), repeat=len(pairs)):
            sides.append(Raw({a: [6, None, 0, False] for a in atoms}, {p: o for p, o in zip(pairs, orders) if o}))
    n = 0
    for R in sides:
        for P0 in sides:
            for ch in ((0, 1) if 1 in P0.atoms and 1 in R.atoms else (0,)):
                P = P0.copy()
                if ch:
                    P.atoms[1][2] = ch
                r, p = build(R, labels=False), build(P, labels=False)
                line = wire.mol_to_line(r) + ' ' + wire.mol_to_line(p)
                real = outcome(lambda: r ^ p)
                s_comp.add('compose ' + line, real if isinstance(real, str) else cgr_canon(real), {'small': n},
                           nontrivial=bool(R.atoms or P.atoms))
                n += 1
    ctx.dist('compose:small-exhaustive-3-atoms', n)
    # every pair of bond states (all orders incl. aromatic 4 and coordinate 8, absent) on X-Y and on X-Y-Z next to an unchanged bond
    m = 0
    for R, P in bond_state_grid():
        r, p = build(R, labels=False), build(P, labels=False)
        real = outcome(lambda: r ^ p)
        s_comp.add('compose ' + wire.mol_to_line(r) + ' ' + wire.mol_to_line(p), real if isinstance(real, str) else cgr_canon(real),
                   {'grid': m})
        m += 1
    ctx.dist('compose:bond-state-grid-exhaustive', m)


# ------------------------------------------------------------------------------------------------
# reaction signature / reading back
# ------------------------------------------------------------------------------------------------

SPECS = ('', '', '!c', '!x', 'm', 'h', '!s', 'A', '!z!b', 'm!c', '!x!c', 'am')
FRAGS = ['C', 'O', 'N', 'CC', 'CO', 'CN', '[Na+]', '[Cl-]', '[K+]', '[OH-]', 'c1ccccc1', 'C=O', 'C#N', 'OO', 'CCC', 'S',
         'Cl', 'Br', 'CS', 'NN', 'CCO', 'c1ccncc1', '[NH4+]', 'FC', 'P']


def cps(text):
    return ' '.join(str(ord(c)) for c in text)


def sig_of(m, spec):
    """what ReactionContainer.__format__ takes from a molecule"""
    s, o = m.__format__(spec, _return_order=True)
    return s, m.connected_components_count, [bool(m.atom(n).is_radical) for n in o]


def fmt_request(rx, spec):
    parts = ['fmt', str(int('!c' in spec)), str(int('!x' in spec)), str(len(rx.reactants)), str(len(rx.reagents)),
             str(len(rx.products))]
    ok = True
    for m in rx.molecules():
        s, nc, rad = sig_of(m, spec)
        ok = ok and (s.count('.') + 1 == nc)
        # hypotheses WrittenOK / no whitespace of the read-back theorems: components non-empty, no '>' and no blank inside
        ok = ok and bool(s) and all(s.split('.')) and '>' not in s and not any(c.isspace() for c in s)
        if not spec or spec == '!c':
            # hypothesis `hn` of rxn_read_write_radicals: the parser yields the atoms of the written string in the written order
            els = piece_atoms(s)
            _, o = m.__format__(spec, _return_order=True)
            ok = ok and els is not None and list(els) == [m.atom(n).atomic_symbol for n in o]
        parts.append(f'{len(s)} {cps(s)} {nc} {len(rad)} ' + ' '.join(str(int(r)) for r in rad))
    return norm(' '.join(parts)), ok


_sigcache = {}


def mol_skeleton(m):
    """radical / hydrogen independent identity of a molecule: heavy-atom multiset and number of components"""
    return (tuple(sorted(a.atomic_number for _, a in m.atoms())), m.connected_components_count)


def str_skeleton(text):
    from chython import smiles
    if text not in _sigcache:
        try:
            _sigcache[text] = mol_skeleton(smiles(text))
        except Exception as e:
            _sigcache[text] = 'unparsable:' + type(e).__name__
    return _sigcache[text]


def read_real(text):
    from chython import smiles, ReactionContainer
    try:
        r = smiles(text)
    except Exception as e:
        return 'err ' + type(e).__name__
    if not isinstance(r, ReactionContainer):
        return 'mol'
    # the order of molecules inside a role is not fixed by the property: compared as a multiset
    return repr([sorted(mol_skeleton(m) for m in role) for role in (r.reactants, r.reagents, r.products)])


def read_model(line):
    """driver answer -> same rendering as read_real (fragments re-parsed by the real molecule parser)"""
    if not line.startswith('ok R'):
        return line
    xs = line.split()
    i, roles = 1, []
    for tag in ('R', 'A', 'P'):
        assert xs[i] == tag, line
        k = int(xs[i + 1])
        i += 2
        role = []
        for _ in range(k):
            n = int(xs[i])
            role.append(''.join(chr(int(c)) for c in xs[i + 1:i + 1 + n]))
            i += 1 + n
        roles.append(role)
    return repr([sorted(str_skeleton(t) for t in role) for role in roles])


def gen_read_text(rng, frs=None):
    """reaction text with a (possibly malformed) CXSMILES fragment block; fragments have distinct heavy-atom formulas"""
    frs = rng.sample(FRAGS, len(FRAGS)) if frs is None else frs
    counts = [rng.choice((0, 1, 1, 2, 2, 3, 4)) for _ in range(3)]
    roles, k = [], 0
    for c in counts:
        roles.append(frs[k:k + c])
        k += c
    mc = k
    flavour = rng.choice(('writer', 'writer', 'writer', 'anygroups', 'anygroups', 'cross', 'range', 'collision', 'nocx',
                          'dots', 'arrows', 'junk', 'unsorted'))
    groups = []
    if flavour in ('writer', 'dots', 'junk', 'unsorted'):
        i = 0
        for c in counts:
            end = i + c
            while i < end:
                size = rng.choice((1, 1, 2, 2, 3))
                if size > 1 and i + size <= end:
                    groups.append(list(range(i, i + size)))
                i += size
    elif flavour == 'anygroups' and mc:
        pool_ = list(range(mc))
        rng.shuffle(pool_)
        while len(pool_) >= 2 and rng.random() < 0.7:
            size = rng.choice((2, 2, 3))
            g, pool_ = pool_[:size], pool_[size:]
            if len(g) >= 2:
                groups.append(sorted(g))
    elif flavour == 'cross' and mc >= 2:
        groups.append(sorted(rng.sample(range(mc), 2)))
        if mc >= 4:
            rest = [x for x in range(mc) if x not in groups[0]]
            groups.append(sorted(rng.sample(rest, 2)))
    elif flavour == 'range':
        groups.append([rng.randrange(mc + 1), mc + rng.randint(0, 3)])
        if mc >= 2 and rng.random() < 0.5:
            groups.insert(0, [0, 1])
    elif flavour == 'collision' and mc >= 2:
        a, b = rng.sample(range(mc), 2)
        groups += [[a, b], [b, (b + 1) % mc] if mc > 2 else [a, b]]
    if flavour == 'unsorted':
        groups = [rng.sample(g, len(g)) for g in groups]
        rng.shuffle(groups)
    smi = '>'.join('.'.join(r) for r in roles)
    if flavour == 'dots' and mc:
        # empty pieces are ignored by the reader but shift nothing (indices count non-empty pieces)
        smi = smi.replace('.', rng.choice(('..', '.')), 1)
        if rng.random() < 0.5:
            smi = '.' + smi if not smi.startswith('>') else smi
    if flavour == 'arrows':
        smi = rng.choice((smi.replace('>', '', 1), smi + '>', smi.replace('>', '>>', 1)))
    f = 'f:' + ','.join('.'.join(('0' * rng.choice((0, 0, 0, 1))) + str(x) for x in g) for g in groups) if groups else ''
    if flavour == 'nocx' or not f:
        cx = rng.choice(('', '', ' |f:|', ' |f:1|', ' ||', ' |', ' |f:0.|'))
    elif flavour == 'junk':
        cx = ' ' + rng.choice(('|%s|', '|$;;$,%s|', '|%s,x|', '|ff:%s|', '|%s,,1.2|', '|c:1,%s|', '|f:9,%s|', '|%s', '%s|',
                               '|%s,2|', '|%s.|', '|%s,7.|')) % f
    else:
        cx = ' |%s|' % f
    return smi + cx, flavour


def format_and_read(ctx, rng, raws, cases, s_fmt, s_read, programs):
    from chython import ReactionContainer, smiles
    n_fmt = 250 if ctx.quick else 2500
    _state['written'] = []
    small = [x for x in raws if len(x.atoms) <= 14]
    assumption_breaks = 0
    for i in range(n_fmt):
        # reactions of chemically untouched molecules (so that every string can be read back) + salts + radical ties
        roles = random_roles(rng, small)
        if not any(roles):
            continue
        mols = [[build(x, rng) for x in role] for role in roles]
        rx = ReactionContainer(mols[0], mols[2], mols[1])
        for spec in rng.sample(SPECS, 3):
            try:
                req, ok = fmt_request(rx, spec)
                real = 'ok ' + cps(format(rx, spec))
            except Exception as e:
                ctx.dist('fmt:real-raises:' + type(e).__name__)
                continue
            assumption_breaks += not ok
            s_fmt.add(req, real, {'fmt_case': i, 'spec': spec})
            ctx.dist('fmt:spec=' + (spec or "''"))
        programs.update(('ReactionContainer.__format__',))
        ctx.dist('fmt:roles=%d/%d/%d' % tuple(len(x) for x in mols))
        # relational (real code only): permutation inside roles, write -> read
        res = oracle_perm(mols) or oracle_roundtrip(mols)
        ctx.count(('relational', i, 'perm+roundtrip'))
        if res:
            ctx.fail(res[0], res[1], {'kind': 'roles', 'roles': [[raw_json(x) for x in role] for role in roles]})
        # histories: every observer gives on a used object what it gives on a fresh one
        res = oracle_history(roles, rng)
        ctx.count(('relational', i, 'history'))
        if res:
            ctx.fail(res[0], res[1], {'kind': 'history', 'roles': [[raw_json(x) for x in role] for role in roles], 'ops': res[2]})
        # what the writer wrote is read by the model of the reader as well
        text = format(rx)
        s_read.add('read ' + cps(text), read_real(text), {'text': text, 'flavour': 'written'})
        _state.setdefault('written', []).append(text)
        if i < 2:
            ctx.sample({'stream': 'fmt/read', 'text': text})
    if assumption_breaks:
        ctx.broke('relational', 'signature-dots-vs-components',
                  f'{assumption_breaks} molecules whose signature has a number of dots different from components - 1, or whose '
                  f'signature is parsed to other atoms / another atom order than the writer enumerated')
    n_read = 1500 if ctx.quick else 20000
    for i in range(n_read):
        text, flavour = gen_read_text(rng)
        s_read.add('read ' + cps(text), read_real(text), {'text': text, 'flavour': flavour})
        ctx.dist('read:' + flavour)
        if i < 2:
            ctx.sample({'stream': 'read', 'text': text, 'real': read_real(text)[:200]})
    programs.update(('smiles() reaction branch', 're.search(cx_fragments)'))
    # the model answers with strings; render them like the real side
    orig_run = s_read.run

    def run():
        ctx_ = s_read.ctx
        if not s_read.reqs or not ctx_.build_ok:
            return []
        got = core.run_driver('C15', s_read.reqs)
        bad = []
        for req, e, g, meta in zip(s_read.reqs, s_read.exp, got, s_read.meta):
            g2 = norm(read_model(norm(g)))
            ctx_.dist('read:outcome:' + (e.split()[0] if e.startswith(('err', 'mol')) else 'roles'))
            if norm(e) != g2:
                bad.append((req, e, g2, meta))
        ctx_.cov['comparisons'] = ctx_.cov.get('comparisons', 0) + len(s_read.reqs)
        ctx_.cov['disagreements_checked'] += len(bad)
        return bad
    s_read.run = run


# ------------------------------------------------------------------------------------------------
# reading: CXSMILES radical block (`^1:`) and atom-to-atom mapping repair (postprocess_parsed_reaction)
# ------------------------------------------------------------------------------------------------

MAPPED_FRAGS = ['[CH4:1]', '[CH3:2][OH:3]', '[Na+:1]', '[CH3:1][CH3:1]', '[OH2:5]', '[CH3:7]C', '[NH3:2]', '[CH3:4][CH2:5][OH:6]',
                '[CH3:3]O', '[Cl-:9]', '[CH2:2]=[CH2:1]', '[CH3:6][NH2:6]', '[OH2:12]', '[CH4:0]', '[K+:3]']


def _smiles_module():
    import sys
    import chython  # noqa: F401  (the package attribute of the same name is the function, not the module)
    return sys.modules['chython.files.daylight.smiles']


_atomcount = {}


def piece_atoms(x):
    """element symbols of the atoms the real molecule parser yields for one molecule string (None: not parsable)"""
    if x not in _atomcount:
        from chython.files.daylight.parser import parser
        from chython.files.daylight.tokenize import smiles_tokenize
        try:
            _atomcount[x] = tuple(a['element'] for a in parser(smiles_tokenize(x), False)['atoms'])
        except Exception:
            _atomcount[x] = None
    return _atomcount[x]


def piece_table(text):
    """(piece, atom count) for every non-empty `.`-piece of the first token; None if a piece is not parsable"""
    toks = text.split()
    pieces = sorted({x for role in (toks[0] if toks else '').split('>') for x in role.split('.') if x})
    tbl = []
    for x in pieces:
        a = piece_atoms(x)
        if a is None:
            return None
        tbl.append((x, len(a)))
    return tbl


def read_real_hooked(text, **kw):
    """smiles(text) on the real code with an observation point at the call of postprocess_parsed_reaction:
    -> (outcome, parsed record before mapping repair, mapping stage (request data, result))"""
    from chython import ReactionContainer
    S = _smiles_module()
    cap = {}
    orig = S.postprocess_parsed_reaction

    def hook(data, **k):
        roles = ('reactants', 'reagents', 'products')
        cap['rec'] = [[([a['element'] for a in m['atoms']], len(m['atoms']),
                        [i for i, a in enumerate(m['atoms']) if a.get('is_radical')]) for m in data[r]] for r in roles]
        cap['maps_in'] = {r: [[a.get('parsed_mapping') or 0 for a in m['atoms']] for m in data[r]] for r in roles}
        cap['kw'] = dict(k)
        try:
            res = orig(data, **k)
        except Exception as e:
            cap['maps_out'] = 'err ' + type(e).__name__
            raise
        cap['maps_out'] = {r: [list(m['mapping']) for m in data[r]] for r in roles}
        return res
    S.postprocess_parsed_reaction = hook
    try:
        r = S.smiles(text, **kw)
    except Exception as e:
        return 'err ' + type(e).__name__, cap
    finally:
        S.postprocess_parsed_reaction = orig
    if not isinstance(r, ReactionContainer):
        return 'mol', cap
    cap['result'] = r
    return repr(cap['rec']), cap


def _take_strs(xs, i):
    k = int(xs[i])
    i += 1
    out = []
    for _ in range(k):
        n = int(xs[i])
        out.append(''.join(chr(int(c)) for c in xs[i + 1:i + 1 + n]))
        i += 1 + n
    return out, i


def _take_flags(xs, i):
    k = int(xs[i])
    i += 1
    out = []
    for _ in range(k):
        n = int(xs[i])
        i += 1
        idx = []
        while xs[i] != ';':
            idx.append(int(xs[i]))
            i += 1
        i += 1
        out.append((n, idx))
    return out, i


def readrad_model(line):
    """driver answer of `readrad` -> the rendering of read_real_hooked (molecule strings re-parsed by the real parser)"""
    if not line.startswith('ok R'):
        return line
    xs = line.split()
    i, strs, flags = 1, [], []
    for tag in ('R', 'A', 'P'):
        assert xs[i] == tag, line
        role, i = _take_strs(xs, i + 1)
        strs.append(role)
    for tag in ('FR', 'FA', 'FP'):
        assert xs[i] == tag, line
        role, i = _take_flags(xs, i + 1)
        flags.append(role)
    out = []
    for ss, ff in zip(strs, flags):
        if len(ss) != len(ff):
            return 'model: %d molecules but %d flag lists' % (len(ss), len(ff))
        out.append([(list(piece_atoms(t) or ('?',)), n, idx) for t, (n, idx) in zip(ss, ff)])
    return repr(out)


def lists_line(ls):
    return '%d %s' % (len(ls), ' '.join('%d %s' % (len(m), ' '.join(map(str, m))) for m in ls))


def mapfix_request(remap, ignore, R, P, A):
    return norm('mapfix %d %d %d %d %d %s %s %s' % (int(remap), int(ignore), len(R), len(P), len(A),
                                                    ' '.join('%d %s' % (len(m), ' '.join(map(str, m))) for m in R),
                                                    ' '.join('%d %s' % (len(m), ' '.join(map(str, m))) for m in P),
                                                    ' '.join('%d %s' % (len(m), ' '.join(map(str, m))) for m in A)))


def mapfix_line(out):
    if isinstance(out, str):
        return out
    return 'ok R %s P %s A %s' % (lists_line(out['reactants']), lists_line(out['products']), lists_line(out['reagents']))


def mapfix_real(remap, ignore, R, P, A, rng=None):
    """postprocess_parsed_reaction on plain parsed-record data"""
    from chython.files._mapping import postprocess_parsed_reaction

    def atom(m):
        if m:
            return {'parsed_mapping': m}
        k = rng.randrange(3) if rng is not None else 0
        return ({'parsed_mapping': None}, {'parsed_mapping': 0}, {})[k]
    data = {k: [{'atoms': [atom(m) for m in mol], 'log': []} for mol in role]
            for k, role in (('reactants', R), ('products', P), ('reagents', A))}
    try:
        postprocess_parsed_reaction(data, remap=remap, ignore=ignore)
    except Exception as e:
        return 'err ' + type(e).__name__
    return {k: [list(m['mapping']) for m in data[k]] for k in ('reactants', 'products', 'reagents')}


def gen_rad_block(rng, total):
    """a CXSMILES radical part for a text with `total` atoms -> (text of the part, flavour)"""
    fl = rng.choice(('valid', 'valid', 'valid', 'valid', 'range', 'collision', 'multi', 'badclass', 'junk', 'zeros', 'empty'))
    k = rng.randint(1, max(1, min(4, total)))
    idx = sorted(rng.sample(range(total), min(k, total))) if total else []
    num = lambda x: ('0' * rng.choice((0, 0, 0, 1, 2)) if fl == 'zeros' else '') + str(x)
    if fl == 'range' or not idx:
        idx = idx + [total + rng.randint(0, 3)]
        rng.shuffle(idx)
    if fl == 'collision':
        idx = idx + [rng.choice(idx)]
        rng.shuffle(idx)
    if fl == 'valid' and rng.random() < 0.3:
        rng.shuffle(idx)
    if fl == 'multi' and len(idx) > 1:
        c = rng.randint(1, len(idx) - 1)
        return '^%d:%s,^%d:%s' % (rng.randint(1, 7), ','.join(map(num, idx[:c])), rng.randint(1, 7), ','.join(map(num, idx[c:]))), fl
    if fl == 'badclass':
        return '^%s:%s' % (rng.choice(('8', '0', '9', '', '11', 'x')), ','.join(map(num, idx))), fl
    if fl == 'junk':
        return rng.choice(('^1:%s,', '^1:,%s', '^1%s', '^^1:%s', '^1:%s.5', '^1:%s,,3', 'x^1:%s', '^1:%s^1:0', '^1: %s', '1:%s',
                           '^1:%sf')) % ','.join(map(num, idx)), fl
    if fl == 'empty':
        return rng.choice(('^1:', '^1', '^')), fl
    return '^%d:%s' % (rng.choice((1, 1, 1, 2, 3, 7)), ','.join(map(num, idx))), fl


def gen_rad_text(rng):
    """reaction text (plain or atom-mapped fragments, any fragment block of gen_read_text) with a radical part"""
    mapped = rng.random() < 0.4
    frs = None
    if mapped:
        frs = [rng.choice(MAPPED_FRAGS + FRAGS[:6]) for _ in range(12)]
    text, f1 = gen_read_text(rng, frs)
    smi, _, cx = text.partition(' ')
    tbl = piece_table(text) or []
    cnt = dict(tbl)
    total = sum(cnt.get(x, 0) for role in smi.split('>') for x in role.split('.') if x)
    part, f2 = gen_rad_block(rng, total)
    if rng.random() < 0.12:
        part, f2 = '', 'noradicals'
    if cx.startswith('|') and cx.endswith('|') and len(cx) >= 2:
        inner = cx[1:-1]
        parts = [x for x in ((part, inner) if rng.random() < 0.7 else (inner, part)) if x]
        cx = '|' + ','.join(parts) + '|'
    elif not cx and part:
        cx = rng.choice(('|%s|', '|%s|', '|%s|', '|%s', '%s|', '|$;$,%s|')) % part
    elif part and rng.random() < 0.5:
        cx = cx + part
    return (smi + ' ' + cx).rstrip(), f1, f2, mapped


def oracle_mapping_text(text, remap=False):
    """What reading promises about atom numbers, on the real code only: inside every role all atoms carry different
    numbers, reagents share no number with reactants or products, and (remap=False) an atom whose written map number is
    positive, occurs once in its role and - for a reagent - is not used among reactants / products keeps that number."""
    from chython import smiles, ReactionContainer
    from chython.files.daylight.parser import parser
    from chython.files.daylight.tokenize import smiles_tokenize
    try:
        r = smiles(text, remap=remap)
    except Exception:
        return None
    if not isinstance(r, ReactionContainer):
        return None
    roles = {'reactants': r.reactants, 'reagents': r.reagents, 'products': r.products}
    nums = {k: [n for m in v for n in m] for k, v in roles.items()}
    call = f'smiles({text!r}{", remap=True" if remap else ""})'
    for k, v in nums.items():
        if len(v) != len(set(v)):
            return 'C15/mapping/not-injective', f'{call}: atom numbers of the {k} are not pairwise different: {v}'
    bad = set(nums['reagents']) & (set(nums['reactants']) | set(nums['products']))
    if bad:
        return 'C15/mapping/reagent-overlap', f'{call}: reagents share the numbers {sorted(bad)} with reactants / products'
    if remap:
        # remap=True must be a CONSISTENT renumbering of the reaction read without it: one injective map for all roles,
        # numbers 1..n without gaps, hence the same condensed graph
        try:
            r0 = smiles(text)
        except Exception:
            return None
        f = {}
        for m0, m1 in zip(r0.molecules(), r.molecules()):
            if len(m0) != len(m1):
                return 'C15/mapping/remap-atoms', f'smiles({text!r}, remap=True) has molecules of different size'
            for a, b in zip(m0, m1):
                if f.setdefault(a, b) != b:
                    return ('C15/mapping/remap-inconsistent', f'smiles({text!r}, remap=True): atom {a} of the reaction read without '
                            f'remap becomes {f[a]} in one role and {b} in another ({format(r0, "m")} -> {format(r, "m")})')
        if len(set(f.values())) != len(f):
            return 'C15/mapping/remap-not-injective', f'smiles({text!r}, remap=True) merges atom numbers: {f}'
        if f and set(f.values()) != set(range(1, len(f) + 1)):
            return 'C15/mapping/remap-gaps', f'smiles({text!r}, remap=True) leaves gaps: {sorted(f.values())}'
        try:
            h0 = ~r0
        except ValueError:
            return None
        try:
            h1 = ~r
        except ValueError as e:
            return 'C15/mapping/remap-cgr', f'smiles({text!r}, remap=True) cannot be composed: {e}'
        if cgr_string_key(h0) != cgr_string_key(h1) or sorted(f[n] for n in h0.center_atoms) != sorted(h1.center_atoms):
            return 'C15/mapping/remap-cgr', f'smiles({text!r}, remap=True) has condensed graph {h1} instead of {h0}'
        return None
    # written maps, from the text alone (a text without fragment block: molecule k of a role is its k-th piece)
    toks = text.split()
    if len(toks) != 1 or toks[0].count('>') != 2:
        return None
    written = {}
    for k, part in zip(('reactants', 'reagents', 'products'), toks[0].split('>')):
        written[k] = []
        for x in part.split('.'):
            if x:
                try:
                    written[k].append([a.get('parsed_mapping') or 0 for a in parser(smiles_tokenize(x), False)['atoms']])
                except Exception:
                    return None
    core = {m for k in ('reactants', 'products') for mol in written[k] for m in mol if m}
    for k in roles:
        flat = [m for mol in written[k] for m in mol]
        got = nums[k]
        if len(flat) != len(got):
            return None
        for i, (w, g) in enumerate(zip(flat, got)):
            if w and flat.count(w) == 1 and not (k == 'reagents' and w in core) and w != g:
                return ('C15/mapping/changed', f'smiles({text!r}): atom {i} of the {k} is written with map {w} (unique in its role) '
                        f'but is numbered {g}')
    return None


def oracle_written_text(text):
    """a text the writer produced reads back to a reaction that is written as the same text (real code only)"""
    from chython import smiles
    try:
        back = smiles(text)
    except Exception as e:
        return 'C15/read-write/raises/' + type(e).__name__, f'{text!r} cannot be read back: {type(e).__name__}: {e}'
    a = role_strings([back.reactants, back.reagents, back.products])
    try:
        again = smiles(format(back))
    except Exception as e:
        return 'C15/read-write/raises/' + type(e).__name__, f'{format(back)!r} cannot be read back: {type(e).__name__}: {e}'
    b = role_strings([again.reactants, again.reagents, again.products])
    if a != b:
        return 'C15/read-write/roles', f'{text!r} read, written and read again gives {b} instead of {a}'
    return None


def text_from_maps(R, A, P):
    """a reaction text whose parsed records carry exactly these map numbers (0 = unmapped)"""
    def mol(ms):
        return ''.join('[CH2:%d]' % m if m else 'C' for m in ms)
    return '>'.join('.'.join(mol(m) for m in role if m) for role in (R, A, P))


def gen_mapped_text(rng):
    """reaction text of small atom-mapped molecules; `clean`: a consistent complete mapping (must come back unchanged)"""
    fl = rng.choice(('clean', 'clean', 'unbalanced', 'unbalanced', 'partial', 'dups', 'reagent-overlap', 'random', 'random'))
    def mol(ms):
        return ''.join('[%s:%d]' % (rng.choice(('CH2', 'NH', 'O', 'S')), m) if m else rng.choice(('C', 'N', 'O')) for m in ms)
    def cut(ms):
        out = []
        while ms:
            k = rng.randint(1, 3)
            out.append(ms[:k])
            ms = ms[k:]
        return out
    n = rng.randint(1, 6)
    base = rng.sample(range(1, 12), n)
    R, P = list(base), rng.sample(base, n)
    A = rng.sample(range(12, 20), rng.choice((0, 0, 1, 2)))
    if fl == 'unbalanced':
        # leaving / incoming groups: one side lacks some numbers of the other (often the highest ones), gaps anywhere
        base = sorted(rng.sample(range(1, 16), rng.randint(2, 7)))
        cutp = rng.randint(1, len(base))
        R, P = list(base), (base[:cutp] if rng.random() < 0.6 else rng.sample(base, cutp))
        if rng.random() < 0.3:
            R, P = P, R
        if rng.random() < 0.3:
            P = P + rng.sample(range(16, 22), rng.randint(1, 2))
        A = rng.sample(range(12, 26), rng.choice((0, 0, 1, 2)))
        A = [a for a in A if a not in R and a not in P]
    elif fl == 'partial':
        R = [m if rng.random() < 0.6 else 0 for m in R]
        P = [m if rng.random() < 0.6 else 0 for m in P]
        A = [m if rng.random() < 0.5 else 0 for m in A]
    elif fl == 'dups':
        for side in (R, P):
            if len(side) > 1 and rng.random() < 0.7:
                side[rng.randrange(len(side))] = rng.choice(side)
    elif fl == 'reagent-overlap':
        A = A + [rng.choice(base)] + ([rng.choice(base)] if rng.random() < 0.3 else [])
    elif fl == 'random':
        R = [rng.randint(0, 5) for _ in range(rng.randint(0, 5))]
        P = [rng.randint(0, 5) for _ in range(rng.randint(0, 5))]
        A = [rng.randint(0, 6) for _ in range(rng.randint(0, 3))]
    text = '>'.join('.'.join(mol(m) for m in cut(role)) for role in (R, A, P))
    return text, fl


def radicals_and_mapping(ctx, rng, cases, s_rad, s_map, programs, written):
    """streams `readrad` (text -> role strings + is_radical flags of the parsed atoms, observed where
    postprocess_parsed_reaction is called) and `mapfix` (postprocess_parsed_reaction: direct calls on generated and
    exhaustively enumerated small records, and the calls made by smiles() on generated texts)"""
    def add_text(text, meta, **kw):
        tbl = piece_table(text)
        if tbl is None:
            ctx.dist('readrad:unparsable-piece')
            return
        real, cap = read_real_hooked(text, **kw)
        if not kw or kw == {'ignore': False}:
            strict = bool(kw)
            if strict and 'rec' in cap:
                # the model ends where postprocess_parsed_reaction is called: later stages of the strict mode (MappingError,
                # valence errors of create_reaction) are not its subject; the emptiness check of ReactionContainer is
                real = repr(cap['rec']) if any(cap['rec']) else 'err ValueError'
            req = 'readrad %d %d %s %d %s' % (int(not strict), len(text), cps(text), len(tbl),
                                              ' '.join('%d %s %d' % (len(x), cps(x), n) for x, n in tbl))
            s_rad.add(norm(req), real, dict(meta, text=text, strict=strict))
            ctx.dist('readrad:outcome:' + (real.split()[0] if real.startswith(('err', 'mol')) else 'roles'))
            ctx.dist('readrad:ignore=%s' % (not strict))
        if 'maps_in' in cap:
            mi, k = cap['maps_in'], cap['kw']
            s_map.add(mapfix_request(k.get('remap', False), k.get('ignore', True), mi['reactants'], mi['products'], mi['reagents']),
                      mapfix_line(cap['maps_out']), dict(meta, text=text, via='smiles', remap=bool(k.get('remap'))))
            ctx.dist('mapfix:via-smiles')
    for text in written:
        add_text(text, {'flavour': 'written'})
    n_rad = 1200 if ctx.quick else 15000
    for i in range(n_rad):
        text, f1, f2, mapped = gen_rad_text(rng)
        add_text(text, {'flavour': f'{f1}/{f2}'})
        if i % 4 == 0:
            add_text(text, {'flavour': f'{f1}/{f2}/strict'}, ignore=False)
        ctx.dist('readrad:radicals=' + f2)
        ctx.dist('readrad:mapped=%d' % mapped)
        if i < 2:
            ctx.sample({'stream': 'readrad', 'text': text, 'real': read_real_hooked(text)[0][:200]})
    n_txt = 500 if ctx.quick else 6000
    for i in range(n_txt):
        text, fl = gen_mapped_text(rng)
        kw = rng.choice(({}, {}, {'remap': True}, {'ignore': False}, {'remap': True, 'ignore': False}))
        add_text(text, {'flavour': 'mapped/' + fl}, **kw)
        ctx.dist('mapfix:text=' + fl)
        res = oracle_mapping_text(text, remap=False) or oracle_mapping_text(text, remap=True)
        ctx.count(('relational', 'mapping-text', i))
        if res:
            ctx.fail(res[0], res[1], {'kind': 'mapping-text', 'text': text, 'remap': 'remap' in res[0]})
        if fl == 'clean' and i < 2:
            ctx.sample({'stream': 'mapfix', 'text': text})
    # direct calls: generated records
    n_map = 2500 if ctx.quick else 40000
    for i in range(n_map):
        fl = rng.choice(('small-range', 'small-range', 'clean', 'gaps', 'zeros', 'wide'))
        hi = {'small-range': 5, 'clean': 30, 'gaps': 14, 'zeros': 4, 'wide': 60}[fl]
        roles = []
        for r in range(3):
            role = []
            for _ in range(rng.choice((0, 1, 1, 2, 3))):
                k = rng.randint(1, 5)
                if fl == 'clean':
                    role.append([0] * k)
                else:
                    role.append([rng.choice((0, rng.randint(1, hi))) if fl != 'zeros' else rng.choice((0, 0, rng.randint(1, hi)))
                                 for _ in range(k)])
            roles.append(role)
        if fl == 'clean':
            nums = rng.sample(range(1, hi + 40), sum(len(m) for role in roles for m in role) + 1)
            if rng.random() < 0.5:          # no gaps: remap=True is the identity too
                nums = list(range(1, len(nums) + 1))
                rng.shuffle(nums)
            own = {0: [], 1: [], 2: []}
            for r in range(3):
                for m in roles[r]:
                    for j in range(len(m)):
                        m[j] = nums.pop()
                        own[r].append(m[j])
            # products re-use the reactant numbers where possible (a complete consistent mapping)
            pool_ = list(own[0])
            rng.shuffle(pool_)
            for m in roles[1]:
                for j in range(len(m)):
                    if pool_:
                        m[j] = pool_.pop()
        remap, ignore = rng.random() < 0.4, rng.random() < 0.75
        R, P, A = roles
        s_map.add(mapfix_request(remap, ignore, R, P, A), mapfix_line(mapfix_real(remap, ignore, R, P, A, rng)),
                  {'flavour': fl, 'via': 'direct', 'text': text_from_maps(R, A, P), 'remap': remap})
        ctx.dist('mapfix:' + fl)
    # direct calls: every record with one molecule of <= 2 atoms per role over a small alphabet (with a gap), all options
    alphabet = (0, 1, 3) if ctx.quick else (0, 1, 2, 4)
    mols = [[]] + [[a] for a in alphabet] + [[a, b] for a in alphabet for b in alphabet]
    n = 0
    for r in mols:
        for p in mols:
            for a in mols:
                for remap in (False, True):
                    for ignore in (True, False):
                        R, P, A = ([r] if r else []), ([p] if p else []), ([a] if a else [])
                        s_map.add(mapfix_request(remap, ignore, R, P, A), mapfix_line(mapfix_real(remap, ignore, R, P, A)),
                                  {'flavour': 'exhaustive', 'via': 'direct', 'text': text_from_maps(R, A, P), 'remap': remap},
                                  nontrivial=bool(r or p or a))
                        n += 1
    ctx.dist('mapfix:small-exhaustive', n)
    programs.update(('smiles() radical block', 're.findall(cx_radicals)', 'postprocess_parsed_reaction'))


def mol_key(m):
    """a molecule as the multiset of the signatures of its connected components (the order of the components inside the
    signature of a multi-component molecule is a tie-break of the molecule writer, C01 — not compared here)"""
    m = m.copy()
    try:
        m.thiele()      # signatures are canonical only once aromaticity is normalised (C01)
    except Exception:
        pass
    if m.connected_components_count > 1:
        return tuple(sorted(str(c) for c in m.split()))
    return (str(m),)


def cgr_tokens(ctx, rng, s_tok, programs):
    """CGRSmiles._format_atom / _format_bond on single-atom / single-bond CGRs: exhaustive bond grid, atom grid"""
    from chython import CGRContainer
    from chython.containers.bonds import DynamicBond
    from chython.periodictable import DynamicElement, Element
    orders = (None, 1, 2, 3, 4, 8)
    for o in orders:
        for p in orders:
            b = object.__new__(DynamicBond)
            b._order, b._p_order = o, p
            h = CGRContainer()
            h._atoms = {1: None, 2: None}
            h._bonds = {1: {2: b}, 2: {1: b}}
            s_tok.add(f'btok {_o(o)} {_o(p)}', outcome(lambda: 'ok ' + h._format_bond(1, 2, {})), {'bond': (o, p)})
    zs = list(range(1, 119))
    grid = []
    for z in zs:                       # every element, plain / isotope / a few marks
        mdl = Element.from_atomic_number(z).mdl_isotope.fget(None)
        grid += [(z, 0, 0, 0, False, False), (z, mdl, 0, 0, False, False), (z, 0, 1, 1, False, False),
                 (z, 0, 0, -1, False, True), (z, mdl, 2, 0, True, True)]
    charges = range(-4, 5)
    for z in ((6, 7, 8, 11, 17, 26) if ctx.quick else zs[::3]):
        for c in charges:
            for pc in charges:
                for r, pr in ((False, False), (True, False), (False, True), (True, True)):
                    if ctx.quick and r != pr and (c, pc) != (0, 0) and rng.random() < 0.6:
                        continue
                    grid.append((z, 0, c, pc, r, pr))
    grid += [(6, 0, 5, 0, False, False), (6, 0, 0, -5, False, False), (7, 15, 4, -4, True, False)]
    for z, iso, c, pc, r, pr in grid:
        a = object.__new__(DynamicElement.from_atomic_number(z))
        a._isotope, a._charge, a._p_charge, a._is_radical, a._p_is_radical = iso or None, c, pc, r, pr
        h = CGRContainer()
        h._atoms = {1: a}
        h._bonds = {1: {}}
        s_tok.add(f'atok {z} {iso} {c} {pc} {int(r)} {int(pr)}', outcome(lambda: 'ok ' + h._format_atom(1, {})), {'atom': (z, iso, c, pc, r, pr)})
    ctx.dist('tokens:bond-grid-exhaustive', 36)
    ctx.dist('tokens:atom-grid', len(grid))
    programs.update(('CGRSmiles._format_atom', 'CGRSmiles._format_bond'))


def cgr_string_key(h):
    # components of a multi-component signature are ordered by a tie-break of the writer (C01): compare as a multiset
    return sorted(str(h).split('.'))


def oracle_renumber(R, P, f, rng=None):
    """str(CGR) must not depend on a consistent renumbering of both sides (real code only)."""
    try:
        h1 = build(R, rng, labels=False) ^ build(P, rng, labels=False)
    except ValueError:
        return None
    h2 = build(R.renamed(f), rng, labels=False) ^ build(P.renamed(f), rng, labels=False)
    try:
        k1, k2 = cgr_string_key(h1), cgr_string_key(h2)
    except Exception as e:
        return 'C15/cgr-string/raises/' + type(e).__name__, f'str(CGR) raised {type(e).__name__}: {e}'
    if k1 != k2:
        # the same tie of the canonical numbering on a single side is C01's recorded gap, not a CGR matter
        for side in (R, P):
            if side.atoms:
                try:
                    a, b = build(side), build(side.renamed(f))
                    if sorted(str(a).split('.')) != sorted(str(b).split('.')):
                        return 'inherited', 'molecule-level signature already numbering dependent (C01)'
                except Exception:
                    pass
        return 'C15/cgr-string/renumbering', f'{".".join(k1)!r} vs renumbered {".".join(k2)!r}'
    if sorted(f[n] for n in h1.center_atoms) != sorted(h2.center_atoms):
        return 'C15/centre/renumbering', f'centre {sorted(h1.center_atoms)} maps to {sorted(h2.center_atoms)} under {f}'
    return None


def minus_one_tie(R, P):
    """the reaction has two atoms whose (charge, p_charge) differ only by -1 <-> -2 (known hash tie)"""
    sts = set()
    for n in set(R.atoms) | set(P.atoms):
        a, b = R.atoms.get(n), P.atoms.get(n)
        a, b = a or b, b or a
        sts.add((a[2], b[2]))
    f = lambda st: tuple(-2 if x == -1 else x for x in st)
    return any(x != y and f(x) == f(y) for x in sts for y in sts)


def renumbering(ctx, rng, cases):
    for i, g in enumerate(cases):
        ids = sorted(set(g['R'].atoms) | set(g['P'].atoms))
        if not ids:
            continue
        f = dict(zip(ids, rng.sample(range(1, 3 * len(ids) + 5), len(ids))))
        res = oracle_renumber(g['R'], g['P'], f, rng)
        ctx.count(('relational', 'renumber', i))
        if res and res[0] == 'inherited':
            ctx.dist('renumber:inherited-C01-tie')
        elif res:
            sig = res[0]
            if sig == 'C15/cgr-string/renumbering' and minus_one_tie(g['R'], g['P']):
                sig = KNOWN_MINUS_ONE
            ctx.fail(sig, res[1], {'kind': 'renumber', 'R': raw_json(g['R']), 'P': raw_json(g['P']),
                                   'map': {str(k): v for k, v in f.items()}})
        else:
            ctx.dist('renumber:invariant')


def role_strings(mols):
    return [sorted(mol_key(m) for m in role) for role in mols]


def oracle_perm(mols, limit=6):
    """format(reaction) must not depend on the order of molecules inside a role (real code only)"""
    from chython import ReactionContainer
    import itertools as it
    base = None
    perms = [list(it.islice(it.permutations(role), limit)) or [()] for role in mols]
    for pr in perms[0]:
        for pa in perms[1]:
            for pp in perms[2]:
                rx = ReactionContainer([m.copy() for m in pr], [m.copy() for m in pp], [m.copy() for m in pa])
                s = format(rx)
                if base is None:
                    base = s
                elif s != base:
                    return 'C15/format/role-order', f'signature depends on the order inside a role: {base!r} vs {s!r}'
    return None


def oracle_roundtrip(mols):
    """smiles(format(reaction)) restores the role partition and the molecules (real code only)"""
    from chython import ReactionContainer, smiles
    rx = ReactionContainer(mols[0], mols[2], mols[1])
    text = format(rx)
    try:
        back = smiles(text)
    except Exception as e:
        return 'C15/read-write/raises/' + type(e).__name__, f'{text!r} cannot be read back: {type(e).__name__}: {e}'
    if not isinstance(back, ReactionContainer):
        return 'C15/read-write/not-a-reaction', f'{text!r} read back as {type(back).__name__}'
    want = role_strings([rx.reactants, rx.reagents, rx.products])
    got = role_strings([back.reactants, back.reagents, back.products])
    if want != got:
        which = [n for n, a, b in zip(('reactants', 'reagents', 'products'), want, got) if a != b]
        return 'C15/read-write/roles', f'{text!r} read back with different {"/".join(which)}: {got} (written from {want})'
    return None


# ------------------------------------------------------------------------------------------------
# histories: observers must not change what later observers see
# ------------------------------------------------------------------------------------------------

OBSERVERS = ('format', 'format!c', 'formatm', 'str', 'compose', 'centre', 'hash', 'copy', 'molstr', 'molhash', 'eq', 'len',
             'roundtrip', 'flush_keep')


def observe(rx, op, k=0):
    """one observation of a reaction object, rendered as a comparable value"""
    from chython import smiles
    if op == 'format':
        return format(rx, '')
    if op == 'format!c':
        return format(rx, '!c')
    if op == 'formatm':
        return format(rx, 'm')
    if op == 'str':
        return str(rx)
    if op == 'compose':
        return outcome(lambda: cgr_canon(~rx))
    if op == 'centre':
        return outcome(lambda: repr(sorted((~rx).center_atoms)))
    if op == 'hash':
        return hash(rx)
    if op == 'copy':
        return format(rx.copy(), '')
    if op == 'molstr':
        ms = list(rx.molecules())
        return str(ms[k % len(ms)])
    if op == 'molhash':
        ms = list(rx.molecules())
        return hash(ms[k % len(ms)])
    if op == 'eq':
        return rx == rx.copy()
    if op == 'len':
        return (len(rx), [len(m) for m in rx.molecules()])
    if op == 'roundtrip':
        return repr(role_strings([rx.reactants, rx.reagents, rx.products])) + repr(outcome(lambda: role_strings(
            [(b := smiles(format(rx, ''))).reactants, b.reagents, b.products])))
    if op == 'flush_keep':
        rx.flush_cache(keep_molecule_cache=True)
        return None
    raise ValueError(op)


def fresh_rxn(roles):
    from chython import ReactionContainer
    mols = [[build(x) for x in role] for role in roles]
    return ReactionContainer(mols[0], mols[2], mols[1])


def oracle_history(roles, rng, first=(), length=5):
    """Apply a random sequence of observers to ONE reaction object; every observation must equal the same observation of a
    freshly assembled reaction (observers are pure: signature, roles and molecules do not depend on what was asked before)."""
    if not any(roles):
        return None
    rx = fresh_rxn(roles)
    ops = [(o, 0) for o in first] + [(rng.choice(OBSERVERS), rng.randrange(6)) for _ in range(length)]
    ops.append((rng.choice(('format', 'roundtrip', 'copy')), 0))
    done = []
    for op, k in ops:
        done.append([op, k])
        try:
            got = observe(rx, op, k)
            want = observe(fresh_rxn(roles), op, k)
        except Exception as e:
            return 'C15/history/raises/' + type(e).__name__, f'after {done}: {type(e).__name__}: {e}', done
        if got != want:
            return ('C15/history/' + op.rstrip('!cm'), f'after {done[:-1]} the observation {op} gives {str(got)[:300]!r}, on a fresh '
                    f'reaction object {str(want)[:300]!r}', done)
    return None



# ------------------------------------------------------------------------------------------------
# mutator histories: after every public reaction-level operation the reaction describes the roles it holds
# ------------------------------------------------------------------------------------------------

# (name, kwargs, class)   class 'same-graph': the condensed graph on heavy atoms must not change
MUTATORS = (
    ('explicify_hydrogens', {}, 'same-graph'), ('implicify_hydrogens', {}, 'same-graph'),
    ('contract_ions', {}, 'same-graph'), ('remove_reagents', {'keep_reagents': True}, 'any'),   # spectator copies may collide
    ('remove_reagents', {'keep_reagents': True, 'mapping': False}, 'any'),       # rule based: predefined reagents, mapping agnostic
    ('remove_reagents', {'keep_reagents': False}, 'centre'), ('remove_reagents', {'keep_reagents': False, 'mapping': False}, 'any'),
    ('clean2d', {}, 'same-graph'), ('fix_positions', {}, 'same-graph'), ('clean_stereo', {}, 'same-graph'),
    ('clean_isotopes', {}, 'any'), ('kekule', {}, 'any'), ('thiele', {}, 'any'), ('standardize', {'fix_mapping': False}, 'any'),
    ('canonicalize', {'fix_mapping': False}, 'any'), ('flush_cache', {'keep_molecule_cache': True}, 'same-graph'),
    ('flush_cache', {}, 'same-graph'), ('check_valence', {}, 'same-graph'), ('depict', {}, 'same-graph'),
)
CHECK_OBS = ('format', 'str', 'hash', 'compose', 'roundtrip', 'format!c', 'eq')


def reassemble(rx):
    """a new reaction object from copies of the molecules the object holds now (no caches shared)"""
    from chython import ReactionContainer
    return ReactionContainer([m.copy() for m in rx.reactants], [m.copy() for m in rx.products], [m.copy() for m in rx.reagents])


def heavy_graph(rx):
    """the condensed graph restricted to non-hydrogen atoms + per heavy atom the number of dynamic bonds to hydrogens;
    None when compose raises ValueError"""
    try:
        h = rx.compose()
    except ValueError:
        return None
    heavy = {n for n, a in h._atoms.items() if a.atomic_number != 1}
    atoms = sorted((n, a.atomic_number, a.isotope or 0, a.charge, a.p_charge, a.is_radical, a.p_is_radical) for n, a in h._atoms.items()
                   if n in heavy)
    bonds = sorted((n, m, _o(b.order), _o(b.p_order)) for n, mb in h._bonds.items() for m, b in mb.items()
                   if n < m and n in heavy and m in heavy)
    dynh = {n: sum(1 for m, b in h._bonds[n].items() if m not in heavy and b.is_dynamic) for n in heavy}
    return atoms, bonds, sorted(n for n in h.center_atoms if n in heavy), dynh, h


def side_numbers_ok(rx):
    """molecules of one side carry different numbers; reagents share no number with reactants or products"""
    left = [n for m in rx.reagents + rx.reactants for n in m]
    right = [n for m in rx.products for n in m]
    if len(left) != len(set(left)) or len(right) != len(set(right)):
        return False
    ag = {n for m in rx.reagents for n in m}
    return not (ag & set(right))


def h_counts(rx):
    """hydrogens (implicit + explicit neighbours) per heavy atom number and side"""
    out = ({}, {})
    for side, mols in ((0, rx.reactants), (1, rx.products)):
        for m in mols:
            for n, a in m.atoms():
                if a.atomic_number != 1:
                    out[side][n] = (a.implicit_hydrogens or 0) + sum(1 for k in m._bonds[n] if m._atoms[k].atomic_number == 1)
    return out


def oracle_mutators(roles, rng, first=None, length=3, script=None):
    """observers, then public reaction-level operations; after each operation every observation must equal the observation of
    a reaction re-assembled from the molecules the object holds (no stale str / hash / CGR), and operations that do not
    change the chemistry must leave the condensed graph on the heavy atoms as it was (reagents stay out of the centre,
    numbers stay unique, hydrogens made explicit become dynamic exactly where the hydrogen count differs)."""
    if not any(roles):
        return None
    if script is None:
        script = [['obs', rng.choice(('str', 'compose', 'hash', 'format', 'molstr', 'eq', 'centre'))]
                  for _ in range(rng.choice((0, 1, 2, 3)))]
        script += [['mut', first]] if first is not None else []
        script += [['mut', rng.randrange(len(MUTATORS))] for _ in range(length)]
    rx = fresh_rxn(roles)
    done = []
    for kind_, op in script:
        if kind_ != 'obs':
            continue
        done.append([op, 0])
        try:
            observe(rx, op, 0)
        except Exception as e:
            return 'C15/history/raises/' + type(e).__name__, f'after {done}: {type(e).__name__}: {e}', script
    muts = [MUTATORS[i] for k_, i in script if k_ == 'mut']
    for name, kw, cls in muts:
        before = heavy_graph(reassemble(rx)) if cls in ('same-graph', 'centre') else None
        hc = h_counts(rx)
        numbers_before = side_numbers_ok(rx)
        done.append([name, kw])
        try:
            getattr(rx, name)(**kw)
        except Exception:
            # an operation that raised half-way (invalid structures of the generator) leaves no defined state: stop here
            return None
        ref = reassemble(rx)
        for op in CHECK_OBS:
            try:
                got, want = observe(rx, op), observe(ref, op)
            except Exception as e:
                return 'C15/history/raises/' + type(e).__name__, f'after {done} observation {op}: {type(e).__name__}: {e}', script
            if got != want:
                return ('C15/history/stale/' + op.rstrip('!c'), f'after {done} the observation {op} gives {str(got)[:260]!r} but the '
                        f'roles the object holds, assembled anew, give {str(want)[:260]!r}', script)
        # the graph clauses presuppose a reaction whose molecules carry different numbers inside a side, reagents apart
        if before is not None and numbers_before:
            after = heavy_graph(ref)
            if after is None:
                if cls == 'centre':
                    continue
                return 'C15/mutator/compose-raises', f'after {done} the sides cannot be composed any more (ValueError)', script
            if numbers_before and name in ('explicify_hydrogens', 'implicify_hydrogens') and not side_numbers_ok(rx):
                return 'C15/mutator/numbers', f'after {done} atom numbers are shared between molecules of a side / reagents and products', script
            if cls == 'same-graph':
                if (before[0], before[1]) != (after[0], after[1]):
                    da = [x for x in after[0] if x not in before[0]][:3] + [x for x in after[1] if x not in before[1]][:3]
                    return 'C15/mutator/graph', f'{name} changed the condensed graph on heavy atoms, e.g. {da}', script
                expected = set(before[2]) | ({n for n in hc[0] if n in hc[1] and hc[0][n] != hc[1][n]} if name == 'explicify_hydrogens' else set())
                if name == 'explicify_hydrogens':
                    if set(after[2]) != expected:
                        return ('C15/mutator/centre', f'after {done} heavy centre {after[2]} != centre before {before[2]} + atoms whose '
                                f'hydrogen count differs {sorted(expected - set(before[2]))}', script)
                elif name != 'implicify_hydrogens' and set(after[2]) != set(before[2]):
                    return 'C15/mutator/centre', f'after {done} heavy centre {after[2]} != {before[2]}', script
            else:
                if set(after[2]) != set(before[2]):
                    return 'C15/mutator/centre', f'after {done} heavy centre {after[2]} != {before[2]}', script
            ag = {n for m in rx.reagents for n in m}
            if numbers_before and name in ('explicify_hydrogens', 'implicify_hydrogens') and ag & set(after[4].center_atoms):
                return 'C15/mutator/reagent-in-centre', f'after {done} reagent atoms {sorted(ag & set(after[4].center_atoms))} are in the centre', script
    return None

# ------------------------------------------------------------------------------------------------
# mirror states: invariants behind the canonical numbering must tell all dynamic states apart
# ------------------------------------------------------------------------------------------------

BOND_STATES = [(o, p) for o in (None, 1, 2, 3, 4, 8) for p in (None, 1, 2, 3, 4, 8) if (o, p) != (None, None)]
ATOM_STATES = [(c, pc, r, pr) for c in range(-4, 5) for pc in range(-4, 5) for r in (False, True) for pr in (False, True)]


def mirror_case(kind, s1, s2, z_end=6):
    """X-C-X: the two ends / the two bonds carry the states s1, s2 -> (R, P)"""
    R = Raw({1: [z_end, None, 0, False], 2: [6, None, 0, False], 3: [z_end, None, 0, False]})
    P = R.copy()
    if kind == 'bond':
        for pair, (o, p) in (((1, 2), s1), ((2, 3), s2)):
            if o:
                R.bonds[pair] = o
            if p:
                P.bonds[pair] = p
    else:
        R.bonds = {(1, 2): 1, (2, 3): 1}
        P.bonds = dict(R.bonds)
        for n, (c, pc, r, pr) in ((1, s1), (3, s2)):
            R.atoms[n][2], R.atoms[n][3] = c, r
            P.atoms[n][2], P.atoms[n][3] = pc, pr
    return R, P


def oracle_mirror(kind, s1, s2, z_end=6):
    """str(CGR) of X-C-X with different states in mirror positions must not change when 1 and 3 swap numbers"""
    R, P = mirror_case(kind, s1, s2, z_end)
    f = {1: 3, 2: 2, 3: 1}
    try:
        a = str(build(R, labels=False) ^ build(P, labels=False))
        b = str(build(R.renamed(f), labels=False) ^ build(P.renamed(f), labels=False))
    except Exception as e:
        return 'C15/cgr-string/raises/' + type(e).__name__, f'{kind} states {s1} / {s2}: {type(e).__name__}: {e}'
    if sorted(a.split('.')) != sorted(b.split('.')):
        return 'C15/cgr-string/renumbering', f'{kind} states {s1} and {s2} in mirror positions: {a!r} vs {b!r} after swapping numbers 1 and 3'
    return None


def mutator_roles(rng, small, i):
    """role lists for operation histories: untouched molecules with salts / radical ties, or an edited reaction with reagents
    that carry hydrogens (numbers apart)"""
    if i % 2:
        return random_roles(rng, small)
    g = gen_reaction(rng, small)
    rs, ps = split_roles(rng, g['R']), split_roles(rng, g['P'])
    nxt, ags = g['next'] + 1, []
    for _ in range(rng.choice((0, 1, 1, 2))):
        m = rng.choice(small)
        ags.append(m.renamed({k: nxt + j for j, k in enumerate(m.atoms)}))
        nxt += len(m.atoms)
    return [rs, ags, ps]


def mutator_histories(ctx, rng, raws, programs):
    small = [x for x in raws if len(x.atoms) <= 14]
    n = 285 if ctx.quick else 3800
    for i in range(n):
        roles = mutator_roles(rng, small, i)
        first = (i // 2) % len(MUTATORS)          # every operation opens the same number of histories of both kinds
        res = oracle_mutators(roles, rng, first=first)
        ctx.count(('relational', 'mutators', i))
        ctx.dist('mutators:first=' + MUTATORS[first][0])
        if res:
            ctx.fail(res[0], res[1], {'kind': 'mutators', 'roles': [[raw_json(x) for x in role] for role in roles], 'script': res[2]})
            return
    programs.update('ReactionContainer.' + m[0] for m in MUTATORS)


def minus_one_class(kind, a, b):
    """the two atom states are identified by CPython's hash(-1) == hash(-2) (known finding)"""
    if kind != 'atom':
        return False
    f = lambda st: tuple(-2 if isinstance(x, int) and not isinstance(x, bool) and x == -1 else x for x in st)
    return a != b and f(a) == f(b)


KNOWN_MINUS_ONE = 'C15/cgr-string/renumbering/hash-minus-one'


def mirror_states(ctx, rng):
    """every ordered pair of different bond states (exhaustive, 35*34), atom states: all direction mirrors + a sample;
    also: hash() of the real DynamicBond / DynamicElement objects is injective on these states (Morgan seeds)"""
    from chython.containers.bonds import DynamicBond
    from chython.periodictable import DynamicElement
    cases = [('bond', a, b, 6) for a in BOND_STATES for b in BOND_STATES if a != b]
    cases += [('atom', (c, pc, r, pr), (pc, c, pr, r), z) for (c, pc, r, pr) in ATOM_STATES if (c, pc, r, pr) != (pc, c, pr, r)
              for z in (6, 7)]
    n_extra = 600 if ctx.quick else 12000
    for _ in range(n_extra):
        a, b = rng.sample(ATOM_STATES, 2)
        cases.append(('atom', a, b, rng.choice((6, 7, 8, 16))))
    # states that share a Morgan seed on the real objects are the candidates that matter most: test them first
    seeds = {}
    for st in BOND_STATES:
        b = object.__new__(DynamicBond)
        b._order, b._p_order = st
        seeds.setdefault(('bond', hash(b)), []).append(st)
    for st in ATOM_STATES:
        a = object.__new__(DynamicElement.from_atomic_number(6))
        a._isotope, a._charge, a._p_charge, a._is_radical, a._p_is_radical = None, st[0], st[1], st[2], st[3]
        seeds.setdefault(('atom', hash(a)), []).append(st)
    collide = [(k[0], x, y, 6) for k, v in seeds.items() if len(v) > 1 for x in v for y in v if x != y]
    ctx.dist('mirror:states-sharing-a-hash', len(collide))
    known = 0
    reported = set()
    for kind, a, b, z in collide + cases:
        ctx.count(('relational', 'mirror', kind, a, b, z))
        res = oracle_mirror(kind, a, b, z)
        if res:
            R, P = mirror_case(kind, a, b, z)
            inp = {'kind': 'renumber', 'R': raw_json(R), 'P': raw_json(P), 'map': {'1': 3, '2': 2, '3': 1}}
            if minus_one_class(kind, a, b) and res[0] == 'C15/cgr-string/renumbering':
                known += 1
                if KNOWN_MINUS_ONE not in reported:
                    reported.add(KNOWN_MINUS_ONE)
                    ctx.fail(KNOWN_MINUS_ONE, res[1], inp)
                continue
            ctx.fail(res[0], res[1], inp)
            return
    ctx.dist('mirror:known-minus-one-collisions', known)
    ctx.dist('mirror:bond-state-pairs-exhaustive', len(BOND_STATES) * (len(BOND_STATES) - 1))
    ctx.dist('mirror:atom-state-pairs', len(cases) - len(BOND_STATES) * (len(BOND_STATES) - 1))


def hash_stream(ctx, s_hash, programs):
    """DynamicBond.__hash__ / DynamicElement.__hash__ vs the model (secondary: private observation point)"""
    from chython.containers.bonds import DynamicBond
    from chython.periodictable import DynamicElement
    for o, p in BOND_STATES:
        b = object.__new__(DynamicBond)
        b._order, b._p_order = o, p
        s_hash.add(f'bhash {_o(o)} {_o(p)}', str(hash(b)), {'bond': (o, p)})
    for z, iso in ((6, 0), (7, 15), (8, 18), (17, 0)):
        for c, pc, r, pr in ATOM_STATES[::(1 if z == 6 else 7)]:
            a = object.__new__(DynamicElement.from_atomic_number(z))
            a._isotope, a._charge, a._p_charge, a._is_radical, a._p_is_radical = iso or None, c, pc, r, pr
            s_hash.add(f'ahash {z} {iso} {c} {pc} {int(r)} {int(pr)}', str(hash(a)), {'atom': (z, iso, c, pc, r, pr)})
    programs.update(('DynamicBond.__hash__', 'DynamicElement.__hash__'))


# ------------------------------------------------------------------------------------------------
# property-level oracle on the real code (never consults the Lean model)
# ------------------------------------------------------------------------------------------------

def oracle_compose(R, P, rng=None, cgr=None):
    """Ground truth: the CGR of merged sides R, P marks exactly the differences. Returns (signature, what) or None.
    `cgr=(h,)`: check this already computed graph (None = the computation raised ValueError)."""
    common = set(R.atoms) & set(P.atoms)
    clash = any(R.atoms[n][0] != P.atoms[n][0] or R.atoms[n][1] != P.atoms[n][1] for n in common)
    if cgr is not None:
        h = cgr[0]
        if clash:
            return None if h is None else ('C15/compose/clash-accepted', 'sides with different element/isotope on a mapped atom were composed')
        if h is None:
            return 'C15/compose/raises/ValueError', 'reaction compose raised ValueError on consistent sides'
    else:
        r, p = build(R, rng, labels=False), build(P, rng, labels=False)
        if clash:
            try:
                r ^ p
            except ValueError:
                return None
            except Exception as e:
                return 'C15/compose/clash-wrong-exception', f'element/isotope clash raised {type(e).__name__}'
            return 'C15/compose/clash-accepted', 'sides with different element/isotope on a mapped atom were composed'
        try:
            h = r ^ p
        except Exception as e:
            return 'C15/compose/raises/' + type(e).__name__, f'compose raised {type(e).__name__}: {e}'
    if set(h._atoms) != set(R.atoms) | set(P.atoms):
        return 'C15/compose/atom-set', f'CGR atoms {sorted(h._atoms)} != union of sides'
    centre = set()
    for n, a in h._atoms.items():
        ra, pa = R.atoms.get(n), P.atoms.get(n)
        ra, pa = ra or pa, pa or ra   # an atom present on one side only is carried over unchanged
        exp = (ra[0], ra[1], ra[2], pa[2], bool(ra[3]), bool(pa[3]))
        got = (a.atomic_number, a.isotope, a.charge, a.p_charge, a.is_radical, a.p_is_radical)
        if exp != got:
            return 'C15/compose/atom-marks', f'atom {n}: expected {exp}, CGR has {got}'
        if a.is_dynamic != (ra[2] != pa[2] or bool(ra[3]) != bool(pa[3])):
            return 'C15/dynamic/atom', f'atom {n}: is_dynamic={a.is_dynamic} but sides {ra} / {pa}'
        if ra[2] != pa[2] or bool(ra[3]) != bool(pa[3]):
            centre.add(n)
    pairs = set(R.bonds) | set(P.bonds)
    for (a, b) in pairs:
        o1, o2 = R.bonds.get((a, b)), P.bonds.get((a, b))
        # bonds among atoms that exist on one side only are carried over unchanged
        if a not in common and b not in common:
            o1 = o2 = (o1 if o1 is not None else o2)
        got = h._bonds.get(a, {}).get(b)
        got2 = h._bonds.get(b, {}).get(a)
        if got is None or got2 is None or (got.order, got.p_order) != (o1, o2) or (got2.order, got2.p_order) != (o1, o2):
            return 'C15/compose/bond-marks', f'bond {a}-{b}: expected {(o1, o2)}, CGR has {got!r}/{got2!r}'
        if got.is_dynamic != (o1 != o2):
            return 'C15/dynamic/bond', f'bond {a}-{b}: is_dynamic={got.is_dynamic} for orders {(o1, o2)}'
        if o1 != o2:
            centre |= {a, b}
    extra = {(min(n, m), max(n, m)) for n, mb in h._bonds.items() for m in mb} - pairs
    if extra:
        return 'C15/compose/spurious-bond', f'CGR has bonds {sorted(extra)[:3]} that exist on neither side'
    if set(h.center_atoms) != centre or len(h.center_atoms) != len(set(h.center_atoms)):
        return 'C15/centre', f'center_atoms {sorted(h.center_atoms)} != atoms that differ {sorted(centre)}'
    return None


def oracle_rxn_compose(rs, ags, ps, rng=None):
    """~reaction for role lists with pairwise different atom numbers inside a side: the CGR of (reagents + reactants)
    against products; reagents are unchanged molecules."""
    from chython import ReactionContainer
    R, P = Raw(), Raw()
    for x in ags + rs:
        R = R.merged(x)
    for x in ps:
        P = P.merged(x)
    mols = [[build(x, rng) for x in role] for role in (rs, ags, ps)]
    try:
        h = ReactionContainer(mols[0], mols[2], mols[1]).compose()
    except ValueError:
        h = None
    return oracle_compose(R, P, rng, cgr=(h,))


def oracle_tokens():
    """The CGR signature must tell apart every pair of different (order, p_order), (charge, p_charge), radical states and
    must show '>' exactly where the two sides differ — on two-atom / one-atom condensed graphs (finite, exhaustive)."""
    seen = {}
    orders = (None, 1, 2, 3, 4, 8)
    for o in orders:
        for p in orders:
            if o is None and p is None:
                continue
            R = Raw({1: [6, None, 0, False], 2: [6, None, 0, False]}, {(1, 2): o} if o else {})
            P = Raw({1: [6, None, 0, False], 2: [6, None, 0, False]}, {(1, 2): p} if p else {})
            try:
                s = str(build(R, labels=False) ^ build(P, labels=False))
            except Exception as e:
                return ('C15/cgr-string/raises/' + type(e).__name__, f'bond {o}>{p}: {type(e).__name__}: {e}',
                        {'kind': 'compose', 'R': raw_json(R), 'P': raw_json(P)})
            if ('>' in s) != (o != p):
                return ('C15/cgr-string/bond-mark', f'bond orders {o}>{p} written as {s!r}',
                        {'kind': 'token-pair', 'a': [raw_json(R), raw_json(P)], 'b': None})
            if s in seen:
                return ('C15/cgr-string/collision', f'bond orders {seen[s][2]} and {(o, p)} have the same CGR signature {s!r}',
                        {'kind': 'token-pair', 'a': [raw_json(seen[s][0]), raw_json(seen[s][1])], 'b': [raw_json(R), raw_json(P)]})
            seen[s] = (R, P, (o, p))
    seen = {}
    for c in range(-4, 5):
        for pc in range(-4, 5):
            for r, pr in ((False, False), (True, False), (False, True), (True, True)):
                R, P = Raw({1: [6, None, c, r]}), Raw({1: [6, None, pc, pr]})
                try:
                    s = str(build(R, labels=False) ^ build(P, labels=False))
                except Exception as e:
                    return ('C15/cgr-string/raises/' + type(e).__name__, f'atom {c}>{pc} {r}>{pr}: {type(e).__name__}: {e}',
                            {'kind': 'compose', 'R': raw_json(R), 'P': raw_json(P)})
                if ('>' in s) != (c != pc or r != pr):
                    return ('C15/cgr-string/atom-mark', f'charge {c}>{pc}, radical {r}>{pr} written as {s!r}',
                            {'kind': 'token-pair', 'a': [raw_json(R), raw_json(P)], 'b': None})
                if s in seen:
                    return ('C15/cgr-string/collision', f'atom states {seen[s][2]} and {(c, pc, r, pr)} have the same CGR signature {s!r}',
                            {'kind': 'token-pair', 'a': [raw_json(seen[s][0]), raw_json(seen[s][1])], 'b': [raw_json(R), raw_json(P)]})
                seen[s] = (R, P, (c, pc, r, pr))
    return None


def raw_json(x):
    return {'atoms': {str(n): [a[0], a[1], a[2], bool(a[3])] for n, a in x.atoms.items()},
            'bonds': [[a, b, o] for (a, b), o in x.bonds.items()]}


def raw_from_json(d):
    return Raw({int(n): list(a) for n, a in d['atoms'].items()}, {(a, b): o for a, b, o in d['bonds']})


def search(ctx):
    """Property-level oracles on the real code only: the disagreeing cases first, then fresh reactions."""
    import time
    from ..gen import pyx2py
    pyx2py.install()
    t_end = time.time() + (60 if ctx.quick else 600)
    rng = ctx.rng
    raws = pool(rng, ctx.quick)
    small = [x for x in raws if len(x.atoms) <= 14]
    first = [c for c in (_state.get('cases') or [])]
    idx = [b[3]['case'] for _, b in _state.get('disagreements', []) if 'case' in b[3]]
    ordered = [first[i] for i in idx if i < len(first)] + first
    # texts on which the reader model and the reader disagreed: is the written role partition restored?
    for name, b in _state.get('disagreements', []):
        if name in ('mapfix', 'readrad') and b[3].get('text'):
            for rm in dict.fromkeys((bool(b[3].get('remap')), False, True)):
                res = oracle_mapping_text(b[3]['text'], remap=rm)
                if res:
                    ctx.fail(res[0], res[1], {'kind': 'mapping-text', 'text': b[3]['text'], 'remap': rm})
                    return
        if name == 'readrad' and b[3].get('flavour') == 'written':
            res = oracle_written_text(b[3]['text'])
            if res:
                ctx.fail(res[0], res[1], {'kind': 'written-text', 'text': b[3]['text']})
                return
        if name == 'read' and b[3].get('flavour') in ('written', 'writer'):
            res = oracle_read_text(b[3]['text'])
            if res:
                ctx.fail(res[0], res[1], {'kind': 'read-partition', 'text': b[3]['text']})
                return
    res = oracle_tokens()
    if res:
        ctx.fail(res[0], res[1], res[2])
        return
    for R, P in bond_state_grid():
        res = oracle_compose(R, P)
        if res:
            ctx.fail(res[0], res[1], {'kind': 'compose', 'R': raw_json(R), 'P': raw_json(P)})
            return
    for kind, a, b in [('bond', a, b) for a in BOND_STATES for b in BOND_STATES if a != b]:
        res = oracle_mirror(kind, a, b)
        if res:
            R, P = mirror_case(kind, a, b)
            ctx.fail(res[0], res[1], {'kind': 'renumber', 'R': raw_json(R), 'P': raw_json(P), 'map': {'1': 3, '2': 2, '3': 1}})
            return
    n = 0
    while time.time() < t_end:
        g = ordered[n] if n < len(ordered) else gen_reaction(rng, raws)
        n += 1
        res = oracle_compose(g['R'], g['P'], rng)
        if res:
            ctx.fail(res[0], res[1], {'kind': 'compose', 'R': raw_json(g['R']), 'P': raw_json(g['P'])})
            return
        # ReactionContainer.compose on role lists (reagents numbered apart: no remapping involved)
        rs, ps = split_roles(rng, g['R']), split_roles(rng, g['P'])
        ags, nxt = [], g['next'] + 1
        for _ in range(rng.choice((0, 1, 1, 2))):
            m = rng.choice(small)
            ags.append(m.renamed({k: nxt + j for j, k in enumerate(m.atoms)}))
            nxt += len(m.atoms)
        if rs or ps or ags:
            res = oracle_rxn_compose(rs, ags, ps, rng)
            if res:
                ctx.fail(res[0], res[1], {'kind': 'rxn-compose', 'roles': [[raw_json(x) for x in role] for role in (rs, ags, ps)]})
                return
        ids = sorted(set(g['R'].atoms) | set(g['P'].atoms))
        if ids:
            f = dict(zip(ids, rng.sample(range(1, 3 * len(ids) + 5), len(ids))))
            res = oracle_renumber(g['R'], g['P'], f, rng)
            if res and res[0] != 'inherited':
                ctx.fail(res[0], res[1], {'kind': 'renumber', 'R': raw_json(g['R']), 'P': raw_json(g['P']),
                                          'map': {str(k): v for k, v in f.items()}})
                return
        # role lists: order-free signature and write -> read
        roles = random_roles(rng, small)
        if any(roles):
            mols = [[build(x, rng) for x in role] for role in roles]
            res = oracle_perm(mols) or oracle_roundtrip(mols)
            if res:
                ctx.fail(res[0], res[1], {'kind': 'roles', 'roles': [[raw_json(x) for x in role] for role in roles]})
                return
            res = oracle_history(roles, rng, first=rng.choice(((), ('compose',), ('molstr',), ('str',))))
            if res:
                ctx.fail(res[0], res[1], {'kind': 'history', 'roles': [[raw_json(x) for x in role] for role in roles], 'ops': res[2]})
                return
        roles = mutator_roles(rng, small, n)
        res = oracle_mutators(roles, rng, first=n % len(MUTATORS))
        if res:
            ctx.fail(res[0], res[1], {'kind': 'mutators', 'roles': [[raw_json(x) for x in role] for role in roles], 'script': res[2]})
            return
        text, flavour = gen_read_text(rng)
        if flavour == 'writer':
            res = oracle_read_text(text)
            if res:
                ctx.fail(res[0], res[1], {'kind': 'read-partition', 'text': text})
                return
        rs_ = gen_union_raws(rng, small)
        res = oracle_union(rs_)
        if res:
            ctx.fail(res[0], res[1], {'kind': 'union', 'mols': [raw_json(x) for x in rs_]})
            return
        text, _ = gen_mapped_text(rng)
        rm = rng.random() < 0.3
        res = oracle_mapping_text(text, remap=rm)
        if res:
            ctx.fail(res[0], res[1], {'kind': 'mapping-text', 'text': text, 'remap': rm})
            return
        if n > len(ordered) + (2000 if ctx.quick else 20000):
            break
    ctx.notes.append(f'search: property oracles evaluated on {n} reactions, no failing input')


def random_roles(rng, small):
    roles, nxt = [], 1
    for _ in range(3):
        role = []
        for _ in range(rng.choice((0, 1, 1, 2, 2, 3))):
            m = Raw()
            for _ in range(rng.choice((1, 1, 1, 2, 3))):
                c = rng.choice(small)
                m = m.merged(c.renamed({n: nxt + j for j, n in enumerate(c.atoms)}))
                nxt += len(c.atoms)
            if rng.random() < 0.15 and m.atoms:
                m.atoms[rng.choice(sorted(m.atoms))][3] = True
            role.append(m)
        roles.append(role)
    if rng.random() < 0.15:
        z = rng.choice((11, 19, 3))
        k = rng.randrange(3)
        roles[k] = roles[k][:1] + [Raw({nxt: [z, None, 0, True]}), Raw({nxt + 1: [z, None, 0, False]}),
                                    Raw({nxt + 2: [z, None, 0, rng.random() < 0.5]})]
        rng.shuffle(roles[k])
    return roles


def oracle_read_text(text):
    """A text in the writer's layout (consecutive fragment groups inside one role): the reader must return exactly the
    partition the text denotes. Ground truth is computed from the text itself, not from any model."""
    from chython import smiles
    toks = text.split()
    smi = toks[0]
    groups = []
    if len(toks) > 1 and 'f:' in toks[1]:
        body = toks[1].strip('|').split('f:')[1]
        for g in body.split(','):
            try:
                groups.append(sorted(int(x) for x in g.split('.')))
            except ValueError:
                return None
    parts = smi.split('>')
    if len(parts) != 3:
        return None
    frags = [[x for x in p.split('.') if x] for p in parts]
    expected, i = [], 0
    flat_groups = {g[0]: g for g in groups}
    member = {x for g in groups for x in g}
    for role in frags:
        out = []
        for j, fr in enumerate(role):
            k = i + j
            if k in flat_groups:
                g = flat_groups[k]
                if not all(i <= x < i + len(role) for x in g):
                    return None        # not the writer's layout
                out.append('.'.join(role[x - i] for x in g))
            elif k not in member:
                out.append(fr)
        expected.append(sorted(str_skeleton(t) for t in out))
        i += len(role)
    if not any(expected):
        return None
    try:
        r = smiles(text)
    except Exception as e:
        return 'C15/read/raises/' + type(e).__name__, f'smiles({text!r}) raised {type(e).__name__}: {e}'
    got = [sorted(mol_skeleton(m) for m in role) for role in (r.reactants, r.reagents, r.products)]
    if got != expected:
        return 'C15/read/partition', f'smiles({text!r}) has role skeletons {got}, the text denotes {expected}'
    return None


def probe(inp):
    from ..gen import pyx2py
    pyx2py.install()
    kind = inp.get('kind')
    if kind == 'compose':
        res = oracle_compose(raw_from_json(inp['R']), raw_from_json(inp['P']))
        return (True, f'{res[0]}: {res[1]}') if res else (False, 'CGR marks exactly the differences of the two sides')
    if kind == 'cgr-str':
        from chython import smiles
        try:
            s = str(~smiles(inp['smiles']))
        except Exception as e:
            return True, f'str(~reaction) raised {type(e).__name__}: {e}'
        return False, f'str(~reaction) = {s}'
    if kind == 'rxn-compose':
        roles = [[raw_from_json(x) for x in role] for role in inp['roles']]
        res = oracle_rxn_compose(*roles)
        return (True, f'{res[0]}: {res[1]}') if res else (False, 'CGR of the reaction marks exactly the differences; reagents unchanged')
    if kind == 'token-pair':
        res = oracle_tokens()
        return (True, f'{res[0]}: {res[1]}') if res else (False, 'all bond/atom states have distinct CGR signatures with > exactly on change')
    if kind == 'mutators':
        roles = [[raw_from_json(x) for x in role] for role in inp['roles']]
        res = oracle_mutators(roles, None, script=inp['script'])
        return (True, f'{res[0]}: {res[1]}') if res else (False, 'after every operation the reaction describes the roles it holds')
    if kind == 'history':
        import random
        roles = [[raw_from_json(x) for x in role] for role in inp['roles']]
        rx = fresh_rxn(roles)
        done = []
        for op, k in inp['ops']:
            done.append([op, k])
            try:
                got, want = observe(rx, op, k), observe(fresh_rxn(roles), op, k)
            except Exception as e:
                return True, f'after {done}: {type(e).__name__}: {e}'
            if got != want:
                return True, f'after {done[:-1]} the observation {op} gives {str(got)[:300]!r}, on a fresh object {str(want)[:300]!r}'
        return False, 'every observation equals the observation of a fresh reaction object'
    if kind == 'renumber':
        res = oracle_renumber(raw_from_json(inp['R']), raw_from_json(inp['P']), {int(k): v for k, v in inp['map'].items()})
        if res and res[0] != 'inherited':
            return True, f'{res[0]}: {res[1]}'
        return False, 'CGR signature and centre are invariant under this renumbering'
    if kind == 'union':
        res = oracle_union([raw_from_json(x) for x in inp['mols']])
        return (True, f'{res[0]}: {res[1]}') if res else (False, 'the union keeps every atom and every molecule')
    if kind == 'written-text':
        res = oracle_written_text(inp['text'])
        return (True, f'{res[0]}: {res[1]}') if res else (False, 'the written text is a fixed point of read / write')
    if kind == 'mapping-text':
        res = oracle_mapping_text(inp['text'], remap=bool(inp.get('remap')))
        return (True, f'{res[0]}: {res[1]}') if res else (False, 'atom numbers are injective per role, reagents apart, unique written maps kept')
    if kind == 'read-partition':
        res = oracle_read_text(inp['text'])
        return (True, f'{res[0]}: {res[1]}') if res else (False, 'the reader returns the partition the text denotes')
    if kind == 'roles':
        mols = [[build(raw_from_json(x)) for x in role] for role in inp['roles']]
        res = oracle_perm(mols) or oracle_roundtrip(mols)
        return (True, f'{res[0]}: {res[1]}') if res else (False, 'signature is order-free and reads back to the same roles')
    if kind == 'read-text':
        from chython import smiles
        r = smiles(inp['text'])
        got = [[str(m) for m in role] for role in (r.reactants, r.reagents, r.products)]
        return got != inp['expected'], f'smiles({inp["text"]!r}) has roles {got}, expected {inp["expected"]}'
    if kind == 'role-order':
        from chython import smiles, ReactionContainer
        ms = [smiles(x) for x in inp['molecules']]
        for i, m in enumerate(ms):
            m.remap({n: n + 100 * i for n in list(m._atoms)})
        a = format(ReactionContainer(ms, [], []))
        b = format(ReactionContainer(ms[::-1], [], []))
        return a != b, f'{a!r} vs reversed role order {b!r}'
    raise ValueError(f'unknown probe kind {kind}')
