"""C06 — ring perception returns a minimum cycle basis that ring marks agree with
(translation_validation, partial proofs).

Tie
  K (functional, exact): `connected_components`, `_connected_components(not_special_connectivity)`, `skin_graph`,
     `_skin_graph(not_special_connectivity)`, `rings_count`, `atoms_rings`, `atoms_rings_sizes`, the ring marks written by
     `calc_labels` (atom `_in_ring`, `_ring_sizes`, bond `_in_ring`), `_canonic_ring`, `_ring_scissors`, `_ring_adjacency`
     are compared with the Lean model (Model/C06Rings.lean) on every case.
  R (relational): the implementation's actual `mol.sssr` is sent to the driver; `checkSssr` (Spec/CycleBasis.lean, soundness
     proved in Props/C06.lean) must accept it (simple cycles of existing non-special bonds, GF(2)-independent,
     count = cyclomatic number) and its size multiset must equal that of the Lean reference minimum cycle basis
     (Horton candidates + greedy, self-certified by `checkSssr`), before and after random renumbering.
The two heuristic gaps recorded in the property text are filtered out of the minimality clause (`recorded_gap`).
"""
import collections
import itertools
import json

from .. import core, molgen, wire

LEVEL = 'translation_validation'
LEVEL_TEXT = ('The ring basis itself comes from a heuristic (PID matrices + filters) for which no universally quantified theorem '
              'holds (the property records two gaps), so each reported basis is certified run by run by a Lean checker whose '
              'soundness is a theorem (simple cycles, GF(2) independence by Gaussian elimination, count = cyclomatic number); '
              'minimality / size multiset is decided against an executable Lean reference (Horton + greedy) that certifies its own '
              'output with the same checker. The exactly-modelled sub-algorithms (components, 2-core pruning, cyclomatic count, '
              'ring canonical form, per-atom ring views and ring marks) are proved for all inputs and tied to the code by '
              'output equality on generated graphs. Translation validation is the honest level: the decisive step is a proved '
              'checker applied to the code\'s outputs.')
LEVEL_NOTE = ('Lean kernel; hand-written model Model/C06Rings.lean validated by correspondence, not derived from the Python text; '
              'Spec/CycleBasis.lean written from the textbook definitions; the reference minimum basis is validated '
              '(Horton completeness is not proved in Lean), so the minimality clause is validated, not proved; wire encoder; '
              'CachedMethods shim.')
TECHNIQUE = 'Lean 4 proved checker (GF(2) Gaussian elimination) on the implementation\'s SSSR + exact functional models of the sub-algorithms, differential line protocol'
RULE = ('one case = one molecular graph in a concrete atom numbering and dict insertion order (wire ints) together with the ring '
        'list the implementation reported for it; generated as: every labelled connected graph with <= 6 atoms (quick; <= 7 atoms '
        'and <= 5 rings thorough) of degree <= 4, one representative per isomorphism class of 7-atom (<= 5 rings) and 8-atom '
        '(<= 3 rings) graphs under random renumberings, random fused/spiro/bridged ring assemblies and macrocycles with random '
        'coordinate (order 8) bonds, corpus / handmade / test/*.sdf molecules, each also after random renumbering; a case is '
        'non-trivial when the graph has at least one ring (cyclomatic number >= 1); distinct by the full wire line; plus '
        'random tuples for _canonic_ring/_ring_scissors/_ring_adjacency (non-trivial: length >= 3)')
TRUSTED = ['harness/wire.py molecule encoder and the field canonicalisers of harness/props/c06.py',
           'Spec/CycleBasis.lean definitions (IsSimpleCycle, ringVec, Independent) as the meaning of the clauses',
           'reference minimum cycle basis (Horton candidate completeness: textbook result, validated against exhaustive '
           'all-cycles greedy in Python for <= 6 atoms, not proved in Lean)']
ASSUMPTIONS = ['molecule adjacency is symmetric and closed (Graph invariant; the driver answers `malformed` otherwise)',
               'CPython set iteration order is not modelled: components are compared as sorted blocks',
               'recorded gaps (bicyclic cores with three bridges of >= 3 bonds; dense cages: a block with >= 12 bonds on <= 7 atoms '
               'or cyclomatic number >= 6) are excluded from the minimality / ImplementationError clauses only']
HAS_DRIVER = True
EXTRA_MODULES = ['Spec.CycleBasis', 'Model.C06Rings']
FINDINGS_MODULE = 'ChythonModel.Findings.C06'

K_FIELDS = ['cc', 'ccns', 'skin', 'skinns', 'rc', 'ar', 'ars', 'marks']
PROGRAMS = ['MoleculeContainer.connected_components', 'rings._connected_components(not_special_connectivity)',
            'MoleculeContainer.skin_graph', 'rings._skin_graph(not_special_connectivity)', 'MoleculeContainer.rings_count',
            'MoleculeContainer.sssr', 'MoleculeContainer.atoms_rings', 'MoleculeContainer.atoms_rings_sizes',
            'MoleculeContainer.calc_labels (ring marks)', 'rings._canonic_ring', 'rings._ring_scissors', 'rings._ring_adjacency']


def generate(ctx):
    return []   # no literal tables in the anchored code


# ------------------------------------------------------------------------------------------------
# property-level oracle in Python (independent of the Lean model; used by search/probe and by the gap filter)
# ------------------------------------------------------------------------------------------------

def ns_adj(mol):
    """connectivity without coordinate bonds, straight from `_bonds` (not via the cached property under test)"""
    return {n: {m for m, b in ms.items() if b.order != 8} for n, ms in mol._bonds.items()}


def components(adj):
    seen, out = set(), []
    for s in adj:
        if s in seen:
            continue
        comp, st = {s}, [s]
        while st:
            x = st.pop()
            for y in adj[x]:
                if y not in comp:
                    comp.add(y)
                    st.append(y)
        seen |= comp
        out.append(comp)
    return out


def edge_index(adj):
    edges = sorted({(min(a, b), max(a, b)) for a in adj for b in adj[a]})
    return edges, {e: i for i, e in enumerate(edges)}


def two_core(adj):
    g = {n: set(ms) for n, ms in adj.items()}
    todo = [n for n, ms in g.items() if len(ms) <= 1]
    while todo:
        n = todo.pop()
        if n not in g:
            continue
        for m in g.pop(n):
            g[m].discard(n)
            if len(g[m]) <= 1:
                todo.append(m)
    return g


def mcb_sizes(adj):
    """sorted sizes of a minimum cycle basis: Horton candidates + greedy GF(2) elimination"""
    edges, eidx = edge_index(adj)
    mu = len(edges) - len(adj) + len(components(adj))
    cands = []
    for v in adj:
        par, q = {v: None}, collections.deque([v])
        while q:
            x = q.popleft()
            for y in sorted(adj[x]):
                if y not in par:
                    par[y] = x
                    q.append(y)

        def path(x):
            p = []
            while x is not None:
                p.append(x)
                x = par[x]
            return p
        for x, y in edges:
            if x in par and y in par and par[x] != y and par[y] != x:
                px, py = path(x), path(y)
                if set(px) & set(py) == {v}:
                    vec = 1 << eidx[(x, y)]
                    for p in (px, py):
                        for a, b in zip(p, p[1:]):
                            vec ^= 1 << eidx[(min(a, b), max(a, b))]
                    cands.append((len(px) + len(py) - 1, vec))
    cands.sort()
    basis, sizes = [], []
    for ln, vec in cands:
        if len(sizes) == mu:
            break
        r = vec
        for b in basis:
            r = min(r, r ^ b)
        if r:
            basis.append(r)
            sizes.append(ln)
    return sizes, mu


def basis_defects(adj, rings):
    """clauses of the property the ring list violates on graph `adj` (minimality excluded)"""
    edges, eidx = edge_index(adj)
    mu = len(edges) - len(adj) + len(components(adj))
    bad = []
    if len(rings) != mu:
        bad.append('count')
    vecs = []
    for r in rings:
        r = list(r)
        if len(r) < 3 or len(set(r)) != len(r):
            bad.append('not-simple-cycle')
            continue
        vec = 0
        for a, b in zip(r, r[1:] + r[:1]):
            if b not in adj.get(a, ()):
                bad.append('missing-bond')
                break
            vec ^= 1 << eidx[(min(a, b), max(a, b))]
        else:
            vecs.append(vec)
    basis = []
    for v in vecs:
        for b in basis:
            v = min(v, v ^ b)
        if not v:
            bad.append('dependent')
            break
        basis.append(v)
    return sorted(set(bad))


def blocks(adj):
    """biconnected components (as edge sets) of an undirected graph — iterative Hopcroft–Tarjan"""
    idx, low, out, estack = {}, {}, [], []
    counter = 0
    for root in adj:
        if root in idx:
            continue
        idx[root] = low[root] = counter
        counter += 1
        stack = [(root, None, iter(sorted(adj[root])))]
        while stack:
            v, parent, it = stack[-1]
            for w in it:
                if w == parent:
                    continue
                if w not in idx:
                    idx[w] = low[w] = counter
                    counter += 1
                    estack.append((v, w))
                    stack.append((w, v, iter(sorted(adj[w]))))
                    break
                elif idx[w] < idx[v]:
                    estack.append((v, w))
                    low[v] = min(low[v], idx[w])
            else:
                stack.pop()
                if stack:
                    u = stack[-1][0]
                    low[u] = min(low[u], low[v])
                    if low[v] >= idx[u]:
                        comp = []
                        while True:
                            e = estack.pop()
                            comp.append(e)
                            if e == (u, v):
                                break
                        out.append(comp)
    return out


def recorded_gap(adj):
    """None, or the name of the recorded heuristic gap the graph falls into (property text, `quantifier`):
    a bicyclic core whose three bridges all have >= 3 bonds; a dense cage (7 atoms / 12 bonds and denser)."""
    for comp in blocks(adj):
        verts = {v for e in comp for v in e}
        mu = len(comp) - len(verts) + 1
        if mu == 2:
            deg = collections.Counter(v for e in comp for v in e)
            hubs = [v for v, d in deg.items() if d == 3]
            if len(hubs) == 2:
                # three bridges between the hubs; lengths sum to |E|
                g = collections.defaultdict(set)
                for a, b in comp:
                    g[a].add(b)
                    g[b].add(a)
                lens = []
                for s in g[hubs[0]]:
                    prev, cur, ln = hubs[0], s, 1
                    while cur != hubs[1]:
                        nxt = next(x for x in g[cur] if x != prev)
                        prev, cur, ln = cur, nxt, ln + 1
                    lens.append(ln)
                if min(lens) >= 3:
                    return 'theta-bridges>=3'
        elif mu >= 6 or (len(comp) >= 12 and len(verts) <= 7):
            return 'dense-cage'
    return None


# ------------------------------------------------------------------------------------------------
# cases
# ------------------------------------------------------------------------------------------------

def graph_ints(n_atoms, edges, special=(), order=None, nbr_shuffle=None):
    """wire ints of a carbon skeleton; `special` edges get order 8; `order` = atom insertion order"""
    verts = list(order) if order else list(range(1, n_atoms + 1))
    nb = {v: [] for v in verts}
    sp = {frozenset(e) for e in special}
    for a, b in edges:
        o = 8 if frozenset((a, b)) in sp else 1
        nb[a].append((b, o))
        nb[b].append((a, o))
    out = [len(verts)]
    for v in verts:
        ms = nb[v]
        if nbr_shuffle is not None:
            nbr_shuffle.shuffle(ms)
        out += [v, 6, 0, 0, 0, -1, -1, len(ms)]
        for m, o in ms:
            out += [m, o, -1]
    return out


def canon_ring(r):
    return ','.join(map(str, r))


def show_components(cs):
    return ';'.join(','.join(map(str, c)) for c in sorted(sorted(c) for c in cs))


def show_adj(g):
    return ';'.join(f'{n}:' + ','.join(map(str, sorted(ms))) for n, ms in g.items())


def impl_fields(mol):
    """Run the real code on `mol` (fresh caches). Returns (fields, rings or None, error kind)."""
    from chython.algorithms.rings import _connected_components, _skin_graph
    from chython.exceptions import ImplementationError
    f = {}
    f['cc'] = show_components(mol.connected_components)
    ns = mol.not_special_connectivity
    f['ccns'] = show_components(_connected_components(ns))
    f['skin'] = show_adj(mol.skin_graph)
    f['skinns'] = show_adj(_skin_graph(ns))
    f['rc'] = str(mol.rings_count)
    try:
        rings = [tuple(r) for r in mol.sssr]
    except ImplementationError:
        return f, None, 'lib:ImplementationError'
    except Exception as e:  # crash inside the heuristic
        return f, None, 'crash:' + type(e).__name__
    f['ar'] = ';'.join(f'{n}:' + '/'.join(canon_ring(r) for r in rs) for n, rs in mol.atoms_rings.items())
    f['ars'] = ';'.join(f'{n}:' + ','.join(map(str, sorted(s))) for n, s in mol.atoms_rings_sizes.items())
    mol.calc_labels()
    marks = []
    for n, ms in mol._bonds.items():
        a = mol._atoms[n]
        marks.append(f'{n}:{int(bool(a._in_ring))}:' + ','.join(map(str, sorted(a._ring_sizes))) + ':' +
                     ','.join(f'{m}={int(bool(b._in_ring))}' for m, b in ms.items()))
    f['marks'] = ';'.join(marks)
    return f, rings, None


def case_line(ints, rings):
    out = ['case'] + [str(x) for x in ints] + [str(len(rings))]
    for r in rings:
        out.append(str(len(r)))
        out += [str(x) for x in r]
    return ' '.join(out)


def parse_resp(line):
    if '=' not in line:
        return {'_': line}
    return dict(p.split('=', 1) for p in line.split('|'))


class Batch:
    """collects cases, runs them through the driver, compares"""

    def __init__(self, ctx):
        self.ctx = ctx
        self.items = []

    def add(self, tag, ints, label=None):
        """evaluate the implementation now, queue the driver request"""
        ctx = self.ctx
        mol, _ = wire.ints_to_mol(ints)
        adj = ns_adj(mol)
        fields, rings, err = impl_fields(mol)
        gap = None
        if err is not None:
            gap = recorded_gap(adj)
            ctx.dist('sssr-error:' + err + (':recorded-gap' if gap else ''))
            if gap is None:
                ctx.cov['disagreements_checked'] += 1
                ctx.broke('relational', 'sssr-raises', f'{tag}: mol.sssr raised {err}; wire={ints}')
                _state['suspects'].append(ints)
            rings_sent = []
        else:
            rings_sent = rings
        self.items.append((tag, ints, fields, rings, err, adj, label))
        return rings

    def run(self):
        ctx = self.ctx
        if not self.items or not ctx.build_ok:
            self.items = []
            return
        lines = [case_line(ints, rings or []) for _, ints, _, rings, _, _, _ in self.items]
        resp = core.run_driver('C06', lines)
        if len(resp) != len(lines):
            ctx.broke('correspondence', 'driver-lines', f'{len(resp)} responses for {len(lines)} requests')
            self.items = []
            return
        for (tag, ints, fields, rings, err, adj, label), line, rl in zip(self.items, lines, resp):
            r = parse_resp(rl)
            mu = int(fields['rc']) if fields['rc'].lstrip('-').isdigit() else 0
            ctx.count(line, nontrivial=mu > 0)
            ctx.dist(f'{tag}')
            ctx.dist(f'rings={min(mu, 9)}')
            ctx.dist(f'atoms={min(ints[0] // 10 * 10, 90)}+' if ints[0] >= 10 else f'atoms={ints[0]}')
            if mu > 0:
                ctx.sample({'request': line[:300], 'model': rl[:400], 'impl_sssr': [list(x) for x in (rings or [])][:6]})
            if '_' in r:
                ctx.cov['disagreements_checked'] += 1
                ctx.broke('correspondence', 'driver-answer', f'{tag}: driver answered {rl!r} for {line[:300]}')
                _state['suspects'].append(ints)
                continue
            for k in K_FIELDS:
                if k not in fields:
                    continue  # sssr raised: ring views not available
                if r.get(k) != fields[k]:
                    ctx.cov['disagreements_checked'] += 1
                    ctx.broke('correspondence', k, f'{tag}: model {k}={r.get(k)!r} impl {k}={fields[k]!r} wire={ints}')
                    _state['suspects'].append(ints)
            if err is not None:
                continue
            if r.get('chk') != 'ok' or r.get('chkb') != '1':
                ctx.cov['disagreements_checked'] += 1
                ctx.broke('relational', 'check_sssr', f'{tag}: checker verdict {r.get("chk")} on sssr={rings} wire={ints}')
                _state['suspects'].append(ints)
                continue
            sizes = ','.join(map(str, sorted(len(x) for x in rings)))
            if r.get('ref') != sizes:
                gap = recorded_gap(adj)
                if gap:
                    ctx.dist('nonminimal-in-recorded-gap:' + gap)
                else:
                    ctx.cov['disagreements_checked'] += 1
                    ctx.broke('relational', 'minimum-size-multiset',
                              f'{tag}: sssr sizes {sizes} but reference minimum basis {r.get("ref")} wire={ints}')
                    _state['suspects'].append(ints)
        self.items = []


_state = {'suspects': []}


def renumbered_ints(rng, ints):
    """same graph, random new atom numbers, random atom and neighbour insertion order"""
    mol, _ = wire.ints_to_mol(ints)
    nums = list(mol._atoms)
    new = rng.sample(range(1, max(len(nums) * 3, 12)), len(nums))
    mp = dict(zip(nums, new))
    order = nums[:]
    rng.shuffle(order)
    out = [len(nums)]
    for n in order:
        a = mol._atoms[n]
        ms = list(mol._bonds[n].items())
        rng.shuffle(ms)
        out += [mp[n], a.atomic_number, 0, a._charge, 0, -1, -1, len(ms)]
        for m, b in ms:
            out += [mp[m], int(b), -1]
    return out


def iso_classes(n, max_mu):
    """one representative edge list per isomorphism class of connected graphs with `n` vertices, degree <= 4 and
    cyclomatic number <= max_mu, grown vertex by vertex from the classes with n-1 vertices (every connected graph has a
    non-cut vertex); classes keyed by RDKit's canonical SMILES of the carbon skeleton."""
    from rdkit import Chem
    from rdkit import RDLogger
    RDLogger.DisableLog('rdApp.*')

    def key(nv, edges):
        m = Chem.RWMol()
        for _ in range(nv):
            m.AddAtom(Chem.Atom(0))
        for a, b in edges:
            m.AddBond(a - 1, b - 1, Chem.BondType.SINGLE)
        return Chem.MolToSmiles(m)

    level = {key(1, ()): ()}
    for nv in range(2, n + 1):
        nxt = {}
        for edges in level.values():
            mu0 = len(edges) - (nv - 1) + 1
            deg = collections.Counter(v for e in edges for v in e)
            free = [v for v in range(1, nv) if deg[v] < 4]
            for k in range(1, min(4, 1 + max_mu - mu0) + 1):
                for att in itertools.combinations(free, k):
                    e2 = tuple(edges) + tuple((a, nv) for a in att)
                    kk = key(nv, e2)
                    if kk not in nxt:
                        nxt[kk] = e2
        level = nxt
    return list(level.values())


def correspond(ctx):
    from chython.algorithms import rings as R
    rng = ctx.rng
    ctx.cov['programs'] = len(PROGRAMS)
    _state['suspects'] = []
    B = Batch(ctx)

    def flush(limit=4000):
        if len(B.items) >= limit:
            B.run()

    # 0. regression corpus: handmade ring systems incl. the classic hard cases
    hand = ['C1CC1', 'C1CCC1', 'C1CCCCC1', 'C1CC2CC1CC2', 'C12CC1C2', 'C1CC11CC1', 'c1ccc2ccccc2c1', 'C1CC2CCC1C2',
            'C12C3C4C1C5C2C3C45', 'C1C2CC3CC1CC(C2)C3', 'C1CC2CCC1CC2', 'c1ccc2c(c1)ccc1ccccc12', 'C1CCCCCCCCCCC1',
            'C1CC1C1CC1', 'S1SSSSSSS1', 'C1CC2(C1)CCC2', 'C1=CC2=CC=CC2=C1', 'CC.CC', '[Na+].[Cl-]', 'C', 'CCO',
            'C1CC2CC2C1', 'C1C2CC1C2', 'C1CC2C1C1CCC21', 'C1CCC2(CC1)CCCCC2', 'C1C2C3C1C23']
    for s in hand:
        m = molgen.parse(s)
        if m is not None:
            ints = wire.mol_to_ints(m)
            B.add('handmade', ints)
            B.add('handmade-renumbered', renumbered_ints(rng, ints))

    # 1. exhaustive labelled connected graphs (degree <= 4)
    nmax = 6 if ctx.quick else 7
    for n in range(1, nmax + 1):
        for edges in molgen.small_graphs(n):
            if len(edges) - n + 1 > 5:
                continue
            B.add(f'exhaustive-labelled-{n}', graph_ints(n, edges))
            flush()
    ctx.exhaustive = True   # this stream enumerates its finite domain completely (see RULE for the other streams)

    # 2. isomorphism classes of 7 atoms (<= 5 rings) and 8 atoms (<= 3 rings) under random renumbering
    reps = 2 if ctx.quick else 12
    for n, mx in ((7, 5), (8, 3)):
        if n == 7 and not ctx.quick:
            continue   # thorough: covered by the labelled enumeration above
        for edges in iso_classes(n, mx):
            ints = graph_ints(n, edges)
            for _ in range(reps):
                B.add(f'iso-class-{n}-renumbered', renumbered_ints(rng, ints))
            flush()

    # 3. ring assemblies with random coordinate bonds, each also renumbered
    for i in range(250 if ctx.quick else 3000):
        edges = molgen.ring_assembly(rng)
        n = max(v for e in edges for v in e)
        k = rng.choice([0, 0, 1, 2])
        special = rng.sample(edges, min(k, len(edges)))
        if rng.random() < 0.3:   # pendant chains and a second component
            edges = edges + [(rng.randint(1, n), n + 1), (n + 1, n + 2), (n + 3, n + 4)]
            n += 4
        ints = graph_ints(n, edges, special)
        B.add('ring-assembly', ints)
        B.add('ring-assembly-renumbered', renumbered_ints(rng, ints))
        flush()

    # 4. repository molecules
    mols = molgen.corpus(rng, 150 if ctx.quick else 4200) + molgen.handmade() + molgen.test_files()
    for name, m in mols:
        try:
            ints = wire.mol_to_ints(m)
        except Exception:
            continue
        tag = 'corpus' if name.startswith('corpus') else ('test-files' if '.sdf' in name else 'handmade')
        B.add(tag, ints)
        if rng.random() < (0.5 if ctx.quick else 1.0):
            B.add(tag + '-renumbered', renumbered_ints(rng, ints))
        flush()
    B.run()

    # 5. ring tuple helpers: exact functional models
    if ctx.build_ok:
        reqs, exp = [], []

        def outcome(fn, *a):
            try:
                return 'ok ' + fn(*a)
            except Exception:
                return 'raise'
        for i in range(1500 if ctx.quick else 20000):
            ln = rng.choice([0, 1, 2, 3, 3, 4, 5, 6, 7, 8, 12])
            if rng.random() < 0.85:
                ring = tuple(rng.sample(range(1, 30), ln))
            else:
                ring = tuple(rng.randint(1, 6) for _ in range(ln))
            reqs.append('canon ' + ' '.join(map(str, ring)))
            exp.append(outcome(lambda r: canon_ring(R._canonic_ring(r)), ring))
            reqs.append('radj ' + ' '.join(map(str, ring)))
            exp.append(outcome(lambda r: ';'.join(f'{k}:' + ','.join(map(str, v)) for k, v in R._ring_adjacency(r).items()), ring))
            if ln >= 2:
                n, m = (rng.choice(ring), rng.choice(ring)) if rng.random() < 0.9 else (rng.randint(1, 30), rng.randint(1, 30))
                if n != m:
                    reqs.append(f'scis {n} {m} ' + ' '.join(map(str, ring)))
                    exp.append(outcome(lambda r, a, b: canon_ring(R._ring_scissors(r, a, b)), ring, n, m))
        got = core.run_driver('C06', reqs)
        for q, e, g in zip(reqs, exp, got):
            ctx.count(q, nontrivial=len(q.split()) >= 4)
            ctx.dist(q.split()[0])
            if e != g:
                ctx.cov['disagreements_checked'] += 1
                ctx.broke('correspondence', q.split()[0], f'{q}: model {g!r} impl {e!r}')


# ------------------------------------------------------------------------------------------------
# failing-input search and probe (property-level oracle on the real code; never consults the Lean model)
# ------------------------------------------------------------------------------------------------

def property_failures(ints, check_numbering=True, rng=None):
    """All clauses of C06 evaluated on the real code for one wire-encoded molecule. Returns list of (clause, detail)."""
    from chython.exceptions import ImplementationError
    mol, _ = wire.ints_to_mol(ints)
    adj = ns_adj(mol)
    full = {n: set(ms) for n, ms in mol._bonds.items()}
    gap = recorded_gap(adj)
    out = []
    sizes_ref, mu = mcb_sizes(adj)
    if mol.rings_count != mu:
        out.append(('rings-count', f'rings_count={mol.rings_count}, bonds-atoms+components={mu}'))
    cc = sorted(sorted(c) for c in mol.connected_components)
    if cc != sorted(sorted(c) for c in components(full)):
        out.append(('connected-components', f'connected_components={cc}'))
    core2 = two_core(full)
    sk = mol.skin_graph
    if {n: set(ms) for n, ms in sk.items()} != core2:
        out.append(('skin-graph', f'skin_graph={sk} but the 2-core is {core2}'))
    try:
        rings = [tuple(r) for r in mol.sssr]
    except ImplementationError as e:
        if gap is None:
            out.append(('sssr-raises', f'ImplementationError({e})'))
        return out
    except Exception as e:
        out.append(('sssr-crashes', type(e).__name__))
        return out
    for d in basis_defects(adj, rings):
        if not (gap and d in ('count', 'dependent')):
            out.append(('basis-' + d, f'sssr={rings}'))
    sizes = sorted(len(r) for r in rings)
    if not out and sizes != sizes_ref and gap is None:
        out.append(('not-minimum', f'sssr sizes {sizes}, a minimum cycle basis has {sizes_ref}'))
    # views and marks
    ar = collections.defaultdict(list)
    for r in rings:
        for n in r:
            ar[n].append(r)
    if {n: [tuple(r) for r in rs] for n, rs in mol.atoms_rings.items()} != dict(ar):
        out.append(('atoms-rings', f'atoms_rings={mol.atoms_rings}'))
    if mol.atoms_rings_sizes != {n: {len(r) for r in rs} for n, rs in ar.items()}:
        out.append(('atoms-rings-sizes', f'atoms_rings_sizes={mol.atoms_rings_sizes}'))
    mol.calc_labels()
    for n, ms in mol._bonds.items():
        a = mol._atoms[n]
        if bool(a._in_ring) != (n in ar) or set(a._ring_sizes) != {len(r) for r in ar.get(n, ())}:
            out.append(('atom-marks', f'atom {n}: in_ring={a._in_ring} ring_sizes={a._ring_sizes}, rings through it {ar.get(n)}'))
            break
        for m, b in ms.items():
            if bool(b._in_ring) != bool(set(ar.get(n, ())) & set(ar.get(m, ()))):
                out.append(('bond-marks', f'bond {n}-{m}: in_ring={b._in_ring}'))
                break
    if check_numbering and rng is not None and gap is None and not out:
        for _ in range(3):
            m2, _ = wire.ints_to_mol(renumbered_ints(rng, ints))
            try:
                s2 = sorted(len(r) for r in m2.sssr)
            except Exception as e:
                out.append(('numbering-dependent', f'renumbered copy raises {type(e).__name__}'))
                break
            if s2 != sizes:
                out.append(('numbering-dependent', f'ring sizes {sizes} vs {s2} after renumbering'))
                break
    return out


def shrink(ints, clause):
    """delete atoms / bonds while the same clause still fails"""
    mol, _ = wire.ints_to_mol(ints)
    atoms = list(mol._atoms)
    edges = [(n, m, int(b)) for n, ms in mol._bonds.items() for m, b in ms.items() if n < m]

    def build(atoms, edges):
        nb = {v: [] for v in atoms}
        for a, b, o in edges:
            nb[a].append((b, o))
            nb[b].append((a, o))
        out = [len(atoms)]
        for v in atoms:
            out += [v, 6, 0, 0, 0, -1, -1, len(nb[v])]
            for m, o in nb[v]:
                out += [m, o, -1]
        return out

    def fails(x):
        try:
            return any(c == clause for c, _ in property_failures(x, check_numbering=False))
        except Exception:
            return False
    cur = build(atoms, edges)
    if not fails(cur):
        return ints
    changed = True
    while changed:
        changed = False
        for v in list(atoms):
            a2 = [x for x in atoms if x != v]
            e2 = [e for e in edges if v not in e[:2]]
            if a2 and fails(build(a2, e2)):
                atoms, edges, changed = a2, e2, True
        for e in list(edges):
            e2 = [x for x in edges if x != e]
            if fails(build(atoms, e2)):
                edges, changed = e2, True
    return build(atoms, edges)


def search(ctx):
    import time
    rng = ctx.rng
    budget = 60 if ctx.quick else 600
    t0 = time.time()
    seen_sig = set()

    def try_ints(ints):
        try:
            fl = property_failures(ints, rng=rng)
        except Exception as e:
            fl = [('oracle-crash', type(e).__name__)]
        for clause, detail in fl:
            if clause in seen_sig:
                continue
            seen_sig.add(clause)
            small = shrink(ints, clause)
            det = next((d for c, d in property_failures(small, check_numbering=clause == 'numbering-dependent', rng=rng)
                        if c == clause), detail)
            ctx.fail(f'C06/{clause}', f'{clause}: {det}', {'wire': small})
        return bool(fl)

    # 1. the disagreeing cases and renumberings of them
    for ints in _state['suspects'][:200]:
        try_ints(ints)
        for _ in range(3):
            try_ints(renumbered_ints(rng, ints))
        if time.time() - t0 > budget / 3:
            break
    # 2. exhaustive small graphs, then assemblies, with and without coordinate bonds
    for n in range(3, 7):
        for edges in molgen.small_graphs(n):
            if len(edges) - n + 1 > 5:
                continue
            sp = [rng.choice(edges)] if rng.random() < 0.3 else []
            try_ints(graph_ints(n, edges, sp))
        if time.time() - t0 > budget * 2 / 3 or len(seen_sig) >= 6:
            break
    while time.time() - t0 < budget and len(seen_sig) < 6:
        edges = molgen.ring_assembly(rng)
        n = max(v for e in edges for v in e)
        sp = rng.sample(edges, min(rng.choice([0, 1, 2]), len(edges)))
        try_ints(renumbered_ints(rng, graph_ints(n, edges, sp)))


def probe(inp):
    import random
    fl = property_failures(inp['wire'], rng=random.Random(0))
    want = inp.get('clause')
    if want:
        fl = [x for x in fl if x[0] == want]
    return bool(fl), '; '.join(f'{c}: {d}' for c, d in fl) or 'all clauses of C06 hold on this input'
