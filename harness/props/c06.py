"""C06 — ring perception returns a minimum cycle basis that ring marks agree with
(translation_validation, partial proofs).

Tie
  K (functional, exact): `connected_components`, `_connected_components(not_special_connectivity)`, `skin_graph`,
     `_skin_graph(not_special_connectivity)`, `rings_count`, `atoms_rings`, `atoms_rings_sizes`, the ring marks written by
     `calc_labels` (atom `_in_ring`, `_ring_sizes`, bond `_in_ring`), `_canonic_ring`, `_ring_scissors`, `_ring_adjacency`
     are compared with the Lean model (Model/C06Rings.lean) on every case.
  H (histories): the same K and R comparisons on live objects after every operation of a random edit history — the cached
     views (`sssr`, `rings_count`, `connected_components`, `atoms_rings*`, marks, `aromatic_rings`, `skin_graph`) must describe
     the current bonds whatever was read, edited, committed or rolled back before.
  R (relational): the implementation's actual `mol.sssr` is sent to the driver; `checkSssr` (Spec/CycleBasis.lean, soundness
     proved in Props/C06.lean) must accept it (simple cycles of existing non-special bonds, GF(2)-independent,
     count = cyclomatic number) and its size multiset must equal that of the Lean reference minimum cycle basis
     (Horton candidates + greedy, self-certified by `checkSssr`), before and after random renumbering.
  P (PID stage, round 5): the Lean model of `_bfs`, `_make_pid`, `_c_set`, `_rings_filter` (+ `_connected_rings`,
     `_get_unique_chord`, `_is_condensed_ring`) — Model/C06Pid.lean — is compared stage by stage with the REAL source of
     rings.py executed under ascending set order (c06_sorted.py: AST rewrite of the set-valued expressions of the file as it
     is on this run). Proved for all graphs about that model: every emitted ring is a simple cycle of the input graph, no
     ring twice, exactly rings_count rings.
  M (minimality, round 5): `checkMinimalHorton` (exchange criterion over GF(2), proved sound AND complete) decides per run
     whether the reported basis is minimum w.r.t. Horton's candidate family; Horton completeness is the named hypothesis.
The two heuristic gaps recorded in the property text are filtered out of the minimality clause and the polycyclic
generalisation of the first one is a known finding (`gap_class`, `exempt`).
"""
import collections
import itertools
import json
import zlib

from .. import core, molgen, wire
from . import c06_sorted

LEVEL = 'translation_validation'
LEVEL_TEXT = ('The ring basis itself comes from a heuristic (PID matrices + filters) for which no universally quantified theorem '
              'holds (the property records two gaps), so each reported basis is certified run by run by a Lean checker whose '
              'soundness is a theorem (simple cycles, GF(2) independence by Gaussian elimination, count = cyclomatic number); '
              'minimality is decided per run by a second proved checker (exchange criterion over GF(2): every Horton candidate '
              'is a sum of reported rings that are not longer; sound and complete, Horton completeness being the one named '
              'hypothesis) and cross-checked against an executable Lean reference (Horton + greedy) that certifies its own '
              'output. The whole heuristic (_bfs, _make_pid, _c_set, _rings_filter and its helpers) is inside an exact Lean '
              'model since round 5; for that model it is proved for all graphs that every emitted ring is a simple cycle of '
              'the input graph, none is listed twice and exactly rings_count rings come out; the model is tied to the code by '
              'stage-by-stage output equality with the real source run under ascending set order. The other exactly-modelled '
              'sub-algorithms (components, 2-core pruning, cyclomatic count, ring canonical form, per-atom ring views and ring '
              'marks) are proved for all inputs and tied by output equality on generated graphs. Translation validation is '
              'the honest level: independence and minimality are verdicts of proved checkers applied to the code\'s outputs.')
LEVEL_NOTE = ('Lean kernel; hand-written models Model/C06Rings.lean and Model/C06Pid.lean validated by correspondence, not derived '
              'from the Python text; CPython set iteration order is replaced by ascending order on both sides (AST rewrite of '
              'rings.py in c06_sorted.py); Spec/CycleBasis.lean and Spec/CycleBasisMin.lean written from the textbook '
              'definitions; Horton completeness (HortonComplete g) is a named hypothesis, validated per run, not proved in Lean; '
              'wire encoder; CachedMethods shim.')
TECHNIQUE = 'Lean 4 proved checkers (GF(2) Gaussian elimination; exchange criterion for minimality) on the implementation\'s SSSR + exact functional model of the whole heuristic and its sub-algorithms with universally quantified theorems, differential line protocol'
RULE = ('one case = one molecular graph in a concrete atom numbering and dict insertion order (wire ints) together with the ring '
        'list the implementation reported for it; generated as: every labelled connected graph with <= 6 atoms (quick; <= 7 atoms '
        'and <= 5 rings thorough) of degree <= 4, one representative per isomorphism class of 7-atom (<= 5 rings) and 8-atom '
        '(<= 3 rings) graphs under random renumberings, theta graphs with bridges 1..6, random fused/spiro/bridged ring assemblies '
        'and macrocycles with random coordinate (order 8) and aromatic (order 4) bonds, pendant chains and extra components, '
        'small strained cages (bicyclo[1.1.0]/[1.1.1]/[2.1.1]/propellane-like cores with 1-4 further fused / spiro / bridging '
        'rings, <= 12 atoms) under 7-14 numberings each, '
        'corpus / handmade / test/*.sdf molecules, each also after random renumbering; plus random EDIT HISTORIES (add/delete '
        'bond and atom incl. coordinate bonds, committed and rolled-back transactions with reads inside, copy, remap, union, '
        'substructure, split, kekule/thiele, hydrogen / coordinate-bond / metal standardisation steps) on organometallic, '
        'aromatic and ring-assembly starts, where after every operation the views of the LIVE object are compared with the '
        'model of its CURRENT atoms and bonds; a case is '
        'non-trivial when the graph has at least one ring (cyclomatic number >= 1); distinct by the full wire line; plus '
        'random tuples for _canonic_ring/_ring_scissors/_ring_adjacency (non-trivial: length >= 3)')
TRUSTED = ['harness/wire.py molecule encoder and the field canonicalisers of harness/props/c06.py',
           'Spec/CycleBasis.lean definitions (IsSimpleCycle, ringVec, Independent) as the meaning of the clauses',
           'Horton candidate completeness (named hypothesis HortonComplete of sssr_minimum_of_horton_complete: textbook result, '
           'validated against exhaustive all-cycles greedy in Python for <= 6 atoms, not proved in Lean)',
           'harness/props/c06_sorted.py: the AST rewrite that runs rings.py under ascending set order changes set-valued '
           'expressions only']
ASSUMPTIONS = ['molecule adjacency is symmetric and closed (Graph invariant; the driver answers `malformed` otherwise)',
               'CPython set iteration order is not modelled: components are compared as sorted blocks; dict key order and the order '
               'of rings inside per-atom lists are not part of the property and are sorted before comparing; the PID stage is '
               'compared under ascending set order on both sides, the unmodified mol.sssr differs from that on 1-2 % of the cases '
               'by an equally valid choice (counted as pid-numbering-tie-with-mol.sssr) and is certified relationally as before',
               'classes excluded from the minimality / numbering clauses only (gap_class): recorded bicyclic cores with three bridges '
               'of >= 3 bonds; recorded dense cages (block with >= 6 independent rings and average degree >= 3; there also dependent '
               'sets / ImplementationError); known finding C06/not-minimum/multi-bridge-core (polycyclic block, two atoms at '
               'distance >= 3 joined by >= 3 disjoint bridges) — every other clause is checked on these graphs too',
               'labelled enumeration of 8-atom graphs (about 1e7) is replaced by one representative per isomorphism class under random '
               'renumberings; `exhaustive` refers to the labelled stream (<= 6 atoms quick, <= 7 atoms and <= 5 rings thorough)']
HAS_DRIVER = True
EXTRA_MODULES = ['Spec.CycleBasis', 'Spec.CycleBasisMin', 'Model.C06Rings', 'Model.C06Pid']
FINDINGS_MODULE = 'ChythonModel.Findings.C06'

K_FIELDS = ['cc', 'ccns', 'skin', 'skinns', 'rc', 'ar', 'ars', 'arom', 'marks']
PROGRAMS = ['MoleculeContainer add_bond/delete_bond/add_atom/delete_atom/__enter__/__exit__/copy/remap/union/substructure/split + kekule/thiele/explicify_hydrogens/implicify_hydrogens/remove_coordinate_bonds/remove_metals/... (cache discipline of the ring and component views)',
            'MoleculeContainer.connected_components', 'rings._connected_components(not_special_connectivity)',
            'MoleculeContainer.skin_graph', 'rings._skin_graph(not_special_connectivity)', 'MoleculeContainer.rings_count',
            'MoleculeContainer.sssr', 'MoleculeContainer.atoms_rings', 'MoleculeContainer.atoms_rings_sizes',
            'MoleculeContainer.calc_labels (ring marks)', 'MoleculeContainer.aromatic_rings', 'rings._canonic_ring', 'rings._ring_scissors', 'rings._ring_adjacency',
            'rings._bfs (ascending set order)', 'rings._make_pid', 'rings._c_set',
            'rings._rings_filter (with _connected_rings, _get_unique_chord, _is_condensed_ring; ascending set order)']


def generate(ctx):
    return []   # no literal tables in the anchored code


# ------------------------------------------------------------------------------------------------
# property-level oracle in Python (independent of the Lean model; used by search/probe and by the gap filter)
# ------------------------------------------------------------------------------------------------

def ns_adj(mol):
    """connectivity without coordinate bonds, straight from `_bonds` (not via the cached property under test)"""
    return {n: {m for m, b in ms.items() if b.order != 8} for n, ms in mol._bonds.items()}


def components(adj):
    seen, out = set(), []
    for s in adj:
        if s in seen:
            continue
        comp, st = {s}, [s]
        while st:
            x = st.pop()
            for y in adj[x]:
                if y not in comp:
                    comp.add(y)
                    st.append(y)
        seen |= comp
        out.append(comp)
    return out


def edge_index(adj):
    edges = sorted({(min(a, b), max(a, b)) for a in adj for b in adj[a]})
    return edges, {e: i for i, e in enumerate(edges)}


def two_core(adj):
    g = {n: set(ms) for n, ms in adj.items()}
    todo = [n for n, ms in g.items() if len(ms) <= 1]
    while todo:
        n = todo.pop()
        if n not in g:
            continue
        for m in g.pop(n):
            g[m].discard(n)
            if len(g[m]) <= 1:
                todo.append(m)
    return g


def mcb_sizes(adj):
    """sorted sizes of a minimum cycle basis: Horton candidates + greedy GF(2) elimination"""
    edges, eidx = edge_index(adj)
    mu = len(edges) - len(adj) + len(components(adj))
    cands = []
    for v in adj:
        par, q = {v: None}, collections.deque([v])
        while q:
            x = q.popleft()
            for y in sorted(adj[x]):
                if y not in par:
                    par[y] = x
                    q.append(y)

        def path(x):
            p = []
            while x is not None:
                p.append(x)
                x = par[x]
            return p
        for x, y in edges:
            if x in par and y in par and par[x] != y and par[y] != x:
                px, py = path(x), path(y)
                if set(px) & set(py) == {v}:
                    vec = 1 << eidx[(x, y)]
                    for p in (px, py):
                        for a, b in zip(p, p[1:]):
                            vec ^= 1 << eidx[(min(a, b), max(a, b))]
                    cands.append((len(px) + len(py) - 1, vec))
    cands.sort()
    basis, sizes = [], []
    for ln, vec in cands:
        if len(sizes) == mu:
            break
        r = vec
        for b in basis:
            r = min(r, r ^ b)
        if r:
            basis.append(r)
            sizes.append(ln)
    return sizes, mu


def all_cycles_mcb_sizes(adj):
    """sorted sizes of a minimum cycle basis by the matroid greedy over ALL simple cycles (exponential; tiny graphs only).
    Independent of Horton's candidate-set theorem: used to validate the two Horton-based references."""
    edges, eidx = edge_index(adj)
    mu = len(edges) - len(adj) + len(components(adj))
    cycles = set()

    def dfs(start, cur, path, vec):
        for nxt in adj[cur]:
            e = 1 << eidx[(min(cur, nxt), max(cur, nxt))]
            if nxt == start and len(path) >= 3:
                cycles.add((len(path), vec | e))
            elif nxt > start and nxt not in path:
                dfs(start, nxt, path + [nxt], vec | e)
    for v in adj:
        dfs(v, v, [v], 0)
    basis, sizes = [], []
    for ln, vec in sorted(cycles):
        if len(sizes) == mu:
            break
        r = vec
        for b in basis:
            r = min(r, r ^ b)
        if r:
            basis.append(r)
            sizes.append(ln)
    return sizes, mu


def basis_defects(adj, rings):
    """clauses of the property the ring list violates on graph `adj` (minimality excluded)"""
    edges, eidx = edge_index(adj)
    mu = len(edges) - len(adj) + len(components(adj))
    bad = []
    if len(rings) != mu:
        bad.append('count')
    vecs = []
    for r in rings:
        r = list(r)
        if len(r) < 3 or len(set(r)) != len(r):
            bad.append('not-simple-cycle')
            continue
        vec = 0
        for a, b in zip(r, r[1:] + r[:1]):
            if b not in adj.get(a, ()):
                bad.append('missing-bond')
                break
            vec ^= 1 << eidx[(min(a, b), max(a, b))]
        else:
            vecs.append(vec)
    basis = []
    for v in vecs:
        for b in basis:
            v = min(v, v ^ b)
        if not v:
            bad.append('dependent')
            break
        basis.append(v)
    return sorted(set(bad))


def blocks(adj):
    """biconnected components (as edge sets) of an undirected graph — iterative Hopcroft–Tarjan"""
    idx, low, out, estack = {}, {}, [], []
    counter = 0
    for root in adj:
        if root in idx:
            continue
        idx[root] = low[root] = counter
        counter += 1
        stack = [(root, None, iter(sorted(adj[root])))]
        while stack:
            v, parent, it = stack[-1]
            for w in it:
                if w == parent:
                    continue
                if w not in idx:
                    idx[w] = low[w] = counter
                    counter += 1
                    estack.append((v, w))
                    stack.append((w, v, iter(sorted(adj[w]))))
                    break
                elif idx[w] < idx[v]:
                    estack.append((v, w))
                    low[v] = min(low[v], idx[w])
            else:
                stack.pop()
                if stack:
                    u = stack[-1][0]
                    low[u] = min(low[u], low[v])
                    if low[v] >= idx[u]:
                        comp = []
                        while True:
                            e = estack.pop()
                            comp.append(e)
                            if e == (u, v):
                                break
                        out.append(comp)
    return out


def _dists(g, s):
    d, q = {s: 0}, collections.deque([s])
    while q:
        x = q.popleft()
        for y in g[x]:
            if y not in d:
                d[y] = d[x] + 1
                q.append(y)
    return d


def disjoint_paths(g, s, t, want=3):
    """number (capped at `want`) of internally vertex-disjoint s-t paths (Menger; unit-capacity max flow on the
    vertex-split digraph: v_in=(v,0) -> v_out=(v,1), edge arcs u_out -> w_in)"""
    flow = collections.defaultdict(int)

    def residual(x, y):
        (xv, xs), (yv, ys) = x, y
        if xs == 0 and ys == 1 and xv == yv:        # internal arc, forward
            return (want if xv in (s, t) else 1) - flow[(x, y)]
        if xs == 1 and ys == 0 and xv != yv:        # edge arc, forward
            return 1 - flow[(x, y)]
        return flow[(y, x)]                         # reverse of one of the two

    def nbrs(x):
        v, side = x
        if side == 0:
            yield (v, 1)
            for w in g[v]:
                yield (w, 1)
        else:
            for w in g[v]:
                yield (w, 0)
            yield (v, 0)
    total = 0
    for _ in range(want):
        src, dst = (s, 1), (t, 0)
        par, q, found = {src: None}, collections.deque([src]), False
        while q and not found:
            x = q.popleft()
            for y in nbrs(x):
                if y not in par and residual(x, y) > 0:
                    par[y] = x
                    if y == dst:
                        found = True
                        break
                    q.append(y)
        if not found:
            break
        y = dst
        while par[y] is not None:
            x = par[y]
            (xv, xs), (yv, ys) = x, y
            if (xs == 0 and ys == 1 and xv == yv) or (xs == 1 and ys == 0 and xv != yv):
                flow[(x, y)] += 1
            else:
                flow[(y, x)] -= 1
            y = x
        total += 1
    return total


def multi_bridge(g):
    """two atoms at distance >= 3 joined by >= 3 internally disjoint bridges (every bridge then has >= 3 bonds)"""
    hubs = [v for v, ms in g.items() if len(ms) >= 3]
    for i, u in enumerate(hubs):
        d = _dists(g, u)
        for v in hubs[i + 1:]:
            if d.get(v, 0) >= 3 and disjoint_paths(g, u, v) >= 3:
                return u, v
    return None


def gap_class(adj):
    """None, or the class of ring systems on which the PID heuristic is known not to deliver a minimum basis:
      'recorded:theta'          property text: a bicyclic core whose three bridges all have >= 3 bonds
      'recorded:dense-cage'     property text: dense cages (7 atoms / 12 bonds and denser): a block with >= 6 independent rings
                                and average degree >= 3
      'known:multi-bridge-core' known finding: a polycyclic (>= 3 rings) block in which two atoms at distance >= 3 are joined
                                by >= 3 disjoint bridges — the same weakness beyond the recorded bicyclic case
    The strongest class present wins (dense-cage > multi-bridge > theta)."""
    found = set()
    for comp in blocks(adj):
        verts = {v for e in comp for v in e}
        mu = len(comp) - len(verts) + 1
        if mu < 2:
            continue
        if mu >= 6 and 2 * len(comp) >= 3 * len(verts):
            found.add('recorded:dense-cage')
            continue
        g = collections.defaultdict(set)
        for a, b in comp:
            g[a].add(b)
            g[b].add(a)
        if multi_bridge(g):
            found.add('recorded:theta' if mu == 2 else 'known:multi-bridge-core')
    for c in ('recorded:dense-cage', 'known:multi-bridge-core', 'recorded:theta'):
        if c in found:
            return c
    return None


KNOWN_SIG = 'C06/not-minimum/multi-bridge-core'


def exempt(gap, clause):
    """is `clause` outside the claimed domain / a listed finding for a graph of class `gap`?"""
    if gap is None:
        return False
    if clause in ('not-minimum', 'numbering-dependent'):
        return True
    return gap == 'recorded:dense-cage' and clause in ('basis-dependent', 'basis-count', 'sssr-raises')


# ------------------------------------------------------------------------------------------------
# cases
# ------------------------------------------------------------------------------------------------

def graph_ints(n_atoms, edges, special=(), order=None, nbr_shuffle=None, aromatic=()):
    """wire ints of a carbon skeleton; `special` edges get order 8, `aromatic` edges order 4; `order` = atom insertion order"""
    verts = list(order) if order else list(range(1, n_atoms + 1))
    nb = {v: [] for v in verts}
    sp = {frozenset(e) for e in special}
    ar = {frozenset(e) for e in aromatic}
    for a, b in edges:
        o = 8 if frozenset((a, b)) in sp else (4 if frozenset((a, b)) in ar else 1)
        nb[a].append((b, o))
        nb[b].append((a, o))
    out = [len(verts)]
    for v in verts:
        ms = nb[v]
        if nbr_shuffle is not None:
            nbr_shuffle.shuffle(ms)
        out += [v, 6, 0, 0, 0, -1, -1, len(ms)]
        for m, o in ms:
            out += [m, o, -1]
    return out


def canon_ring(r):
    return ','.join(map(str, r))


def show_components(cs):
    return ';'.join(','.join(map(str, c)) for c in sorted(sorted(c) for c in cs))


def show_adj(g):
    return ';'.join(f'{n}:' + ','.join(map(str, sorted(ms))) for n, ms in sorted(g.items()))


class time_limit:
    """a ring perception that does not come back is reported like a crash instead of hanging the check"""

    def __init__(self, seconds):
        self.seconds = seconds

    def __enter__(self):
        import signal

        def handler(signum, frame):
            raise TimeoutError(f'no result within {self.seconds}s')
        self.old = signal.signal(signal.SIGALRM, handler)
        signal.setitimer(signal.ITIMER_REAL, self.seconds)

    def __exit__(self, *a):
        import signal
        signal.setitimer(signal.ITIMER_REAL, 0)
        signal.signal(signal.SIGALRM, self.old)
        return False


SSSR_TIME_LIMIT = 30
_timeouts = {'n': 0}


def sssr_limit():
    """generous for the first case that does not come back, short afterwards (a hanging mutant must not stall the run)"""
    return SSSR_TIME_LIMIT if _timeouts['n'] == 0 else 2


def impl_fields(mol, live=False):
    """Run the real code on `mol`. Returns (fields, rings or None, error kind).
    `live=False`: `mol` was just built from wire ints (fresh caches); labels are computed here.
    `live=True`: `mol` is an object with an edit history; only its public views are read, exactly as a caller would see
    them (no `calc_labels`, no private helper applied to a cached private view)."""
    from chython.algorithms.rings import _connected_components, _skin_graph
    from chython.exceptions import ImplementationError
    f = {}
    f['cc'] = show_components(mol.connected_components)
    if not live:
        ns = mol.not_special_connectivity
        f['ccns'] = show_components(_connected_components(ns))
        f['skinns'] = show_adj(_skin_graph(ns))
    f['skin'] = show_adj(mol.skin_graph)
    f['rc'] = str(mol.rings_count)
    try:
        with time_limit(sssr_limit()):
            rings = [tuple(r) for r in mol.sssr]
    except ImplementationError:
        return f, None, 'lib:ImplementationError'
    except Exception as e:  # crash inside the heuristic
        if isinstance(e, TimeoutError):
            _timeouts['n'] += 1
        return f, None, 'crash:' + type(e).__name__
    # dict key order and the order of the rings inside a per-atom list are not part of the property: sorted
    f['ar'] = ';'.join(f'{n}:' + '/'.join(canon_ring(r) for r in sorted(tuple(r) for r in rs))
                       for n, rs in sorted(mol.atoms_rings.items()))
    f['ars'] = ';'.join(f'{n}:' + ','.join(map(str, sorted(s))) for n, s in sorted(mol.atoms_rings_sizes.items()))
    try:
        f['arom'] = '/'.join(canon_ring(r) for r in sorted(tuple(r) for r in mol.aromatic_rings))
    except Exception:
        f['arom'] = 'raise'
    if not live:
        mol.calc_labels()
    marks = []
    for n, ms in sorted(mol._bonds.items()):
        a = mol._atoms[n]
        marks.append(f'{n}:{int(bool(a._in_ring))}:' + ','.join(map(str, sorted(a._ring_sizes))) + ':' +
                     ','.join(f'{m}={int(bool(b._in_ring))}' for m, b in sorted(ms.items())))
    f['marks'] = ';'.join(marks)
    return f, rings, None


def case_line(ints, rings):
    out = ['case'] + [str(x) for x in ints] + [str(len(rings))]
    for r in rings:
        out.append(str(len(r)))
        out += [str(x) for x in r]
    return ' '.join(out)


def parse_resp(line):
    if '=' not in line:
        return {'_': line}
    return dict(p.split('=', 1) for p in line.split('|'))


PID_MAX_SKIN = 48      # atoms of the pruned graph beyond which the (n^4 assoc-list) Lean model of _make_pid is not run
PID_STAGES = ('_skin_graph', '_bfs', '_make_pid', '_c_set', '_rings_filter')
_pid_state = {'off': None}


def pid_stage(mol, adj, dist, tag=''):
    """the stages of `_sssr` run on the real source under ascending set order (c06_sorted); None = not compared"""
    if _pid_state['off'] is None:
        try:
            S = c06_sorted.load()
            missing = [k for k in PID_STAGES if not hasattr(S, k)]
            _pid_state['off'] = ('rings.py no longer has ' + ','.join(missing)) if missing else ''
        except Exception as e:   # the file cannot be rewritten: recorded, this private stream is skipped (DESIGN §10)
            _pid_state['off'] = f'rings.py could not be executed under sorted-set semantics: {type(e).__name__}: {e}'
    if _pid_state['off']:
        dist['pid-stream-skipped: ' + _pid_state['off']] += 1
        return None
    try:
        rc = mol.rings_count
    except Exception:
        return None
    if not rc or rc < 0:
        return None
    if _pid_state.get('quick') and len(adj) == 6 and tag.startswith('exhaustive-labelled') and \
            zlib.crc32(repr(sorted((n, tuple(sorted(ms))) for n, ms in adj.items())).encode()) % 3:
        dist['pid-skipped-quick-sample (2 of 3 labelled 6-atom graphs; all of them in thorough)'] += 1
        return None
    if len(two_core(adj)) > PID_MAX_SKIN:
        dist['pid-skipped-large'] += 1
        return None
    # every 8th graph: _rings_filter is also asked for another number of rings (1 … rings_count + 1), which reaches the
    # `n_sssr == 1` return, the early returns and `ImplementationError('SSSR count not reached')` on ordinary graphs
    h = zlib.crc32(repr(sorted((n, tuple(sorted(ms))) for n, ms in adj.items())).encode())
    extra = (1 + (h >> 3) % (rc + 1),) if h % 8 == 0 else ()
    try:
        with time_limit(sssr_limit()):
            return c06_sorted.pid_fields(mol.not_special_connectivity, rc, extra)
    except TimeoutError:
        _timeouts['n'] += 1
        return {'paths': 'timeout', 'cands': 'timeout', 'final': 'timeout'}


def _ring_list(txt):
    return [tuple(int(x) for x in r.split(',')) for r in txt.split(';') if r and r != '!']


def _canon_set(txt):
    """candidate sequence -> sorted set of dihedrally canonical rings (+ '!' if the generator raised)"""
    return sorted({c06_sorted.canon(r) for r in _ring_list(txt)}) + (['!'] if '!' in txt else [])


def _canon_final(txt):
    if not txt.startswith('ok'):
        return txt
    return sorted(c06_sorted.canon(r) for r in _ring_list(txt[3:]))


def compare_pid(item, impl, model, d, broke, histories, n_req=0, key='final'):
    """P: Lean model of _bfs/_make_pid/_c_set/_rings_filter (Model/C06Pid.lean) vs the real source under ascending set
    order. Compared as canonical ring lists: `_bfs` paths as a sorted list, candidates as the sorted set of canonical
    rings, the final list as the sorted list of canonical rings (so a rewrite that only reorders is not an alarm; the
    exact sequences are compared too, but only counted)."""
    tag, ints, fields, rings, err, adj = item
    if n_req and impl.get('exc') in ('TypeError', 'AttributeError', 'NameError') and err is None and rings is not None:
        return
    if n_req:   # _rings_filter asked for n_req rings: only the final list is a new comparison
        mf, jf = _canon_final(model.get('final', '')), _canon_final(impl[key])
        d['pid-other-n_sssr:' + (model.get('final', '').split(' ')[0])] += 1
        if mf != jf:
            broke('correspondence', 'pid-rings-filter', f'{tag}: _rings_filter(…, {n_req}) model {model.get("final")!r} impl(sorted sets) {impl[key]!r} wire={ints}', ints)
        return
    if impl.get('exc') in ('TypeError', 'AttributeError', 'NameError') and err is None and rings is not None:
        # the private stages could not be called the way this stream calls them (signature / helper renamed by a refactoring)
        # while the public mol.sssr works on the same molecule: recorded, this private stream is skipped (DESIGN §10);
        # mol.sssr itself stays certified by the relational checkers
        d['pid-stage-interface-changed (' + impl['exc'] + '): skipped'] += 1
        return
    d['pid-compared'] += 1
    if '_' in model:
        broke('correspondence', 'pid-driver-answer', f'{tag}: driver answered {model["_"]!r} for pid wire={ints}', ints)
        return
    note = _hist_note(histories, ints)
    if sorted(_ring_list(model.get('paths', ''))) != sorted(_ring_list(impl['paths'])) or \
            (impl['paths'] in ('raise', 'timeout')) != (model.get('paths') == 'raise'):
        broke('correspondence', 'pid-bfs-paths', f'{tag}: _bfs paths model {model.get("paths")!r} impl(sorted sets) {impl["paths"]!r} wire={ints}{note}', ints)
        return
    if impl['cands'] in ('raise', 'timeout') or model.get('cands') == 'raise':
        if not (impl['cands'] == 'raise' and model.get('cands') == 'raise'):
            broke('correspondence', 'pid-candidates', f'{tag}: _c_set model {model.get("cands")!r} impl(sorted sets) {impl["cands"]!r} wire={ints}{note}', ints)
            return
    elif _canon_set(model.get('cands', '')) != _canon_set(impl['cands']):
        broke('correspondence', 'pid-candidates', f'{tag}: _c_set candidates model {model.get("cands")!r} impl(sorted sets) {impl["cands"]!r} wire={ints}{note}', ints)
        return
    mf, jf = _canon_final(model.get('final', '')), _canon_final(impl['final'])
    if mf != jf:
        broke('correspondence', 'pid-rings-filter', f'{tag}: _rings_filter model {model.get("final")!r} impl(sorted sets) {impl["final"]!r} wire={ints}{note}', ints)
        return
    d['pid-sequences-identical' if (model.get('cands') == impl['cands'] and model.get('final') == impl['final']
                                    and model.get('paths') == impl['paths']) else 'pid-equal-up-to-order'] += 1
    d['pid-final:' + (model.get('final', '').split(' ')[0])] += 1
    if len(_ring_list(model.get('cands', ''))) > len(mf if isinstance(mf, list) else []):
        d['pid-candidates-filtered'] += 1
    # the unmodified run (CPython set order): equal to the model unless the numbering decides a tie
    if err is None and rings is not None and isinstance(mf, list):
        d['pid-model-equals-mol.sssr' if sorted(c06_sorted.canon(r) for r in rings) == mf else 'pid-numbering-tie-with-mol.sssr'] += 1
    elif err is not None:
        d['pid-model-equals-mol.sssr' if (mf == 'notreached') == (err == 'lib:ImplementationError') and not isinstance(mf, list)
          else 'pid-numbering-tie-with-mol.sssr'] += 1


def evaluate(cases, build_ok=True):
    """Run the implementation and the Lean driver on `cases` = [(tag, wire ints)] and compare. Pure: returns a picklable
    result dict so that it can run in worker processes."""
    import hashlib
    res = {'counts': [], 'dist': collections.Counter(), 'broken': [], 'suspects': [], 'samples': [], 'disagreements': 0,
           'known': []}

    def broke(kind, name, detail, ints):
        res['disagreements'] += 1
        res['broken'].append((kind, name, detail))
        if len(res['suspects']) < 40:
            res['suspects'].append(histories.get(id(ints), ints))
    items = []
    pid_impl = []
    histories = {}
    for case in cases:
        tag, ints = case[0], case[1]
        if _timeouts['n'] >= 8:   # ring perception keeps hanging: stop feeding it, the broken stream is already recorded
            res['dist']['skipped-after-repeated-timeouts'] += 1
            continue
        mol, _ = wire.ints_to_mol(ints)
        adj = ns_adj(mol)
        if len(case) > 2:   # snapshot of a live object taken at the time of the edit history (see run_history)
            fields, rings, err, hist = case[2]
            histories[id(ints)] = {'history': hist}
        else:
            fields, rings, err = impl_fields(mol)
        if err is not None:
            gap = gap_class(adj)
            res['dist']['sssr-error:' + err + (':' + gap if gap else '')] += 1
            if err.startswith('crash') or not exempt(gap, 'sssr-raises'):
                broke('relational', 'sssr-raises', f'{tag}: mol.sssr raised {err}; wire={ints}{_hist_note(histories, ints)}', ints)
        items.append((tag, ints, fields, rings, err, adj))
        pid_impl.append(pid_stage(mol, adj, res['dist'], tag))
    if not build_ok or not items:
        return res
    lines = [case_line(ints, rings or []) for _, ints, _, rings, _, _ in items]
    pid_idx = [i for i, pf in enumerate(pid_impl) if pf is not None]
    pid_req = []   # (item index, n_sssr or 0 for Rings.sssr itself, key of the implementation's answer)
    for i in pid_idx:
        pid_req.append((i, 0, 'final'))
        pid_req += [(i, int(k[5:]), k) for k in pid_impl[i] if k.startswith('final') and k != 'final' and k[5:].isdigit()]
    pid_lines = [f'pid {n} ' + ' '.join(str(x) for x in items[i][1]) for i, n, _ in pid_req]
    resp = core.run_driver('C06', lines + pid_lines)
    if len(resp) != len(lines) + len(pid_lines):
        res['broken'].append(('correspondence', 'driver-lines', f'{len(resp)} responses for {len(lines) + len(pid_lines)} requests'))
        return res
    for (i, n, key), rl in zip(pid_req, resp[len(lines):]):
        compare_pid(items[i], pid_impl[i], parse_resp(rl), res['dist'], broke, histories, n, key)
    resp = resp[:len(lines)]
    for (tag, ints, fields, rings, err, adj), line, rl in zip(items, lines, resp):
        r = parse_resp(rl)
        mu = int(fields['rc']) if fields['rc'].lstrip('-').isdigit() else 0
        res['counts'].append((hashlib.blake2b(line.encode(), digest_size=8).digest(), mu > 0))
        d = res['dist']
        d[tag] += 1
        d[f'rings={min(mu, 9)}'] += 1
        d[f'atoms={ints[0] // 10 * 10}+' if ints[0] >= 10 else f'atoms={ints[0]}'] += 1
        if any(len(ms) != len(adj[n]) for n, ms in zip(adj, _nbr_counts(ints))):
            d['with-coordinate-bonds'] += 1
        if mu > 0 and len(res['samples']) < 3:
            res['samples'].append({'request': line[:300], 'model': rl[:400], 'impl_sssr': [list(x) for x in (rings or [])][:6]})
        if fields.get('arom'):
            d['with-aromatic-rings'] += 1
        if '_' in r:
            broke('correspondence', 'driver-answer', f'{tag}: driver answered {rl!r} for {line[:300]}', ints)
            continue
        renumbered = id(ints) in histories and renumbering_in(histories[id(ints)]['history']['ops'])
        for k in K_FIELDS:
            if k in fields and r.get(k) != fields[k]:   # ring views are absent when sssr raised
                if k == 'marks' and renumbered and marks_agree_up_to_basis(r.get(k, ''), fields[k], ints):
                    d['ring-size-marks-of-the-basis-before-renumbering (known finding class)'] += 1
                    continue
                broke('correspondence', k, f'{tag}: model {k}={r.get(k)!r} impl {k}={fields[k]!r} wire={ints}{_hist_note(histories, ints)}', ints)
        # the two independent reference implementations (Lean Horton+greedy, Python Horton+greedy; for <= 6 atoms also
        # the greedy over all simple cycles) must agree on the size multiset of a minimum cycle basis
        pyref = ','.join(map(str, mcb_sizes(adj)[0]))
        if r.get('ref') != pyref:
            broke('relational', 'reference-minimum-basis', f'{tag}: Lean minBasis sizes {r.get("ref")} vs Python {pyref} wire={ints}', ints)
        if ints[0] <= 6 and mu > 0:
            allc = ','.join(map(str, all_cycles_mcb_sizes(adj)[0]))
            d['reference-validated-against-all-cycles-greedy'] += 1
            if allc != pyref:
                broke('relational', 'reference-minimum-basis', f'{tag}: Horton sizes {pyref} vs all-cycles greedy {allc} wire={ints}', ints)
        if err is not None:
            continue
        gap = None
        if r.get('chk') != 'ok' or r.get('chkb') != '1':
            gap = gap_class(adj)
            clause = 'basis-' + ('count' if str(r.get('chk')).startswith('count') else r.get('chk'))
            if exempt(gap, clause):
                d[f'{clause}-in:{gap}'] += 1
            else:
                broke('relational', 'check_sssr', f'{tag}: checker verdict {r.get("chk")} on sssr={rings} wire={ints}{_hist_note(histories, ints)}', ints)
            continue
        sizes = ','.join(map(str, sorted(len(x) for x in rings)))
        # proved verdict (Props/C06.lean: sssr_minimal_wrt_horton, minimal_wrt_family_iff): minw=1 iff every Horton candidate
        # is a GF(2) sum of reported rings that are not longer than it, i.e. the reported basis is minimum w.r.t. the Horton
        # family. Both minimum bases of one matroid have the same size multiset, so (Horton completeness assumed) this
        # verdict and the comparison with the greedy reference must always agree.
        if mu > 0:
            d['minimal-wrt-horton:' + str(r.get('minw'))] += 1
        if r.get('minw') not in ('0', '1') or (r.get('minw') == '1') != (r.get('ref') == sizes):
            broke('relational', 'reference-minimum-basis',
                  f'{tag}: exchange checker minw={r.get("minw")} but sssr sizes {sizes} vs greedy reference {r.get("ref")} wire={ints}', ints)
        if r.get('ref') != sizes or r.get('minw') == '0':
            gap = gap_class(adj)
            if gap is None:
                broke('relational', 'minimum-size-multiset',
                      f'{tag}: sssr sizes {sizes} but reference minimum basis {r.get("ref")} wire={ints}', ints)
            else:
                d['not-minimum-in:' + gap] += 1
                if gap.startswith('known:') and len(res['known']) < 3:
                    res['known'].append((ints, sizes, r.get('ref')))
    return res


RENUMBERING_OPS = ('remap', 'union')   # union(remap=True) renumbers the labelled atoms of the other molecule
REMAP_SIG = 'C06/atom-marks/ring-sizes-after-remap'


def renumbering_in(ops):
    return any(op[0] in RENUMBERING_OPS for op in ops)


def marks_agree_up_to_basis(model, impl, ints):
    """After a renumbering the implementation's atom.ring_sizes are those of the minimum cycle basis chosen under the OLD
    numbers (known finding REMAP_SIG). What does not depend on the choice of basis must still agree exactly: atom.in_ring,
    bond.in_ring of every non-coordinate bond, `ring_sizes` empty iff not in a ring."""
    special = set()
    i = 1
    for _ in range(ints[0]):
        n, deg = ints[i], ints[i + 7]
        for j in range(deg):
            if ints[i + 8 + 3 * j + 1] == 8:
                special.add((n, ints[i + 8 + 3 * j]))
        i += 8 + 3 * deg

    def parse(txt):
        out = {}
        for part in txt.split(';'):
            if not part:
                continue
            n, inr, sizes, bonds = part.split(':')
            out[int(n)] = (inr, bool(sizes), {b.split('=')[0]: b.split('=')[1] for b in bonds.split(',') if b})
        return out
    try:
        a, b = parse(model), parse(impl)
    except ValueError:
        return False
    if a.keys() != b.keys():
        return False
    for n in a:
        if a[n][0] != b[n][0] or a[n][1] != b[n][1] or a[n][2].keys() != b[n][2].keys():
            return False
        for m in a[n][2]:
            if (n, int(m)) not in special and a[n][2][m] != b[n][2][m]:
                return False
    return True


def _hist_note(histories, ints):
    h = histories.get(id(ints))
    return f' after history {json.dumps(h["history"]["ops"])} from start {h["history"]["start"]}' if h else ''


def _nbr_counts(ints):
    """full neighbour lists per atom in wire order (to spot molecules that have order-8 bonds)"""
    out, i = [], 1
    for _ in range(ints[0]):
        deg = ints[i + 7]
        out.append(ints[i + 8:i + 8 + 3 * deg:3])
        i += 8 + 3 * deg
    return out


def merge(ctx, res):
    for h, nt in res['counts']:
        ctx.cov['evaluations'] += 1
        if nt:
            ctx._distinct.add(h)
    for k, v in res['dist'].items():
        ctx.dist(k, v)
    for sm in res['samples']:
        ctx.sample(sm)
    ctx.cov['disagreements_checked'] += res['disagreements']
    for kind, name, detail in res['broken'][:50]:
        ctx.broke(kind, name, detail)
    _state['suspects'] += res['suspects']
    for ints, sizes, ref in res['known']:
        # An instance of the listed finding met in a stream: confirmed on the real code by the Python oracle (never by the
        # Lean model) and recorded. It is NOT pushed through ctx.fail here — that would suppress the failing-input search
        # for unrelated breakage; the standing probe of known_findings/C06.json prints the KNOWN-FINDING line on every run.
        fl = [x for x in property_failures(ints, check_numbering=False, apply_exemptions=False) if x[0] == 'not-minimum']
        ctx.dist('known-finding-instance-confirmed' if fl else 'known-finding-instance-not-confirmed')
        if not fl:
            ctx.broke('relational', 'minimum-size-multiset',
                      f'Lean reference says sizes {ref} but the Python oracle accepts {sizes}; wire={ints}')


def labelled_graphs(n, lo, hi, max_mu):
    """connected labelled graphs on 1..n, degree <= 4, cyclomatic number <= max_mu, for edge masks in [lo, hi)"""
    pairs = list(itertools.combinations(range(1, n + 1), 2))
    for mask in range(lo, hi):
        k = bin(mask).count('1')
        if k < n - 1 or k - n + 1 > max_mu:
            continue
        edges = [pairs[i] for i in range(len(pairs)) if mask >> i & 1]
        deg = [0] * (n + 1)
        adj = {v: [] for v in range(1, n + 1)}
        for a, b in edges:
            deg[a] += 1
            deg[b] += 1
            adj[a].append(b)
            adj[b].append(a)
        if max(deg) > 4:
            continue
        seen, st = {1}, [1]
        while st:
            for y in adj[st.pop()]:
                if y not in seen:
                    seen.add(y)
                    st.append(y)
        if len(seen) == n:
            yield edges


def _exhaustive_worker(args):
    n, lo, hi, max_mu, build_ok = args
    cases = [(f'exhaustive-labelled-{n}', graph_ints(n, e)) for e in labelled_graphs(n, lo, hi, max_mu)]
    out = None
    for i in range(0, len(cases), 5000):
        r = evaluate(cases[i:i + 5000], build_ok)
        if out is None:
            out = r
        else:
            out['counts'] += r['counts']
            out['dist'].update(r['dist'])
            out['broken'] += r['broken'][:20]
            out['suspects'] += r['suspects'][:10]
            out['disagreements'] += r['disagreements']
            out['known'] += r['known']
    return out or evaluate([], build_ok)


_state = {'suspects': []}


def theta_edges(a, b, c):
    edges, nxt = [], 3
    for ln in (a, b, c):
        prev = 1
        for _ in range(ln - 1):
            edges.append((prev, nxt))
            prev, nxt = nxt, nxt + 1
        edges.append((prev, 2))
    return nxt - 1, edges


def strained_cage(rng, max_atoms=12):
    """Small strained polycyclic cage (degree <= 4): a bicyclic / propellane-like core whose bridges have 1-3 bonds
    (bicyclo[1.1.0]butane, [1.1.1]pentane, [2.1.1]hexane, [2.2.1]heptane, [1.1.1]propellane ...), then 1-4 further rings:
    fused on a bond (1-3 new atoms), spiro (3/4-ring), one-atom bridges and chords between atoms two bonds apart.
    This is the class in which rings without an atom of their own pile up in the `hold` list of `_rings_filter`, so that
    `_connected_rings` / `_is_condensed_ring` decide the result - for a fraction of the numberings only."""
    nb = rng.choice([3, 3, 3, 4])
    lens = [rng.choice([1, 2, 2, 2, 3, 3]) for _ in range(nb)]
    while lens.count(1) > 1:
        lens[lens.index(1)] = 2
    edges, nxt = [], 3
    for ln in lens:
        prev = 1
        for _ in range(ln - 1):
            edges.append((prev, nxt))
            prev, nxt = nxt, nxt + 1
        edges.append((prev, 2))
    for _ in range(rng.randint(1, 4)):
        if nxt - 1 >= max_atoms:
            break
        d = collections.Counter(v for e in edges for v in e)
        g = collections.defaultdict(set)
        for a, b in edges:
            g[a].add(b)
            g[b].add(a)
        mode = rng.choice(['fuse', 'fuse', 'spiro', 'bridge', 'bridge', 'chord'])
        if mode == 'fuse':
            cand = [(a, b) for a, b in edges if d[a] < 4 and d[b] < 4]
            if not cand:
                continue
            a, b = rng.choice(cand)
            k = rng.choice([1, 1, 2, 2, 3])
            chain = [a] + list(range(nxt, nxt + k)) + [b]
            nxt += k
            edges += list(zip(chain, chain[1:]))
        elif mode == 'spiro':
            cand = [a for a in sorted(g) if d[a] <= 2]
            if not cand:
                continue
            a = rng.choice(cand)
            k = rng.choice([2, 2, 3])
            chain = [a] + list(range(nxt, nxt + k)) + [a]
            nxt += k
            edges += list(zip(chain, chain[1:]))
        else:
            pairs = sorted({(a, b) for a in g if d[a] < 4 for m in g[a] for b in g[m]
                            if b > a and b not in g[a] and d[b] < 4})
            if not pairs:
                continue
            a, b = rng.choice(pairs)
            if mode == 'chord':
                edges.append((a, b))
            else:
                edges += [(a, nxt), (nxt, b)]
                nxt += 1
    return nxt - 1, edges


def renumbered_ints(rng, ints):
    """same graph, random new atom numbers, random atom and neighbour insertion order"""
    mol, _ = wire.ints_to_mol(ints)
    nums = list(mol._atoms)
    new = rng.sample(range(1, max(len(nums) * 3, 12)), len(nums))
    mp = dict(zip(nums, new))
    order = nums[:]
    rng.shuffle(order)
    out = [len(nums)]
    for n in order:
        a = mol._atoms[n]
        ms = list(mol._bonds[n].items())
        rng.shuffle(ms)
        out += [mp[n], a.atomic_number, 0, a._charge, 0, -1, -1, len(ms)]
        for m, b in ms:
            out += [mp[m], int(b), -1]
    return out


def iso_classes(n, max_mu):
    """one representative edge list per isomorphism class of connected graphs with `n` vertices, degree <= 4 and
    cyclomatic number <= max_mu, grown vertex by vertex from the classes with n-1 vertices (every connected graph has a
    non-cut vertex); classes keyed by RDKit's canonical SMILES of the carbon skeleton."""
    from rdkit import Chem
    from rdkit import RDLogger
    RDLogger.DisableLog('rdApp.*')

    def key(nv, edges):
        m = Chem.RWMol()
        for _ in range(nv):
            m.AddAtom(Chem.Atom(0))
        for a, b in edges:
            m.AddBond(a - 1, b - 1, Chem.BondType.SINGLE)
        return Chem.MolToSmiles(m)

    level = {key(1, ()): ()}
    for nv in range(2, n + 1):
        nxt = {}
        for edges in level.values():
            mu0 = len(edges) - (nv - 1) + 1
            deg = collections.Counter(v for e in edges for v in e)
            free = [v for v in range(1, nv) if deg[v] < 4]
            for k in range(1, min(4, 1 + max_mu - mu0) + 1):
                for att in itertools.combinations(free, k):
                    e2 = tuple(edges) + tuple((a, nv) for a in att)
                    kk = key(nv, e2)
                    if kk not in nxt:
                        nxt[kk] = e2
        level = nxt
    return list(level.values())


# ------------------------------------------------------------------------------------------------
# rule-driven starts: molecules on which a whole-molecule rewriting step really rewrites a bond to / from a coordinate
# bond, preferably a bond that closes a ring (the ring cache must then follow)
# ------------------------------------------------------------------------------------------------

REWRITERS = ['standardize', 'canonicalize', 'standardize_charges', 'fix_resonance', 'neutralize']
DATIVE_FAMILIES = [   # covalently drawn dative bonds of the families the rule tables know (chelates, N->B, bridges, metallocenes)
    'CN(C)(C)B(C)(C)C', 'C[N+](C)(C)[B-](C)(C)C', 'CN1(C)CCB1(C)C', 'CN1(C)CCCCB1(C)C', 'CC1=N(C)B(C)(C)OC1', 'CS1(C)CCB1(C)C',
    'CO1(C)CCCB1(C)C', 'FB1(F)N2C=CC=C2C(C)=C2C=CC=N12', 'CB1(C)N2C=CC=C2C=C2C=CC=N12', '[H]B1([H])[H]B([H])([H])[H]1',
    'CB1(C)[H]B(C)(C)[H]1', '[Fe]1234C5C1C2C3C45', '[Fe]12345(C6C1C2C3C46)C1C5C2C3C41', '[Ru]1234C5=C1C2C3=C45',
    'O#C[Fe](C#O)(C#O)C#O', 'O#C[Cr]1(C#O)CCC1', 'N#C[Fe]C#N', 'N#C[Pd]1CCCC1C#N', 'CN1C=CN(C)C1=[Pd]', 'CN1C=CN2CC[Pd]=C12',
    'C[N](C)(C)[Cu]', 'CN1(C)CC[Cu]1', 'CP(C)(C)(C)[Pd]', 'CP1(C)(C)CC[Pd]1', 'C[O](C)(C)[Mg]', 'C[O]1(C)CC[Mg]1', 'O=C=N[Fe]',
    'O=C=N[Fe]1CCC1', 'N#CO[Cu]', 'O=C([Fe])C', 'O=C1CC[Fe]1', 'O=C([Fe])[Fe]',
]


def _instantiate(pattern, rng):
    """a concrete molecule built from a rule's query pattern: one element per query atom, the drawn bond orders, methyl /
    methylene substituents up to the required neighbour count. Best effort; the caller verifies that the rule fires."""
    from chython import MoleculeContainer
    from chython.periodictable import Element
    mol = MoleculeContainer()
    need = {}
    for n, a in pattern.atoms():
        z = getattr(a, 'atomic_number', None)
        cls = type(a).__name__
        if cls == 'AnyMetal':
            z = rng.choice([26, 46, 29, 44, 28])
        elif cls == 'AnyElement' or z is None:
            nums = getattr(a, '_numbers', None)
            z = nums[0] if nums else 6
        ch = getattr(a, 'charge', 0) or 0
        if isinstance(ch, tuple):
            ch = ch[0] if ch else 0
        mol.add_atom(Element.from_atomic_number(z)(charge=ch, is_radical=bool(getattr(a, 'is_radical', False))), n,
                     _skip_calculation=True)
        need[n] = (tuple(getattr(a, 'neighbors', ()) or ()), tuple(getattr(a, 'hybridization', ()) or ()))
    for n, m, b in pattern.bonds():
        o = b.order[0] if isinstance(b.order, tuple) else b.order
        mol.add_bond(n, m, o, _skip_calculation=True)
    nxt = max(mol._atoms) + 1
    for n, (nbrs, hyb) in need.items():
        drawn = [b.order for b in mol._bonds[n].values()]
        want = min(nbrs) if nbrs else len(drawn)
        first = True
        while len(mol._bonds[n]) < want:
            o = 1
            if first and hyb and 2 in hyb and 1 not in hyb and 2 not in drawn:
                o = 2
            elif first and hyb and 3 in hyb and 1 not in hyb and 2 not in hyb and 3 not in drawn:
                o = 3
            first = False
            mol.add_atom(Element.from_atomic_number(6)(), nxt, _skip_calculation=True)
            mol.add_bond(n, nxt, o, _skip_calculation=True)
            nxt += 1
    mol.fix_structure()
    return mol


def _coordinate_changes(mol):
    """bonds whose order a rewriting step changes to or from 8, found by running the step on a copy"""
    out = set()
    before = {frozenset((n, m)): b.order for n, m, b in mol.bonds()}
    for op in ('standardize', 'canonicalize'):
        c = mol.copy()
        try:
            getattr(c, op)()
        except Exception:
            continue
        if set(c._atoms) != set(mol._atoms):   # canonicalize removed hydrogens: compare the common part only
            pass
        for n, m, b in c.bonds():
            k = frozenset((n, m))
            if k in before and (before[k] == 8) != (b.order == 8):
                out.add(tuple(sorted(k)))
    return out


def _tether(mol, n, m, rng):
    """close a ring through the bond n-m without touching the neighbour counts of n and m: link a neighbour of n to a
    neighbour of m directly or by a short carbon chain. Returns a new molecule or None."""
    from chython.periodictable import Element
    an = [a for a in mol._bonds[n] if a != m and mol._atoms[a].atomic_number == 6 and len(mol._bonds[a]) < 4]
    bm = [b for b in mol._bonds[m] if b != n and mol._atoms[b].atomic_number == 6 and len(mol._bonds[b]) < 4]
    if not an or not bm:
        return None
    a, b = rng.choice(an), rng.choice(bm)
    if a == b or b in mol._bonds[a]:
        return None
    c = mol.copy()
    chain = [a]
    nxt = max(c._atoms) + 1
    for _ in range(rng.choice([0, 1, 1, 2])):
        c.add_atom(Element.from_atomic_number(6)(), nxt, _skip_calculation=True)
        chain.append(nxt)
        nxt += 1
    chain.append(b)
    try:
        for x, y in zip(chain, chain[1:]):
            c.add_bond(x, y, 1, _skip_calculation=True)
        c.fix_structure()
    except Exception:
        return None
    return c


def rule_starts(rng, verbose=False):
    """[(tag, wire ints)]: instances of the rule tables (auto-instantiated from every rule that touches an order-8 bond, plus the
    dative families), kept only if a rewriting step really changes a coordinate bond on them; for each such bond a tethered
    variant in which that bond closes a ring is added when the step still rewrites it there."""
    pool, stats = [], collections.Counter()
    try:
        from chython.algorithms.standardize._groups import single_rules, double_rules
        from chython.algorithms.standardize._metal_organics import rules as metal_rules
        tables = [('single', single_rules), ('double', double_rules), ('metal', metal_rules)]
    except Exception:   # the tables moved: recorded by the caller, the dative families are still used
        tables = []
        stats['rule-tables-not-importable'] += 1
    for name, rules in tables:
        for i, r in enumerate(rules):
            pattern, bonds_fix = r[0], r[2]
            touches8 = any(bo == 8 for _, _, bo in bonds_fix) or \
                any(8 in (b.order if isinstance(b.order, tuple) else (b.order,)) for _, _, b in pattern.bonds())
            if not touches8:
                continue
            stats['rules-touching-coordinate-bonds'] += 1
            try:
                pool.append((f'{name}[{i}]', _instantiate(pattern, rng)))
            except Exception as e:
                stats['not-instantiated:' + type(e).__name__] += 1
    for smi in DATIVE_FAMILIES:
        m = molgen.parse(smi)
        if m is not None:
            pool.append(('family', m))
        else:
            stats['family-smiles-rejected'] += 1
    out = []
    for tag, mol in pool:
        try:
            changes = _coordinate_changes(mol)
        except Exception:
            changes = set()
        if not changes:
            stats['step-does-not-touch-coordinate-bonds'] += 1
            continue
        stats['fires'] += 1
        out.append((tag, wire.mol_to_ints(mol)))
        for n, m in sorted(changes):
            for _ in range(2):
                t = _tether(mol, n, m, rng)
                if t is not None and (n, m) in _coordinate_changes(t):
                    stats['fires-on-ring-closing-bond'] += 1
                    out.append((tag + '+ring', wire.mol_to_ints(t)))
    if verbose:
        print(dict(stats))
    return out, stats


# ------------------------------------------------------------------------------------------------
# edit histories: the cached ring / component views of a LIVE object must describe its CURRENT bonds
# ------------------------------------------------------------------------------------------------

READS = ['sssr', 'rings_count', 'connected_components', 'atoms_rings', 'atoms_rings_sizes', 'skin_graph', 'aromatic_rings',
         'not_special_connectivity', 'connected_components_count', 'rings_graph']
NULLARY = ['kekule', 'thiele', 'explicify_hydrogens', 'implicify_hydrogens', 'remove_coordinate_bonds', 'remove_metals',
           'split_metal_salts', 'canonicalize', 'neutralize', 'remove_hydrogen_bonds', 'clean_stereo', 'fix_structure',
           'standardize', 'standardize_charges', 'fix_resonance', 'clean_isotopes', 'remove_acids']
HISTORY_STARTS = ['C1CCCCC1', 'CCCCCC', 'CCC1CCCCC1', 'CCCC.CCC', 'c1ccccc1', 'c1ccc2ccccc2c1', 'C1CC2CCC1C2', 'C1CC1C1CC1',
                  'c1ccccn1~[Pd](Cl)(Cl)~n1ccccc1', '[Fe]~C1=CC=CC1', 'C1CCOC1~[Mg](Br)C', 'O~[Na+].[Cl-]', 'CC(=O)O~[Cu]~OC(C)=O',
                  'N~[Pt](~N)(Cl)Cl', 'C1CN~[Ni]~NC1', 'OC(=O)c1ccccc1O', 'C1CC2(C1)CCC2', '[Na+].[O-]c1ccccc1', 'C1=CC=CC=C1',
                  'O=C1C=CC(=O)C=C1', 'C12C3C4C1C5C2C3C45']


SALT_STARTS = ['[Na+].[O-]c1ccccc1', '[K+].[Cl-].C1CCCCC1', 'N.[Na+].OC(=O)c1ccccc1', '[Li+].[Cl-].c1ccccc1.N', '[Mg+2].[Cl-].[Cl-].C1CC1',
               '[Ca+2].[O-]C(=O)C1CC1.[O-]C(=O)C', '[Na+].[Na+].[O-]C1CCC([O-])CC1', 'N.N.C1CC2CCC1C2.[K+].[I-]', 'Cl.NC1CCCCC1', 'OS(=O)(=O)O.c1ccncc1']
SALT_FIRST = ['remove_metals', 'remove_metals', 'split_metal_salts', 'remove_acids']


class Abort(Exception):
    pass


def apply_op(mol, op):
    """execute one concrete, JSON-encoded public operation on the live molecule; returns the object to go on with"""
    k = op[0]
    if k == 'read':
        for name in op[1]:
            try:
                getattr(mol, name)
            except Exception:
                pass
    elif k == 'add_bond':
        mol.add_bond(op[1], op[2], op[3])
    elif k == 'delete_bond':
        mol.delete_bond(op[1], op[2])
    elif k == 'add_atom':
        n = mol.add_atom(op[1], op[2])
        if op[3]:
            mol.add_bond(n, op[3], op[4])
    elif k == 'delete_atom':
        mol.delete_atom(op[1])
    elif k == 'txn':
        try:
            with mol:
                for sub in op[2]:
                    apply_op(mol, sub)
                if not op[1]:
                    raise Abort
        except Abort:
            pass
    elif k == 'copy':
        return mol.copy(keep_sssr=bool(op[1]), keep_components=bool(op[1]))
    elif k == 'remap':
        mol.remap({a: b for a, b in op[1]})
    elif k == 'union':
        other, _ = wire.ints_to_mol(op[1], calc=True)
        mol.union(other, remap=True, copy=False)
    elif k == 'substructure':
        return mol.substructure(op[1])
    elif k == 'split':
        parts = mol.split()
        return parts[op[1] % len(parts)]
    elif k in NULLARY:
        getattr(mol, k)()
    else:
        raise ValueError('unknown op ' + str(k))
    return mol


def _edit_op(rng, mol, allow_atoms=True):
    """one random bond-set edit that is valid for the current state"""
    atoms = list(mol._atoms)
    bonds = [(n, m, b.order) for n, ms in mol._bonds.items() for m, b in ms.items() if n < m]
    kind = rng.choice(['add_bond', 'add_bond', 'delete_bond', 'delete_bond', 'add_atom', 'delete_atom'] if allow_atoms
                      else ['add_bond', 'delete_bond'])
    if kind == 'add_bond' and len(atoms) >= 2:
        for _ in range(20):
            a, b = rng.sample(atoms, 2)
            if b not in mol._bonds[a] and len(mol._bonds[a]) < 4 and len(mol._bonds[b]) < 4:
                return ['add_bond', a, b, rng.choice([1, 1, 1, 2, 8, 8])]
    if kind == 'delete_bond' and bonds:
        special = [x for x in bonds if x[2] == 8]
        a, b, _ = rng.choice(special) if special and rng.random() < 0.5 else rng.choice(bonds)
        return ['delete_bond', a, b] if rng.random() < 0.5 else ['delete_bond', b, a]
    if kind == 'delete_atom' and len(atoms) > 2:
        return ['delete_atom', rng.choice(atoms)]
    new = max(atoms, default=0) + rng.choice([1, 1, 3])
    att = rng.choice(atoms) if atoms and rng.random() < 0.8 else 0
    return ['add_atom', rng.choice(['C', 'C', 'N', 'O', 'Fe']), new, att, rng.choice([1, 1, 8])]


def _next_op(rng, mol):
    r = rng.random()
    if r < 0.40:
        return _edit_op(rng, mol)
    if r < 0.65:   # transaction, committed or rolled back, with reads inside
        subs = []
        for _ in range(rng.randint(1, 3)):
            subs.append(_edit_op(rng, mol, allow_atoms=False))
            if rng.random() < 0.7:
                subs.append(['read', rng.sample(READS, rng.randint(1, 4))])
        return ['txn', int(rng.random() < 0.5), subs]
    if r < 0.72:
        return ['copy', int(rng.random() < 0.5)]
    if r < 0.77:
        atoms = list(mol._atoms)
        new = rng.sample(range(1, 3 * len(atoms) + 5), len(atoms))
        return ['remap', [[a, b] for a, b in zip(atoms, new)]]
    if r < 0.81:
        n = rng.randint(3, 6)
        return ['union', graph_ints(n, [(i, i % n + 1) for i in range(1, n + 1)] if rng.random() < 0.6
                                 else [(i, i + 1) for i in range(1, n)])]
    if r < 0.86:
        atoms = list(mol._atoms)
        return ['substructure', sorted(rng.sample(atoms, rng.randint(max(1, len(atoms) // 2), len(atoms))))]
    if r < 0.84:
        return ['split', rng.randint(0, 5)]
    # whole-molecule operations that keep (part of) the ring cache: preferably one that has something to do here
    orders = {b.order for ms in mol._bonds.values() for b in ms.values()}
    zs = {a.atomic_number for a in mol._atoms.values()}
    fit = []
    if 8 in orders:
        fit += ['remove_coordinate_bonds', 'remove_coordinate_bonds', 'remove_hydrogen_bonds']
    if 4 in orders:
        fit += ['kekule']
    if 2 in orders:
        fit += ['thiele']
    if 1 in zs:
        fit += ['implicify_hydrogens', 'implicify_hydrogens']
    if any((a._implicit_hydrogens or 0) > 0 for a in mol._atoms.values()):
        fit += ['explicify_hydrogens', 'explicify_hydrogens']
    if zs & {3, 11, 12, 19, 20, 26, 28, 29, 46, 78}:
        fit += ['remove_metals', 'split_metal_salts']
    if zs & {5, 24, 26, 28, 29, 44, 46, 78, 12} or any(a._charge for a in mol._atoms.values()):
        fit += ['standardize', 'canonicalize', 'standardize_charges']   # rule-driven rewriting of bond orders / charges
    if fit and rng.random() < 0.75:
        return [rng.choice(fit)]
    return [rng.choice(NULLARY)]


def snapshot(mol, hist):
    """what a caller sees on the live object right now, plus the wire form of its current atoms and bonds"""
    ints = wire.mol_to_ints(mol)
    fields, rings, err = impl_fields(mol, live=True)
    return ints, (fields, rings, err, hist)


def run_history(start, ops, judge=None):
    """re-execute a recorded history; `judge(mol, ops_so_far)` is called after every top-level operation"""
    mol, _ = wire.ints_to_mol(start, calc=True)
    mol.fix_structure()
    done = []
    for op in ops:
        try:
            mol = apply_op(mol, op)
        except Exception:
            pass   # a rejected operation must leave the views consistent as well
        done.append(op)
        if judge is not None:
            judge(mol, list(done))
    return mol


def gen_history(rng, start, steps, first=None):
    """random history from `start` (wire ints): yields (ints, pre) snapshots after every operation; `first`: operations
    one of which is (usually) executed first — the step that is known to rewrite this start"""
    mol, _ = wire.ints_to_mol(start, calc=True)
    mol.fix_structure()
    # views a caller looked at before editing: part of the recorded history (a stale view that survives a later operation
    # is only reproduced by a replay that reads the same views first)
    ops = [['read', rng.sample(READS, rng.randint(2, len(READS)))]]
    mol = apply_op(mol, ops[0])
    for i in range(steps):
        op = [rng.choice(first)] if first and i == 0 and rng.random() < 0.8 else _next_op(rng, mol)
        try:
            mol = apply_op(mol, op)
        except Exception:
            pass
        ops.append(op)
        if not mol._atoms:
            break
        yield snapshot(mol, {'start': start, 'ops': list(ops)})


def history_failures(hist, apply_exemptions=True):
    """property-level oracle for a history: clauses that fail on the live object after some operation (first point only)"""
    found = []

    def judge(mol, done):
        if not found and mol._atoms:
            fl = judge_mol(mol, fresh=False, apply_exemptions=apply_exemptions, renumbered=renumbering_in(done))
            if fl:
                found.extend((c, f'after {json.dumps(done[-1])} (operation {len(done)}): {d}') for c, d in fl)
    run_history(hist['start'], hist['ops'], judge)
    return found


def shrink_history(hist, clause):
    """drop operations (and sub-operations of transactions) while the same clause still fails"""
    import time
    deadline = time.time() + 30

    def fails(h):
        try:
            return any(c == clause for c, _ in history_failures(h))
        except Exception:
            return False
    ops = list(hist['ops'])
    changed = True
    while changed and time.time() < deadline:
        changed = False
        for i in range(len(ops) - 1, -1, -1):
            cand = ops[:i] + ops[i + 1:]
            if fails({'start': hist['start'], 'ops': cand}):
                ops, changed = cand, True
                continue
            if ops[i][0] == 'txn':
                for j in range(len(ops[i][2]) - 1, -1, -1):
                    sub = ops[i][2][:j] + ops[i][2][j + 1:]
                    cand = ops[:i] + [['txn', ops[i][1], sub]] + ops[i + 1:]
                    if fails({'start': hist['start'], 'ops': cand}):
                        ops, changed = cand, True
    return {'start': hist['start'], 'ops': ops}


def correspond(ctx):
    import multiprocessing
    import os
    from chython.algorithms import rings as R
    rng = ctx.rng
    ctx.cov['programs'] = len(PROGRAMS)
    _state['suspects'] = []
    _pid_state['quick'] = ctx.quick
    pending = []

    def add(tag, ints):
        pending.append((tag, ints))
        if len(pending) >= 4000:
            flush()

    def flush():
        if pending:
            merge(ctx, evaluate(pending, ctx.build_ok))
            del pending[:]

    # 0. regression corpus: handmade ring systems incl. the classic hard cases, and the boundary of the recorded gaps
    hand = ['C1CC1', 'C1CCC1', 'C1CCCCC1', 'C1CC2CC1CC2', 'C12CC1C2', 'C1CC11CC1', 'c1ccc2ccccc2c1', 'C1CC2CCC1C2',
            'C12C3C4C1C5C2C3C45', 'C1C2CC3CC1CC(C2)C3', 'C1CC2CCC1CC2', 'c1ccc2c(c1)ccc1ccccc12', 'C1CCCCCCCCCCC1',
            'C1CC1C1CC1', 'S1SSSSSSS1', 'C1CC2(C1)CCC2', 'C1=CC2=CC=CC2=C1', 'CC.CC', '[Na+].[Cl-]', 'C', 'CCO',
            'C1CC2CC2C1', 'C1C2CC1C2', 'C1CC2C1C1CCC21', 'C1CCC2(CC1)CCCCC2', 'C1C2C3C1C23',
            'c1cc2ccc3cccc4ccc(c1)c2c34', 'C1CC2CCC1CCC2', 'C1CCC2CCCC(C1)CCC2']
    for smi in hand:
        m = molgen.parse(smi)
        if m is not None:
            ints = wire.mol_to_ints(m)
            add('handmade', ints)
            add('handmade-renumbered', renumbered_ints(rng, ints))
    for a, b, c in itertools.combinations_with_replacement(range(1, 7), 3):
        if (a, b, c).count(1) > 1:
            continue
        n, edges = theta_edges(a, b, c)
        ints = graph_ints(n, edges)
        add('theta-graph', ints)
        for _ in range(3 if ctx.quick else 20):
            add('theta-graph-renumbered', renumbered_ints(rng, ints))

    # 1. exhaustive labelled connected graphs (degree <= 4): all with <= 6 atoms; thorough: 7 atoms with <= 5 rings
    for n in range(1, 7):
        for edges in labelled_graphs(n, 0, 1 << (n * (n - 1) // 2), 99):
            add(f'exhaustive-labelled-{n}', graph_ints(n, edges))
    flush()
    if not ctx.quick:
        total = 1 << 21
        step = total // 256
        jobs = [(7, lo, min(lo + step, total), 5, ctx.build_ok) for lo in range(0, total, step)]
        workers = max(1, min(12, (os.cpu_count() or 2) - 2))
        with multiprocessing.get_context('fork').Pool(workers) as pool:
            for res in pool.imap_unordered(_exhaustive_worker, jobs):
                merge(ctx, res)
    ctx.exhaustive = True   # this stream enumerates its finite domain completely (see RULE for the other streams)

    # 2. isomorphism classes of 7 atoms (<= 5 rings) and 8 atoms (<= 3 rings) under random renumbering
    reps = 2 if ctx.quick else 40
    for n, mx in ((7, 5), (8, 3)):
        for edges in iso_classes(n, mx):
            ints = graph_ints(n, edges)
            for _ in range(reps):
                add(f'iso-class-{n}-renumbered', renumbered_ints(rng, ints))

    # 3. ring assemblies with random coordinate bonds, each also renumbered
    for i in range(250 if ctx.quick else 3000):
        edges = molgen.ring_assembly(rng)
        n = max(v for e in edges for v in e)
        k = rng.choice([0, 0, 1, 2])
        special = rng.sample(edges, min(k, len(edges)))
        if rng.random() < 0.3:   # pendant chains and a second component
            edges = edges + [(rng.randint(1, n), n + 1), (n + 1, n + 2), (n + 3, n + 4)]
            n += 4
        if rng.random() < 0.15:  # a coordinate bond that is a chord / an extra link
            a, b = rng.sample(range(1, n + 1), 2)
            if (a, b) not in edges and (b, a) not in edges:
                edges = edges + [(a, b)]
                special = special + [(a, b)]
        p_ar = rng.choice([0, 0, 0.6, 1])   # order-4 bonds: none / most / all (whole rings become aromatic)
        ints = graph_ints(n, edges, special, aromatic=[e for e in edges if rng.random() < p_ar])
        add('ring-assembly', ints)
        add('ring-assembly-renumbered', renumbered_ints(rng, ints))

    # 3b. small strained cages (bicyclo[1.1.1]/[2.1.1]/propellane-like cores with further fused / spiro / bridging rings),
    #     each under MANY numberings: the class in which the filter stage of _rings_filter (`hold` list, _connected_rings,
    #     _is_condensed_ring) decides the result, and a defect there shows for a fraction of the numberings only
    #     (round-5 held-out change 1). The two cages of that change are in the regression list.
    cages = [molgen.parse(smi) for smi in ('CC12C3CC24C35C(C1C4)C5', 'C12C3C2C4CC15C(C3)C4C5', 'C12C3C1C23', 'C1C2CC1C2',
                                           'C1C2C1C2', 'C12CC1C2', 'C1C2CC12', 'C1CC2CC1C2', 'C12C3C4C1C5C2C3C45')]
    for m in cages:
        if m is not None:
            ints = wire.mol_to_ints(m)
            for _ in range(14 if ctx.quick else 60):
                add('strained-cage-renumbered', renumbered_ints(rng, ints))
    seen_cages = set()
    for i in range(200 if ctx.quick else 2500):
        n, edges = strained_cage(rng)
        key = tuple(sorted(tuple(sorted(e)) for e in edges))
        if key in seen_cages:
            continue
        seen_cages.add(key)
        ints = graph_ints(n, edges)
        add('strained-cage', ints)
        for _ in range(6 if ctx.quick else 11):
            add('strained-cage-renumbered', renumbered_ints(rng, ints))

    # 4. repository molecules (the readers run ring perception themselves: loading is time limited too)
    mols = []
    smis = molgen.corpus_smiles()
    for i in rng.sample(range(len(smis)), min(150 if ctx.quick else 4200, len(smis))):
        if _timeouts['n'] >= 8:
            break
        try:
            with time_limit(sssr_limit()):
                m = molgen.parse(smis[i])
        except TimeoutError:
            _timeouts['n'] += 1
            ctx.cov['disagreements_checked'] += 1
            ctx.broke('relational', 'sssr-raises', f'corpus[{i}] {smis[i]}: the SMILES reader did not come back (ring perception hangs)')
            continue
        if m is not None:
            mols.append((f'corpus[{i}]', m))
    try:
        with time_limit(120 if _timeouts['n'] == 0 else 10):
            mols += molgen.handmade() + molgen.test_files()
    except TimeoutError:
        _timeouts['n'] += 1
        ctx.cov['disagreements_checked'] += 1
        ctx.broke('relational', 'sssr-raises', 'reading test/*.sdf did not come back (ring perception hangs)')
    for name, m in mols:
        try:
            ints = wire.mol_to_ints(m)
        except Exception:
            continue
        tag = 'corpus' if name.startswith('corpus') else ('test-files' if '.sdf' in name else 'handmade')
        add(tag, ints)
        if rng.random() < (0.5 if ctx.quick else 1.0):
            add(tag + '-renumbered', renumbered_ints(rng, ints))
    flush()

    # 4b. edit histories: after every public operation of a random history (edits, committed and rolled-back transactions
    #     with reads inside, copies, renumbering, unions, substructures, kekule/thiele, hydrogen and coordinate-bond
    #     standardisation steps) the views of the LIVE object are compared with the model of its CURRENT atoms and bonds
    starts = []
    for smi in HISTORY_STARTS:
        m = molgen.parse(smi)
        if m is not None:
            starts.append(wire.mol_to_ints(m))
    for i in range(60 if ctx.quick else 600):
        edges = molgen.ring_assembly(rng, max_rings=3)
        n = max(v for e in edges for v in e)
        if n <= 14:
            starts.append(graph_ints(n, edges, rng.sample(edges, min(rng.choice([0, 1, 2]), len(edges)))))
    try:
        rstarts, rstats = rule_starts(rng)
    except Exception as e:
        rstarts, rstats = [], {'rule-starts-exception:' + type(e).__name__: 1}
    for k, v in rstats.items():
        ctx.dist('rule-starts:' + k, v)
    for tag, ints in rstarts:
        add('rule-instance', ints)
    starts = [(s0, None) for s0 in starts] + [(ints, ['standardize', 'standardize', 'canonicalize']) for _, ints in rstarts]
    # salts with isolated ions / ammonia: the operations that REMOVE whole components (remove_metals, split_metal_salts,
    # remove_acids) are executed first, on an object whose component and ring views were read before (round 4, C06-r4-2:
    # a flush that wrongly keeps the cached components is only visible when a component disappears)
    for smi in SALT_STARTS:
        m = molgen.parse(smi)
        if m is not None:
            starts.append((wire.mol_to_ints(m), SALT_FIRST))
    for start, first in starts:
        for _ in range((6 if ctx.quick else 16) if first is None else (3 if ctx.quick else 10)):
            try:
                for ints, pre in gen_history(rng, start, rng.randint(1, 5) if first else rng.randint(2, 6), first):
                    pending.append(('edit-history', ints, pre))
                    last = pre[3]['ops'][-1]
                    ctx.dist('history-op:' + (last[0] if last[0] != 'txn' else ('txn-commit' if last[1] else 'txn-rollback')))
            except Exception as e:   # the harness itself failed on this history: recorded, never silently dropped
                ctx.dist('history-generator-exception:' + type(e).__name__)
        if len(pending) >= 4000:
            flush()
    flush()

    # 5. ring tuple helpers: exact functional models
    if ctx.build_ok:
        reqs, exp = [], []

        def outcome(fn, *a):
            try:
                return 'ok ' + fn(*a)
            except Exception:
                return 'raise'
        have = {k: getattr(R, k, None) for k in ('_canonic_ring', '_ring_adjacency', '_ring_scissors')}
        for k, v in have.items():
            if v is None:   # private helper gone: recorded, not an alarm (DESIGN §10)
                ctx.notes.append(f'rings.{k} no longer exists: its private stream is skipped')
        for i in range(1500 if ctx.quick else 20000):
            ln = rng.choice([0, 1, 2, 3, 3, 4, 5, 6, 7, 8, 12])
            if rng.random() < 0.85:
                ring = tuple(rng.sample(range(1, 30), ln))
            else:
                ring = tuple(rng.randint(1, 6) for _ in range(ln))
            if have['_canonic_ring']:
                reqs.append('canon ' + ' '.join(map(str, ring)))
                exp.append(outcome(lambda r: canon_ring(R._canonic_ring(r)), ring))
            if have['_ring_adjacency']:
                reqs.append('radj ' + ' '.join(map(str, ring)))
                exp.append(outcome(lambda r: ';'.join(f'{k}:' + ','.join(map(str, v)) for k, v in R._ring_adjacency(r).items()), ring))
            if ln >= 2 and have['_ring_scissors']:
                n, m = (rng.choice(ring), rng.choice(ring)) if rng.random() < 0.9 else (rng.randint(1, 30), rng.randint(1, 30))
                if n != m:
                    reqs.append(f'scis {n} {m} ' + ' '.join(map(str, ring)))
                    exp.append(outcome(lambda r, a, b: canon_ring(R._ring_scissors(r, a, b)), ring, n, m))
        got = core.run_driver('C06', reqs) if reqs else []
        for q, e, g in zip(reqs, exp, got):
            ctx.count(q, nontrivial=len(q.split()) >= 4)
            ctx.dist(q.split()[0])
            if e != g:
                ctx.cov['disagreements_checked'] += 1
                ctx.broke('correspondence', q.split()[0], f'{q}: model {g!r} impl {e!r}')


# ------------------------------------------------------------------------------------------------
# failing-input search and probe (property-level oracle on the real code; never consults the Lean model)
# ------------------------------------------------------------------------------------------------

def property_failures(ints, check_numbering=True, rng=None, apply_exemptions=True):
    """All clauses of C06 evaluated on the real code for one wire-encoded molecule. Returns list of (clause, detail).
    With `apply_exemptions` the clauses that the property text / the known finding exclude for the graph's class are dropped."""
    mol, _ = wire.ints_to_mol(ints)
    return judge_mol(mol, True, ints, check_numbering, rng, apply_exemptions)


def judge_mol(mol, fresh, ints=None, check_numbering=False, rng=None, apply_exemptions=True, renumbered=False):
    """the clauses of C06 on one molecule object, judged against its current `_bonds` only (independent recomputation).
    `fresh`: the object was just built from wire ints (labels are computed here); otherwise it is a live object with an
    edit history and everything is read as a caller would see it."""
    from chython.exceptions import ImplementationError
    adj = ns_adj(mol)
    full = {n: set(ms) for n, ms in mol._bonds.items()}
    gap = gap_class(adj) if apply_exemptions else None
    out = []

    def add(clause, detail):
        if not exempt(gap, clause):
            out.append((clause, detail))
    sizes_ref, mu = mcb_sizes(adj)
    if mol.rings_count != mu:
        add('rings-count', f'rings_count={mol.rings_count}, bonds-atoms+components={mu} (coordinate bonds ignored)')
    cc = sorted(sorted(c) for c in mol.connected_components)
    if cc != sorted(sorted(c) for c in components(full)):
        add('connected-components', f'connected_components={cc}')
    core2 = two_core(full)
    sk = mol.skin_graph
    if {n: set(ms) for n, ms in sk.items()} != core2:
        add('skin-graph', f'skin_graph={sk} but the 2-core is {core2}')
    try:
        with time_limit(sssr_limit()):
            rings = [tuple(r) for r in mol.sssr]
    except ImplementationError as e:
        add('sssr-raises', f'ImplementationError({e})')
        return out
    except Exception as e:
        if isinstance(e, TimeoutError):
            _timeouts['n'] += 1
        out.append(('sssr-crashes', type(e).__name__))
        return out
    defects = basis_defects(adj, rings)
    for d in defects:
        add('basis-' + d, f'sssr={rings}')
    sizes = sorted(len(r) for r in rings)
    if not defects and sizes != sizes_ref:
        add('not-minimum', f'sssr ring sizes {sizes}, a minimum cycle basis has {sizes_ref}')
    # views and marks
    ar = collections.defaultdict(list)
    for r in rings:
        for n in r:
            ar[n].append(r)
    if {n: [tuple(r) for r in rs] for n, rs in mol.atoms_rings.items()} != dict(ar):
        add('atoms-rings', f'atoms_rings={mol.atoms_rings}')
    if mol.atoms_rings_sizes != {n: {len(r) for r in rs} for n, rs in ar.items()}:
        add('atoms-rings-sizes', f'atoms_rings_sizes={mol.atoms_rings_sizes}')
    want = sorted(r for r in rings if all(mol._bonds.get(a, {}).get(b) is not None and mol._bonds[a][b].order == 4
                                          for a, b in zip(r, r[1:] + r[:1])))
    try:
        got = sorted(tuple(r) for r in mol.aromatic_rings)
    except Exception as e:
        got = 'raises ' + type(e).__name__
    if got != want:
        add('aromatic-rings', f'aromatic_rings={got}, reported rings whose bonds all have order 4: {want}')
    if fresh:
        mol.calc_labels()
    for n, ms in mol._bonds.items():
        a = mol._atoms[n]
        in_ring, rs_mark = getattr(a, '_in_ring', None), getattr(a, '_ring_sizes', None) or set()
        if renumbered and apply_exemptions:
            # known finding REMAP_SIG: ring_sizes follow the basis chosen before the renumbering; only what is independent of
            # the choice of basis is judged (in_ring, emptiness of ring_sizes, in_ring of non-coordinate bonds)
            atom_ok = bool(in_ring) == (n in ar) and bool(rs_mark) == (n in ar)
        else:
            atom_ok = bool(in_ring) == (n in ar) and set(rs_mark) == {len(r) for r in ar.get(n, ())}
        if not atom_ok:
            add('atom-marks', f'atom {n}: in_ring={in_ring} ring_sizes={rs_mark}, reported rings through it {ar.get(n)}')
            break
        bad = [(m, b) for m, b in ms.items() if bool(b._in_ring) != bool(set(ar.get(n, ())) & set(ar.get(m, ())))
               and not (renumbered and apply_exemptions and b.order == 8)]
        if bad:
            add('bond-marks', f'bond {n}-{bad[0][0]}: in_ring={bad[0][1]._in_ring}, rings {ar.get(n)} / {ar.get(bad[0][0])}')
            break
    if check_numbering and rng is not None and ints is not None and not out:
        for _ in range(3):
            m2, _ = wire.ints_to_mol(renumbered_ints(rng, ints))
            try:
                s2 = sorted(len(r) for r in m2.sssr)
            except Exception as e:
                add('numbering-dependent', f'renumbered copy raises {type(e).__name__}')
                break
            if s2 != sizes:
                add('numbering-dependent', f'ring sizes {sizes} vs {s2} after renumbering')
                break
    return out


def build_ints(atoms, edges):
    nb = {v: [] for v in atoms}
    for a, b, o in edges:
        nb[a].append((b, o))
        nb[b].append((a, o))
    out = [len(atoms)]
    for v in atoms:
        out += [v, 6, 0, 0, 0, -1, -1, len(nb[v])]
        for m, o in nb[v]:
            out += [m, o, -1]
    return out


def shrink(ints, clause, apply_exemptions=True):
    """delete atoms / bonds while the same clause still fails"""
    mol, _ = wire.ints_to_mol(ints)
    atoms = list(mol._atoms)
    edges = [(n, m, int(b)) for n, ms in mol._bonds.items() for m, b in ms.items() if n < m]

    def fails(x):
        try:
            return any(c == clause for c, _ in property_failures(x, check_numbering=False, apply_exemptions=apply_exemptions))
        except Exception:
            return False
    import time
    deadline = time.time() + 20
    if not fails(build_ints(atoms, edges)):
        return ints
    changed = True
    while changed and time.time() < deadline:
        changed = False
        for v in list(atoms):
            if time.time() > deadline:
                break
            a2 = [x for x in atoms if x != v]
            e2 = [e for e in edges if v not in e[:2]]
            if a2 and fails(build_ints(a2, e2)):
                atoms, edges, changed = a2, e2, True
        for e in list(edges):
            e2 = [x for x in edges if x != e]
            if fails(build_ints(atoms, e2)):
                edges, changed = e2, True
    return build_ints(atoms, edges)


def search(ctx):
    import time
    rng = ctx.rng
    budget = 60 if ctx.quick else 600
    t0 = time.time()
    seen_sig = set()

    def try_ints(ints):
        try:
            fl = property_failures(ints, rng=rng)
        except Exception as e:
            fl = [('oracle-crash', type(e).__name__)]
        for clause, detail in fl:
            if clause in seen_sig:
                continue
            seen_sig.add(clause)
            small = shrink(ints, clause) if clause != 'numbering-dependent' else ints
            det = next((d for c, d in property_failures(small, check_numbering=clause == 'numbering-dependent', rng=rng)
                        if c == clause), detail)
            ctx.fail(f'C06/{clause}', f'{clause}: {det}', {'wire': small, 'clause': clause})
        return bool(fl)

    def try_history(hist):
        try:
            fl = history_failures(hist)
        except Exception as e:
            fl = [('oracle-crash', type(e).__name__)]
        for clause, detail in fl:
            sig = clause + '/after-edit-history'
            if sig in seen_sig:
                continue
            seen_sig.add(sig)
            small = shrink_history(hist, clause)
            det = next((d for c, d in history_failures(small) if c == clause), detail)
            ctx.fail(f'C06/{sig}', f'{clause} on a live molecule {det}', {'history': small, 'clause': clause})
        return bool(fl)

    # 1. the disagreeing cases and renumberings of them
    for ints in _state['suspects'][:200]:
        if isinstance(ints, dict):
            try_history(ints['history'])
            continue
        try_ints(ints)
        # a defect of the filter stage of _rings_filter shows for a fraction of the numberings only (13-30 % for the round-5
        # cages): few suspects -> many renumberings of each
        for _ in range(3 if len(_state['suspects']) > 40 else 40):
            if try_ints(renumbered_ints(rng, ints)) or time.time() - t0 > budget / 3:
                break
        if time.time() - t0 > budget / 3:
            break
    # 2. exhaustive small graphs, then assemblies, with and without coordinate bonds
    for n in range(3, 7):
        for edges in molgen.small_graphs(n):
            if len(edges) - n + 1 > 5:
                continue
            sp = [rng.choice(edges)] if rng.random() < 0.3 else []
            p_ar = rng.choice([0, 0.6, 1])
            try_ints(graph_ints(n, edges, sp, aromatic=[e for e in edges if rng.random() < p_ar]))
        if time.time() - t0 > budget * 2 / 3 or len(seen_sig) >= 6:
            break
    while time.time() - t0 < budget and len(seen_sig) < 6:
        if rng.random() < 0.5:
            n, edges = strained_cage(rng)
        else:
            edges = molgen.ring_assembly(rng)
            n = max(v for e in edges for v in e)
        sp = rng.sample(edges, min(rng.choice([0, 1, 2]), len(edges)))
        p_ar = rng.choice([0, 0.6, 1])
        try_ints(renumbered_ints(rng, graph_ints(n, edges, sp, aromatic=[e for e in edges if rng.random() < p_ar])))


def probe(inp):
    import random
    if 'history' in inp:
        fl = history_failures(inp['history'], apply_exemptions=not inp.get('ignore_exemptions', False))
        if inp.get('clause'):
            fl = [x for x in fl if x[0] == inp['clause']]
        return bool(fl), '; '.join(f'{c}: {d}' for c, d in fl) or 'all clauses of C06 hold after every operation of this history'
    exemptions = not inp.get('ignore_exemptions', False)
    fl = property_failures(inp['wire'], rng=random.Random(0), apply_exemptions=exemptions,
                           check_numbering=inp.get('clause') in (None, 'numbering-dependent'))
    want = inp.get('clause')
    if want:
        fl = [x for x in fl if x[0] == want]
    return bool(fl), '; '.join(f'{c}: {d}' for c, d in fl) or 'all clauses of C06 hold on this input'
