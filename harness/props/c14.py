"""C14 — normalisation conserves composition, is idempotent and numbering independent (translation validation + partial proofs).

G  the rule tables (`standardize/_groups.py`, `_metal_organics.py`, `_charged.py`, `tautomers/_acid.py|_base.py` stripped rules)
   are regenerated into Gen/RuleTables.lean from the live lazy tables on every run; Props/C14.lean re-proves the table
   theorems (charge neutrality of every valence-valid rule, abort only at the first entry, ...) over them.
K  the executable Lean model (Model/Standardize.lean, driver Drivers/C14.lean) against the real chython:
     RULE  one rule through the real `Standardize.__standardize([rule], True)` (lazy matcher resumed between mutations)
     STD   the whole `standardize()` after its `fix_resonance` call (double / double again / single / metal tables, log, fixed,
           failed atoms); runs in which a rule drops the SSSR cache are continued from the paused state
     EXPL / IMPL   `explicify_hydrogens`, `implicify_hydrogens`
     NEUT  `_neutralize(keep_charge=True)`: donors/acceptors recomputed by the model, the real result accepted by a checker
R  relational oracles executed on the real code only (never consulting the model): heavy atoms / net charge / hydrogen count
   conserved by canonicalize, standardize, fix_resonance, neutralize, explicify, implicify, enumerate_tautomers; no valence
   error / exception on valid input; idempotence (also through a freshly rebuilt object); explicify/implicify inverse;
   renumbering equivariance via canonical strings (tautomer fixing off; on for the fixed corpus); documented spellings of
   the repo's standardize tests reach their documented result.
"""
import itertools
import time
from collections import Counter

from .. import core, molgen, wire
from ..gen import gen_periodic, gen_query, gen_rules

LEVEL = 'translation_validation'
LEVEL_TEXT = ('The rule-application loop, hydrogen explicification/implicification, neutralize (exact where the code is deterministic), '
              'standardize_charges and fix_resonance (entries, path search, radical and charge loops) are an executable '
              'Lean model tied to the source by regenerated rule tables and by differential testing; conservation of atoms, '
              'charge accounting, proton moves atom by atom, "standardize_charges writes only charges", "fix_resonance keeps atoms and '
              'net charge", alternating delocalisation paths, idempotence of neutralize where all donors are used and the table facts '
              '(every valence-valid rule is charge neutral, an abort can only happen before anything was changed) are universally '
              'quantified theorems about that model. General idempotence, numbering independence, absence of valence errors and the '
              'documented spellings depend on parts for which no forall-statement is true of the code (set order, first match, '
              'Kekule/Thiele, tautomer enumeration, Morgan order); they are validated on the real '
              'code by relational oracles, so the level is translation validation with partial proofs.')
LEVEL_NOTE = ('Lean kernel; gen_rules / gen_periodic / gen_query translators; Model/Standardize.lean is a hand transcription validated by the '
              'correspondence streams; matcher = C07 model, query atom equality = C08 model, valences = C04 model; ring perception and '
              'connected components, the Morgan ranks used by standardize_charges and the pop order of the Python sets of fix_resonance '
              'are inputs taken from the real code; thiele/kekule, salts and the tautomer enumerators are outside the model '
              '(relational oracles only).')
TECHNIQUE = ('Lean 4 models of the rule loop, neutralize, standardize_charges and fix_resonance + theorems over regenerated rule tables '
             '+ model-vs-code correspondence (set order / Morgan ranks as recorded inputs) + relational oracles incl. competing-match inputs built from every rule')
RULE = ('cases: (molecule, rule) pairs and whole-molecule runs over documented spellings of the repo tests, every rule pattern instantiated '
        'as a molecule, corpus molecules decorated with instantiated groups, hand-made and random (often valence-invalid) skeletons; a case '
        'is non-trivial when the molecule has a bond and (for RULE/STD) at least one rule fired or (EXPL/IMPL/NEUT/NEUTX/CHG/RES) an atom '
        'changed (RES: also when the molecule has radical / ion candidates); competing-match inputs are built from every rule; '
        'distinct by (stream, canonical request line); relational cases distinct by (operation, canonical SMILES of the input)')
TRUSTED = ['gen_rules translator (imports the lazy rule tables of /repo)',
           'Model/Standardize.lean is a hand transcription, validated (not proved) against the Python text by the correspondence streams',
           'Model/C14Charges.lean, Model/C14Resonance.lean: hand transcriptions validated by the NEUTX / CHG / RES streams',
           'SSSR and connected components are supplied by the real code (checked by C06 / C07); atoms_order (C01) and the slot order '
           'of the rads / entries sets are recorded from the real call and handed to the model',
           'relational oracles in this plugin (canonical strings of the real code: C01)']
ASSUMPTIONS = ['molecules are well formed (adjacency symmetric, shared Bond objects) as the Graph API guarantees',
               'rule patterns have one connected component and no stereo marks (checked by the translator)',
               'the pure-Python matcher is the implementation under test (no Cython extension in the sandbox)']
HAS_DRIVER = True
FINDINGS_MODULE = 'ChythonModel.Findings.C14'
SEARCH_ALWAYS_IN_THOROUGH = False

_state = {}
TABLES = {'double': 0, 'single': 1, 'metal': 2}
METALS_ALL = [26, 29, 46, 78, 28, 30, 12, 13, 22, 47, 79, 27, 44, 45, 24, 25, 3, 11, 19, 50]


def metals():
    """metals (AnyMetal matches them) whose valence table accepts the atom with charge 0, +1, +2 and 0-2 single bonds and
    never gives it implicit hydrogens, so that the +1 per ligand of the metal-organic rules stays inside the tabulated
    oxidation states and no metal hydride is drawn by accident; computed from the live element classes."""
    if 'metals' not in _state:
        from chython.periodictable import Element
        ok = []
        for z in METALS_ALL:
            c = Element.from_atomic_number(z)
            try:
                for q in (0, 1, 2):
                    c(charge=q).valence_rules(0)
                good = True
                for q in (0, 1, 2, 3):
                    for es in (0, 1, 2, 3):
                        try:
                            if any(h for _s, _d, h in c(charge=q).valence_rules(es)):
                                good = False
                        except Exception:
                            pass
                if good:
                    ok.append(z)
            except Exception:
                pass
        _state['metals'] = ok or METALS_ALL
    return _state['metals']


# ------------------------------------------------------------------------------------------------
# generate
# ------------------------------------------------------------------------------------------------

def generate(ctx):
    p1 = gen_periodic.generate()[0]
    try:
        p2 = gen_query.generate()
    except Exception as e:
        # C08's translator also checks tokenizer literals that C14 does not use (only the element flags / setter domains of
        # Gen/QueryTables.lean are read by Model/QueryEq.lean): keep the committed file and say so instead of failing C14
        ctx.notes.append(f'gen_query (C08 translator) raised {type(e).__name__}: {str(e)[:200]}; Gen/QueryTables.lean left as committed')
        p2 = core.LEAN / 'ChythonModel' / 'Gen' / 'QueryTables.lean'
    path, std, chg, pats = gen_rules.generate()
    for name, rows in list(std.items()) + list(chg.items()) + list(pats.items()):
        for i, r in enumerate(rows):
            if any(a['stereo'] is not None for _, a in r['atoms']) or any(b[3] is not None for _, row in r['adj'] for b in row):
                raise gen_rules.TranslatorError(f'{name}[{i}] has stereo marks: not supported by the model')
            if name in ('fixed', 'morgan'):
                continue
            if _components(r) != 1:
                raise gen_rules.TranslatorError(f'{name}[{i}] has {_components(r)} components: not supported by the model')
    _state.update(std=std, chg=chg, pats=pats)
    return [p1, p2, path]


def _components(r):
    adj = {n: [m for m, *_ in row] for n, row in r['adj']}
    seen, k = set(), 0
    for n in adj:
        if n in seen:
            continue
        k += 1
        st = [n]
        while st:
            x = st.pop()
            if x in seen:
                continue
            seen.add(x)
            st.extend(adj[x])
    return k


# ------------------------------------------------------------------------------------------------
# real tables / wire
# ------------------------------------------------------------------------------------------------

def real_tables():
    from chython.algorithms.standardize._groups import single_rules, double_rules
    from chython.algorithms.standardize._metal_organics import rules as metal_rules
    return {'double': double_rules, 'single': single_rules, 'metal': metal_rules}


def L(xs):
    xs = list(xs)
    return [len(xs)] + xs


def lmol_ints(mol, sssr=None, comps=None):
    """molecule + the labels cached in its atoms/bonds + connected components + SSSR (see Drivers/C14.lean)."""
    out = wire.mol_to_ints(mol)
    for n, a in mol._atoms.items():
        out += [a._neighbors, a._hybridization, a._heteroatoms] + L(sorted(a._ring_sizes))
    rb = [(n, m) for n, ms in mol._bonds.items() for m, b in ms.items() if b._in_ring]
    out.append(len(rb))
    for n, m in rb:
        out += [n, m]
    comps = mol.connected_components if comps is None else comps
    out.append(len(comps))
    for c in comps:
        out += L(c)
    rings = list(mol.sssr) if sssr is None else sssr
    out.append(len(rings))
    for r in rings:
        out += L(r)
    return out


def norm_wire(ints):
    """drop the stereo fields? No: kept. Returns the canonical text of a wire molecule."""
    return ' '.join(map(str, ints))


def parse_log(text):
    out = []
    text = text.strip()
    if not text:
        return out
    for e in text.split(';'):
        xs = [int(x) for x in e.split()]
        out.append((xs[0], xs[1], tuple(sorted(xs[3:3 + xs[2]]))))
    return out


def real_log(log, table_only=True):
    """(rule index, kind, sorted match) of the rule entries of a real log."""
    out = []
    for match, r, text in log:
        if r < 0:
            continue
        out.append((r, 1 if text.startswith('bad charge formed') else 0, tuple(sorted(match))))
    return out


def exc_name(e):
    from chython.exceptions import ValenceError, ImplementationError
    if isinstance(e, (ValenceError, ImplementationError)):
        return 'lib:' + type(e).__name__
    return 'crash:' + type(e).__name__


# ------------------------------------------------------------------------------------------------
# generators
# ------------------------------------------------------------------------------------------------

def build(atoms, bonds):
    """atoms: {n: (Z, charge, radical)}, bonds: [(n, m, order)] -> MoleculeContainer via the public API."""
    from chython import MoleculeContainer
    from chython.periodictable import Element
    m = MoleculeContainer()
    for n, (z, ch, rad) in atoms.items():
        m.add_atom(Element.from_atomic_number(z)(charge=ch, is_radical=rad), n, _skip_calculation=True)
    for a, b, o in bonds:
        m.add_bond(a, b, o, _skip_calculation=True)
    m.fix_structure()
    return m


def instantiate(rec, rng, metal_choices=None, metal_charge=None, forced=None):
    """one molecule drawn from a pattern record: elements chosen from the lists, D / x / z constraints filled with substituents.
    Returns (atoms, bonds, fillers) or None."""
    atoms, bonds, fillers = {}, [], []
    order = {}
    for n, row in rec['adj']:
        for m, orders, _ir, _st in row:
            if (m, n) not in order:
                order[(n, m)] = (forced or {}).get(('bond', n, m)) or rng.choice(orders)
    for n, a in rec['atoms']:
        k = a['kind']
        if k == 'metal':
            z = rng.choice(metal_choices or metals())
        elif k == 'any':
            z = 8 if a['charge'] < 0 else 7 if a['charge'] > 0 else rng.choice([6, 6, 6, 7, 8])
        elif k[0] == 'list':
            z = (forced or {}).get(('atom', n)) or rng.choice(k[1])
        else:
            z = k[1]
        ch = a['charge']
        if k == 'metal' and metal_choices is not None:
            # AnyMetal does not test the charge; +4 exercises the documented abort
            ch = metal_charge if metal_charge is not None else rng.choice([0, 0, 1, 2, 3, 3, 4])
        atoms[n] = (z, ch, a['radical'])
    for (n, m), o in order.items():
        bonds.append((n, m, o))
    nxt = max(atoms) + 1
    for n, a in rec['atoms']:
        mine = [(x, y, o) for x, y, o in bonds if n in (x, y)]
        d0 = sum(1 for *_, o in mine if o != 8)
        h0 = sum(1 for x, y, o in mine if o != 8 and atoms[y if x == n else x][0] not in (1, 6))
        dset, xset, zset = a['neighbors'], a['heteroatoms'], a['hybridization']
        if a['kind'] == 'metal':
            xset = ()
        tgt_d = min([d for d in dset if d >= d0], default=None) if dset else d0
        if tgt_d is None:
            return None
        if dset and len([d for d in dset if d >= d0]) > 1 and rng.random() < 0.3:
            tgt_d = rng.choice([d for d in dset if d >= d0])
        tgt_x = min([x for x in xset if x >= h0], default=None) if xset else None
        if xset and tgt_x is None:
            return None
        extra = tgt_d - d0
        hetero = (tgt_x - h0) if tgt_x is not None else 0
        if not dset:
            extra = hetero
        if hetero > extra:
            return None
        # hybridization of the pattern bonds
        hyb = 1
        for *_, o in mine:
            if o == 4:
                hyb = 4
            elif hyb != 4:
                if o == 3:
                    hyb = 3
                elif o == 2:
                    hyb = 2 if hyb == 1 else 3
        need = []  # orders of the filler bonds
        if zset and hyb not in zset:
            tz = min([z for z in zset if z > hyb], default=None)
            if tz is None or tz == 4:
                return None
            if hyb == 1 and tz == 2:
                need = [2]
            elif hyb == 1 and tz == 3:
                need = [3] if rng.random() < 0.5 else [2, 2]
            elif hyb == 2 and tz == 3:
                need = [2]
            if len(need) > extra:
                if dset:
                    return None
                extra = len(need)
        fill_orders = need + [1] * (extra - len(need))
        if not zset and not dset and extra == 0 and a['kind'] != 'metal' and rng.random() < 0.15:
            fill_orders = [1]
            hetero = 0
        for i, o in enumerate(fill_orders):
            if i < hetero:
                z = {1: rng.choice([9, 17, 8]), 2: 8, 3: 7}[o]
            elif xset and tgt_x is not None:
                z = 6
            else:
                z = 6 if o != 1 or rng.random() < 0.8 else rng.choice([1, 6, 6])
            atoms[nxt] = (z, 0, False)
            bonds.append((n, nxt, o))
            if z == 6 and o == 1:
                fillers.append(nxt)
            nxt += 1
    return atoms, bonds, fillers


def pattern_instances(ctx, per_rule):
    """[(label, mol, fillers, (table, idx))]: for every rule of the three tables, molecules its own pattern matches.
    Instances labelled `xmetal:` use arbitrary metals (untabulated oxidation states, metal hydrides): they feed the
    correspondence streams only, not the relational oracles."""
    tabs = real_tables()
    out, missing = [], []
    for tname, recs in _state['std'].items():
        for idx, rec in enumerate(recs):
            got = 0
            has_metal = any(a['kind'] == 'metal' for _, a in rec['atoms'])
            for attempt in range(per_rule * 12):
                broad = has_metal and got % 2 == 1
                inst = instantiate(rec, ctx.rng, METALS_ALL if broad else None)
                if inst is None:
                    continue
                try:
                    mol = build(inst[0], inst[1])
                    ok = next(tabs[tname][idx][0].get_mapping(mol, automorphism_filter=False), None) is not None
                except Exception:
                    continue
                if ok:
                    out.append((('xmetal:' if broad else '') + f'{tname}[{idx}]#{got}', mol, inst[2], (tname, idx)))
                    got += 1
                    if got >= per_rule:
                        break
            if not got:
                missing.append(f'{tname}[{idx}]')
    return out, missing


def grid_instances(ctx, cap=40):
    """thorough tier: for every rule, every combination of the element alternatives of its list atoms and of the order
    alternatives of its bonds (capped per rule; the cap is recorded) - so each alternative a pattern mentions is drawn."""
    tabs = real_tables()
    out, capped = [], 0
    for tname, recs in _state['std'].items():
        for idx, rec in enumerate(recs):
            axes = []
            for n, a in rec['atoms']:
                if a['kind'] != 'metal' and a['kind'] != 'any' and a['kind'][0] == 'list' and len(a['kind'][1]) > 1:
                    axes.append([(('atom', n), z) for z in a['kind'][1]])
            seen = set()
            for n, row in rec['adj']:
                for m, orders, _ir, _st in row:
                    if (m, n) not in seen and len(orders) > 1:
                        seen.add((n, m))
                        axes.append([(('bond', n, m), o) for o in orders])
            if not axes:
                continue
            combos = list(itertools.product(*axes))
            if len(combos) > cap:
                capped += 1
                combos = ctx.rng.sample(combos, cap)
            for ci, combo in enumerate(combos):
                for attempt in range(6):
                    inst = instantiate(rec, ctx.rng, forced=dict(combo))
                    if inst is None:
                        continue
                    try:
                        mol = build(inst[0], inst[1])
                        ok = next(tabs[tname][idx][0].get_mapping(mol, automorphism_filter=False), None) is not None
                    except Exception:
                        continue
                    if ok:
                        out.append((f'{tname}[{idx}]#grid{ci}', mol, inst[2], (tname, idx)))
                        break
    _state['grid_capped'] = capped
    return out


def overlap_instances(ctx, per_rule=1):
    """molecules in which two matches of one rule share a context atom (a pattern atom the rule does not rewrite and whose
    degree the pattern leaves open): the second match is skipped by the overlap test of `__standardize`."""
    tabs = real_tables()
    out = []
    for tname, recs in _state['std'].items():
        for idx, rec in enumerate(recs):
            touched = {n for n, *_ in rec['atom_fix']} | {x for a, b, _ in rec['bonds_fix'] for x in (a, b)}
            ctxt = [n for n, a in rec['atoms'] if n not in touched and n not in rec['any_atoms'] and a['neighbors'] == ()
                    and a['kind'] not in ('any', 'metal') and a['hybridization'] in ((), (1,))]
            if not ctxt or not touched:
                continue
            got = 0
            for attempt in range(10):
                i1, i2 = instantiate(rec, ctx.rng), instantiate(rec, ctx.rng)
                if i1 is None or i2 is None:
                    continue
                c = ctx.rng.choice(ctxt)
                if i1[0][c] != i2[0][c]:
                    continue
                shift = max(i1[0]) + 1
                atoms = dict(i1[0])
                bonds = list(i1[1])
                for n, v in i2[0].items():
                    if n != c:
                        atoms[n + shift] = v
                for a, b, o in i2[1]:
                    a = c if a == c else a + shift
                    b = c if b == c else b + shift
                    bonds.append((a, b, o))
                try:
                    mol = build(atoms, bonds)
                    fixed_sets = {frozenset(mp[n] for n in touched)
                                  for mp in tabs[tname][idx][0].get_mapping(mol, automorphism_filter=False)}
                except Exception:
                    continue
                if len(fixed_sets) >= 2 and any(x.isdisjoint(y) for x in fixed_sets for y in fixed_sets):
                    out.append((f'overlap:{tname}[{idx}]#{got}', mol, [], (tname, idx)))
                    got += 1
                    if got >= per_rule:
                        break
    return out


def ionize(rng, mol):
    """salt / zwitterion drawings of a (Kekule) molecule: carboxylic and sulfonic O-H deprotonated, amines protonated, at
    random; sometimes with counter-ions as extra components. Hydrogens and charges are written directly (a proton moved)."""
    c = mol.copy()
    acids, bases = [], []
    for n, a in c.atoms():
        if a.charge or a.is_radical or a.implicit_hydrogens is None:
            continue
        nb = c._bonds[n]
        if a.atomic_number == 8 and len(nb) == 1 and a.implicit_hydrogens == 1:
            (k, b), = nb.items()
            if int(b) == 1 and c.atom(k).atomic_number in (6, 15, 16) and \
                    any(int(bb) == 2 and c.atom(x).atomic_number == 8 for x, bb in c._bonds[k].items()):
                acids.append(n)
        elif a.atomic_number == 7 and all(int(b) == 1 for b in nb.values()) and len(nb) + a.implicit_hydrogens == 3 and \
                all(c.atom(k).atomic_number == 6 and all(int(bb) == 1 for bb in c._bonds[k].values()) for k in nb):
            bases.append(n)
    picked_a = [n for n in acids if rng.random() < 0.6]
    picked_b = [n for n in bases if rng.random() < 0.6]
    if acids and bases:  # a donor and an acceptor: `neutralize` has a proton to move
        picked_a = picked_a or [rng.choice(acids)]
        picked_b = picked_b or [rng.choice(bases)]
        mode = rng.random()
        if mode < 0.35 and len(bases) >= 2:      # more donors than acceptors (partial neutralisation branch)
            picked_b = list(bases)
            picked_a = [rng.choice(acids)]
        elif mode < 0.6 and len(acids) >= 2:     # more acceptors than donors
            picked_a = list(acids)
            picked_b = [rng.choice(bases)]
    if not picked_a and not picked_b:
        return None
    for n in picked_a:
        a = c.atom(n)
        a._charge -= 1
        a._implicit_hydrogens -= 1
    for n in picked_b:
        a = c.atom(n)
        a._charge += 1
        a._implicit_hydrogens += 1
    ints = wire.mol_to_ints(c)
    m, _ = wire.ints_to_mol(ints, calc=True)
    if rng.random() < 0.4:
        from chython.periodictable import Na, Cl
        nxt = max(m._atoms) + 1
        for _ in range(rng.randint(1, 2)):
            if rng.random() < 0.5:
                m.add_atom(Na(charge=1), nxt)
            else:
                m.add_atom(Cl(charge=-1), nxt)
            nxt += 1
    return m


MULTI_METALS = [29, 30, 80, 26, 78, 46, 27, 28, 48, 13, 22, 50]


def _merge_on_metal(insts, metal_ids):
    """several instantiated ligand patterns sharing ONE metal atom (the metal of the first instance)"""
    atoms = dict(insts[0][0])
    bonds = list(insts[0][1])
    keep = metal_ids[0]
    shift = max(atoms) + 1
    for inst, mid in zip(insts[1:], metal_ids[1:]):
        ren = {n: (keep if n == mid else n + shift) for n in inst[0]}
        for n, v in inst[0].items():
            if n != mid:
                atoms[ren[n]] = v
        for a, b, o in inst[1]:
            bonds.append((ren[a], ren[b], o))
        shift = max(atoms) + 1
    return atoms, bonds


def multi_ligand_instances(ctx, counts=(2, 3), mixtures=10):
    """metal centres carrying 2..k copies of the SAME ligand pattern (every rule with exactly one `M` atom), and mixtures of
    ligands of two different rules on one metal: the matches of one rule share the metal atom, which is what `any_atoms`
    of the metal-organic rules is for. The metal is the first of MULTI_METALS for which the drawing is valence-valid."""
    tabs = real_tables()
    out = []
    metal_rules = []
    for tname, recs in _state['std'].items():
        for idx, rec in enumerate(recs):
            ms = [n for n, a in rec['atoms'] if a['kind'] == 'metal']
            if len(ms) == 1:
                metal_rules.append((tname, idx, rec, ms[0]))

    def draw(parts):
        # parts: [(tname, idx, rec, metal_id)], same metal element for all
        last = None
        for z in MULTI_METALS:
            insts = []
            for _t, _i, rec, _m in parts:
                inst = None
                for _ in range(6):
                    inst = instantiate(rec, ctx.rng, [z], metal_charge=0)
                    if inst is not None:
                        break
                if inst is None:
                    return None
                insts.append(inst)
            try:
                atoms, bonds = _merge_on_metal(insts, [p[3] for p in parts])
                mol = build(atoms, bonds)
            except Exception:
                continue
            if is_valid(mol):
                return mol
            last = mol
        return last  # no tabulated metal makes the drawing valence-valid: still an input for the idempotence / conversion clauses

    for tname, idx, rec, mid in metal_rules:
        for k in counts:
            mol = draw([(tname, idx, rec, mid)] * k)
            if mol is None:
                continue
            try:
                nm = sum(1 for _ in tabs[tname][idx][0].get_mapping(mol, automorphism_filter=False))
            except Exception:
                continue
            if nm >= k:
                out.append((f'multi:{tname}[{idx}]x{k}', mol, [], (tname, idx)))
    for j in range(mixtures):
        a, b = ctx.rng.sample(metal_rules, 2)
        mol = draw([a, b, a] if ctx.rng.random() < 0.5 else [a, b])
        if mol is not None:
            out.append((f'mix:{a[0]}[{a[1]}]&{b[0]}[{b[1]}]#{j}', mol, [], None))
    return out


def graft(rng, base, group, fillers):
    """base molecule with `group` attached through one of its CH3 fillers to an H-bearing carbon of base (or as a separate
    component when there is no such pair)."""
    from chython import MoleculeContainer
    m = MoleculeContainer()
    for n, a in base.atoms():
        m.add_atom(a.copy(), n, _skip_calculation=True)
    for n, k, b in base.bonds():
        m.add_bond(n, k, int(b), _skip_calculation=True)
    shift = max(base._atoms) + 1
    for n, a in group.atoms():
        m.add_atom(a.copy(), n + shift, _skip_calculation=True)
    for n, k, b in group.bonds():
        m.add_bond(n + shift, k + shift, int(b), _skip_calculation=True)
    cs = [n for n, a in base.atoms() if a.atomic_number == 6 and (a.implicit_hydrogens or 0) >= 1
          and all(int(b) in (1, 2) for b in base._bonds[n].values())]
    fs = [f for f in fillers if (group.atom(f).implicit_hydrogens or 0) >= 1]
    if cs and fs:
        m.add_bond(rng.choice(cs), rng.choice(fs) + shift, 1, _skip_calculation=True)
    m.fix_structure()
    return m


EXTRA = ['CC(=O)[O-].[NH4+]', 'C[NH3+].[Cl-]', '[Na+].CC(=O)[O-]', 'CC(=O)O.CN', '[NH3+]CC([O-])=O', 'C[N+](C)(C)CC([O-])=O',
         '[O-]c1ccccc1.[NH4+]', 'CC(=O)[O-].CC(=O)[O-].[NH4+]', '[NH4+].[NH4+].[O-]S(=O)(=O)[O-]', 'C[NH2+]C.[Br-]',
         '[H]C([H])([H])C([H])([H])O[H]', '[H]N([H])C', '[H][N+]([H])([H])C', '[2H]C([2H])([2H])O', '[H]C#N', '[H]O[H]', '[H]Cl',
         '[H]c1ccccc1', '[H]C1=CC=CC=C1', 'C[H]C', '[H]', '[H+]', '[H-]', '[Li][H]', '[H]B1[H]B([H])[H]1', 'CP(C)(C)(C)[H]',
         '[H]S(=O)(=O)C', '[H]N=O', '[H][Fe]', 'C=[N+]=[N-]', 'CN(=O)=O', 'C[N+](=O)[O-]', 'CS(=O)C', 'C[S+](C)[O-]',
         'O=C1NC=CC=C1', 'Oc1ccccn1', 'CC(O)=CC', 'CC(=O)CC', 'NC(N)=N', 'OC1=NC(O)=NC=C1', 'C1=CC=C[CH-]1.[Fe+2].C1=CC=C[CH-]1',
         'c1cnc[nH]1', 'c1ccc2[nH]cnc2c1', 'c1cn[nH]c1', 'c1nc[nH]n1', 'O=c1[nH]cnc2nc[nH]c12', 'Cc1cc(C)n[nH]1', 'c1ccc2[nH]nnc2c1',
         'Cc1ncc[nH]1', 'c1ccc(cc1)-c1cnc[nH]1', 'CC(=O)Cc1ccccc1', 'OC1=CC=CC=N1', 'O=C1NC(=O)C=C1', 'N#Cc1ccc2[nH]c(C)c(C)c2c1',
         '[NH3+]CCCC[C@H]([NH3+])C([O-])=O', '[NH3+]CC[NH3+].[Cl-]', 'C[NH3+].CC[NH3+].CC(=O)[O-]', 'C[NH2+]CCC[NH+](C)C.CC(=O)[O-]',
         '[NH3+]CC([O-])=O.CC(=O)[O-]', 'C[NH3+].[O-]C(=O)CC([O-])=O', '[NH3+]CC[NH3+].[O-]C(=O)CC([O-])=O', '[NH3+]CC[NH2+]CC[NH3+].[Br-].CC([O-])=O',
         'N#C[Hg]C#N', 'N#C[Zn]C#N', 'N#C[Fe](C#N)C#N', 'N#C[Fe](C#N)(C#N)C#N', 'O=C=N[Zn]N=C=O', '[Cu](N=C=O)N=C=O', 'N#CO[Zn]OC#N',
         'N#CS[Hg]SC#N', 'C[N+](C)(C)[Pt][N+](C)(C)C', 'C[P+](C)(C)[Pt][P+](C)(C)C', 'N#C[Hg]SC#N', 'C[O+](C)[Zn][O+](C)C',
         '[Fe]C#N', 'N#C[Cu]', 'O=C=N[Pd]', 'C[N+](C)(C)[Pt]', '[CH2-][N+]#N', '[N-]=[N+]=NC', 'CN=N#N', '[O-][n+]1ccccc1',
         'C1=CC=CC=[N+]1[O-]', 'CC[S](=O)(=O)[O-].[K+]', 'OP(O)(O)=O', '[O-]P([O-])([O-])=O.[Na+].[Na+].[Na+]']


def charged_documented():
    """SMILES written in the comments of `_charged.py` (the spellings the charge-position rules document), read from the
    source text of the working tree: [(A, B)] for `A>>B` comments and [(A, None)] for single spellings."""
    import re
    out = []
    try:
        src = (core.REPO / 'chython' / 'algorithms' / 'standardize' / '_charged.py').read_text()
    except OSError:
        return out
    for line in src.splitlines():
        line = line.strip()
        if not line.startswith('#'):
            continue
        m = re.match(r'#\s*(\S+)>>(\S+)\s*$', line)
        if m and '+' in m.group(1):
            out.append((m.group(1), m.group(2)))
            continue
        m = re.match(r'#\s*(\S+)\s*$', line)
        if m and '+' in m.group(1) and '[' in m.group(1) and len(m.group(1)) > 6:
            out.append((m.group(1), None))
    return out


def n_methylated(m):
    """the same cation with every neutral N-H replaced by N-CH3 (the resonance step leaves N-substituted azoles alone)"""
    from chython.periodictable import C
    ns = [n for n, a in m.atoms() if a.atomic_number == 7 and not a.charge and (a.implicit_hydrogens or 0) >= 1]
    if not ns:
        return None
    c = m.copy()
    for n in ns:
        k = c.add_atom(C())
        c.add_bond(n, k, 1)
    return c


def azolium_instances():
    out = []
    seen = set()
    for a, b in charged_documented():
        for smi in (a, b):
            if not smi or smi in seen:
                continue
            seen.add(smi)
            m = molgen.parse(smi)
            if m is None:
                continue
            out.append((f'azolium:{smi}', normalised(m), [], None))
            try:
                k = n_methylated(m)
            except Exception:
                k = None
            if k is not None:
                out.append((f'azolium:{smi}:NMe', normalised(k), [], None))
    return out


HETARENES = ['c1c[nH]cn1', 'c1cnc[nH]1', 'c1cn[nH]c1', 'c1cc[nH]n1', 'c1nc[nH]n1', 'c1cc[nH]c1', 'c1c[nH]c2ccccc12', 'c1nc2ccccc2[nH]1',
             'c1ccncc1', 'c1ncc2[nH]cnc2n1', 'c1ccc2[nH]nnc2c1', 'c1cnc2[nH]ccc2c1']


def hetarene_pairs(ctx, n):
    """molecules with TWO separate hetero-aromatic systems (linked by CH2, or as two components): tautomer generators must
    not move hydrogens between them"""
    pairs = [(a, b) for a in HETARENES for b in HETARENES]
    if n < len(pairs):
        pairs = ctx.rng.sample(pairs, n)
    out = []
    for a, b in pairs:
        for smi in (f'C({a}){b}', f'{a}.{b}'):
            m = molgen.parse(smi)
            if m is not None:
                out.append((f'hetpair:{smi}', normalised(m), [], None))
    return out


PUSH_PULL = ['CN(C)C=C1C=CC=C1', 'CN(C)C=C1C=CC=CC=C1', 'CN(C)C=CC=O', 'CN(C)C=CC=CC=O', 'CN1C=CC(=O)C=C1', 'CN1C=CC=CC1=O', 'CN(C)C1=CC(=O)C=C1',
             'CN(C)C1=CC=CC(=O)C=C1', 'CN1C=CC=C1C=O', 'CN(C)C=C1C=CC(=O)C=C1', 'CN(C)c1ccc(C=O)cc1', 'CN1C=CC=C1C=C1C=CC=C1', 'CN(C)C=CC1=CC=CC1=O',
             'CN(C)C1=CC=C(C=C1)C=C1C=CC=C1', 'COC=C1C=CC=C1', 'CN(C)C=C1C=CC2=CC=CC=C12']
POLYENES = ['C=CC=C', 'C=C1C=CC=C1', 'C=C1C=CC=CC=C1', 'C=CC=CC=C', 'C=C1C=CC(=C)C=C1', 'CC=CC=C1C=CC=C1', 'C=CC1=CC=CC1=C']


def resonance_drawings(m, radical, limit=6, maxlen=10):
    """charge-separated (or biradical) resonance drawings of a neutral conjugated molecule: the bond orders along an
    alternating path are flipped; N/O donor gets +, the far end - (or both carbon ends become radicals). `fix_resonance`
    documents that it transforms exactly these back into the neutral form. Chains and rings of every size, odd ones included."""
    m = m.copy()
    m.kekule()
    out, seen = [], set()
    for n, a in m.atoms():
        if a.charge or a.is_radical:
            continue
        if radical:
            if a.atomic_number != 6:
                continue
        elif a.atomic_number not in (7, 8) or any(int(b) != 1 for b in m._bonds[n].values()):
            continue
        stack = [(n, [n])]
        while stack and len(out) < limit:
            cur, path = stack.pop()
            first = 2 if radical else 1
            want = first if len(path) % 2 else 3 - first
            for k, b in m._bonds[cur].items():
                if k in path or int(b) != want:
                    continue
                p2 = path + [k]
                end = m.atom(k)
                if want == 2 and not end.charge and not end.is_radical and len(p2) >= (4 if radical else 3) and \
                        end.atomic_number in ((6,) if radical else (6, 7, 8)) and frozenset((p2[0], p2[-1])) not in seen:
                    seen.add(frozenset((p2[0], p2[-1])))
                    c = m.copy()
                    for i in range(len(p2) - 1):
                        bo = c._bonds[p2[i]][p2[i + 1]]
                        bo._order = 2 if int(bo) == 1 else 1
                    if radical:
                        c.atom(p2[0])._is_radical = True
                        c.atom(p2[-1])._is_radical = True
                    else:
                        c.atom(p2[0])._charge = 1
                        c.atom(p2[-1])._charge = -1
                    d, _ = wire.ints_to_mol(wire.mol_to_ints(c), calc=True)
                    if is_valid(d):
                        out.append(d)
                if len(p2) < maxlen:
                    stack.append((k, p2))
    return out


def resonance_instances():
    out = []
    for seeds, radical in ((PUSH_PULL, False), (POLYENES, True)):
        for smi in seeds:
            m = molgen.parse(smi)
            if m is None:
                continue
            try:
                ds = resonance_drawings(m, radical)
            except Exception:
                continue
            for i, d in enumerate(ds):
                out.append((f'dipole:{smi}#{i}', d, [], None))
    return out


MONO_AZOLIUM = ['C[n+]1cc[nH]c1', 'Cn1cc[nH+]c1', 'CC[n+]1cc[nH]c1C', 'CCn1cc[nH+]c1C', 'C[n+]1[nH]ccc1', 'Cn1[nH+]ccc1', 'C[n+]1c[nH]nc1',
                'Cn1c[nH+]nc1', 'OC(=O)C(N)Cc1c[nH]c[nH+]1', 'OC(=O)C(N)Cc1c[nH+]c[nH]1', 'C[n+]1cc[nH]c1-c1ccccc1', 'c1ccc2[nH]c[n+](C)c2c1']


def normalised(m):
    """aromatic input as the library wants it: `smiles()` leaves the hydrogen counts of aromatic hetero atoms undefined (and
    ring-ring bonds aromatic) until `kekule()`; kekule + thiele (without tautomer fixing) gives the same drawing with every
    count set (DESIGN §7 #18). Non-aromatic molecules are returned unchanged."""
    if not any(int(b) == 4 for _, _, b in m.bonds()):
        return m
    c = m.copy()
    try:
        c.kekule()
        c.thiele(fix_tautomers=False)
        return c
    except Exception:
        return m


def molecule_pool(ctx):
    """[(label, mol, fillers, rule-hint)] of everything the streams run on (built once per run)."""
    rng = ctx.rng
    pool = []
    # documented spellings of the repo's own standardize tests
    for raw, res in documented():
        for s in (raw, res):
            m = molgen.parse(s)
            if m is not None:
                pool.append((f'doc:{s}', normalised(m), [], None))
    inst, missing = pattern_instances(ctx, 2 if ctx.quick else 6)
    _state['missing_instances'] = missing
    pool += inst
    pool += overlap_instances(ctx, 1 if ctx.quick else 3)
    pool += multi_ligand_instances(ctx, (2, 3) if ctx.quick else (2, 3, 4), 10 if ctx.quick else 40)
    pool += azolium_instances()
    for smi in MONO_AZOLIUM:  # monocyclic azolium cations, the substituent on either nitrogen (the Morgan rules of _charged.py)
        m = molgen.parse(smi)
        if m is not None:
            pool.append((f'azolium:{smi}', normalised(m), [], None))
    pool += resonance_instances()
    pool += hetarene_pairs(ctx, 8 if ctx.quick else 60)
    if not ctx.quick:
        g = grid_instances(ctx)
        pool += g
        ctx.notes.append(f'rule alternatives grid: {len(g)} molecules ({_state.get("grid_capped", 0)} rules capped at 40 combinations)')
    for s, m in molgen.handmade():
        pool.append((f'hand:{s}', normalised(m), [], None))
    for s in EXTRA:
        m = molgen.parse(s)
        if m is not None:
            pool.append((f'extra:{s}', normalised(m), [], None))
    for s in NEUTRALIZE_EXTRA:  # salts / zwitterions for every stripped acid / base pattern (round 5)
        m = molgen.parse(s)
        if m is not None:
            pool.append((f'extra:neut:{s}', normalised(m), [], None))
    corp = [(lab, normalised(m)) for lab, m in molgen.corpus(rng, 80 if ctx.quick else 500)]
    for lab, m in corp:
        pool.append((lab, m, [], None))
    # corpus molecules (Kekule form) decorated with instantiated groups
    if inst and corp:
        for _ in range(80 if ctx.quick else 600):
            lab, base = rng.choice(corp)
            base = base.copy()
            try:
                base.kekule()
                gl, g, fillers, hint = rng.choice(inst)
                m = graft(rng, base, g, fillers)
                if rng.random() < 0.3:
                    gl2, g2, f2, _ = rng.choice(inst)
                    m = graft(rng, m, g2, f2)
                    gl += '+' + gl2
            except Exception:
                continue
            pool.append((f'{lab}+{gl}', m, [], hint))
    # salts and zwitterions drawn from corpus molecules (neutralize has something to do)
    for lab, base in corp:
        try:
            k = base.copy()
            k.kekule()
            m = ionize(rng, k)
        except Exception:
            m = None
        if m is not None:
            pool.append((f'ion:{lab}', m, [], None))
    # random decorated skeletons (often valence-invalid) and ring assemblies
    for i in range(60 if ctx.quick else 300):
        try:
            edges = molgen.ring_assembly(rng, 3) if rng.random() < 0.5 else rng.choice(_small_graphs())
            m = molgen.decorate(rng, list(edges), hetero=0.4, multiple=0.3, charge=0.15)
        except Exception:
            continue
        if any(a.charge and a.atomic_number in (6, 14) for _, a in m.atoms()):
            # carbon / silicon ions at random positions are outside the generator's domain (they reach the rule tables only
            # through the documented spellings and the rule patterns); see design/C14.md
            ctx.dist('pool:rand-skipped-carbon-ion')
            continue
        pool.append((f'rand[{i}]', m, [], None))
    return pool


_sg = []


def _small_graphs():
    if not _sg:
        for n in (3, 4, 5):
            _sg.extend(molgen.small_graphs(n))
    return _sg


def documented():
    try:
        from chython.algorithms.standardize.test.test_groups import data
        return list(data)
    except Exception:
        return []


# ------------------------------------------------------------------------------------------------
# real-code runners for the correspondence streams
# ------------------------------------------------------------------------------------------------

def real_rule(mol, tname, idx):
    """`__standardize([rule], True)` on `mol` (mutated). -> response in the driver's canonical form."""
    rule = real_tables()[tname][idx]
    try:
        log, fixed = mol._Standardize__standardize([rule], True)
    except Exception as e:
        return exc_name(e), None
    lg = [(idx, k, mt) for _, k, mt in real_log(log)]
    return ('ok', sorted(fixed), lg, wire.mol_to_ints(mol)), None


class _Snap:
    """wraps `fix_resonance` so the state right after it (what the model starts from) can be recorded."""

    def __init__(self):
        self.snap = None

    def __enter__(self):
        from chython.containers import MoleculeContainer
        self.cls = MoleculeContainer
        # the method lives on the Resonance mixin; patch on the concrete class and restore by deleting
        orig = MoleculeContainer.fix_resonance
        me = self

        def wrapped(mol, *a, **kw):
            r = orig(mol, *a, **kw)
            if me.snap is None:
                me.snap = (lmol_ints(mol), list(r) if isinstance(r, list) else r)
            return r
        MoleculeContainer.fix_resonance = wrapped
        return self

    def __exit__(self, *a):
        del self.cls.fix_resonance


def real_standardize(mol, fix_tautomers):
    """real `standardize(logging=True)` with the snapshot taken after its `fix_resonance` call."""
    with _Snap() as s:
        try:
            log = mol.standardize(logging=True, fix_tautomers=fix_tautomers, _fix_stereo=False)
        except Exception as e:
            return s.snap, exc_name(e)
    rules = real_log(log)
    failed = next((tuple(sorted(m)) for m, r, t in log if r == -1 and t == 'standardization failed'), ())
    fixed = next((tuple(sorted(m)) for m, r, t in log if r == -1 and t == 'standardized atoms'), ())
    return s.snap, ('ok', fixed, failed, rules, wire.mol_to_ints(mol))


def run_std_models(jobs):
    """drive the model through STD with pause/resume for many molecules at once (one driver batch per round).
    jobs: [(snap_ints, resonance_fixed, fix_tautomers)] -> [('ok', fixed, failed, log, wire) | (error text,)]"""
    state = [{'ints': ints, 'phase': 0, 'ri': 0, 'fs': 0, 'fixed': sorted(res or []), 'ft': ft, 'log': [], 'out': None}
             for ints, res, ft in jobs]
    for _round in range(12):
        todo = [st for st in state if st['out'] is None]
        if not todo:
            break
        lines = ['STD ' + ' '.join(map(str, [int(st['ft']), st['phase'], st['ri'], st['fs']] + L(st['fixed']) + st['ints']))
                 for st in todo]
        resps = core.run_driver('C14', lines)
        for st, resp in zip(todo, resps):
            if not resp.startswith(('done', 'pause')):
                st['out'] = (resp,)
                continue
            head, allf, failed, lg, molw = [x.strip() for x in resp.split('|')]
            tag, phase, ri, fs = head.split()
            st['phase'], st['ri'], st['fs'] = int(phase), int(ri), int(fs)
            st['log'] += parse_log(lg)
            st['fixed'] = sorted(int(x) for x in allf.split())
            mw = [int(x) for x in molw.split()]
            if tag == 'done':
                st['out'] = ('ok', tuple(st['fixed']), tuple(sorted(int(x) for x in failed.split())), st['log'], mw)
            else:
                # paused: labels / rings / components of the new state come from the real code
                m, _ = wire.ints_to_mol(mw, calc=True)
                st['ints'] = lmol_ints(m)
                _state['pauses'] = _state.get('pauses', 0) + 1
    return [st['out'] if st['out'] is not None else ('no-termination',) for st in state]


def run_std_model(snap_ints, res_fixed, fix_tautomers):
    return run_std_models([(snap_ints, res_fixed, fix_tautomers)])[0]


# ------------------------------------------------------------------------------------------------
# correspondence
# ------------------------------------------------------------------------------------------------

def correspond(ctx):
    t0 = time.time()
    pool = molecule_pool(ctx)
    _state['pool'] = pool
    for lab, m, _f, _h in pool:
        ctx.dist('pool:' + lab.split(':')[0].split('[')[0])
    for x in _state.get('missing_instances', []):
        ctx.dist('pattern-not-instantiated')
        ctx.notes.append(f'no molecule could be drawn for the pattern of {x}')
    programs = set()
    if ctx.build_ok:
        stream_rule(ctx, pool, programs)
        stream_std(ctx, pool, programs)
        stream_hydrogens(ctx, pool, programs)
        stream_neutralize(ctx, pool, programs)
        stream_neutralize_exact(ctx, pool, programs)
        stream_charges(ctx, pool, programs)
        stream_resonance(ctx, pool, programs)
        if not ctx.quick:
            stream_tiny(ctx, programs)
    relational(ctx, pool, programs)
    ctx.cov['programs'] = len(programs)
    ctx.cov['distribution']['pauses(sssr dropped, resumed)'] = _state.get('pauses', 0)
    ctx.cov['distribution']['R:filtered(recorded gap: tautomer chosen by match order)'] = _state.get('gap_tautomer_choice', 0)
    ctx.notes.append(f'pool {len(pool)} molecules; correspondence+relational {time.time() - t0:.1f}s')


def disagree(ctx, stream, label, req, real, model):
    ctx.cov['disagreements_checked'] += 1
    ctx.broke('correspondence', stream, f'{label}: real={str(real)[:600]} model={str(model)[:600]} request={req[:400]}')
    _state.setdefault('disagreeing', []).append((stream, label))


def stream_rule(ctx, pool, programs):
    programs.add('Standardize.__standardize')
    tabs = _state['std']
    reqs = []
    nrules = {t: len(v) for t, v in tabs.items()}
    for lab, mol, _f, hint in pool:
        if len(mol) > 70:
            continue
        picks = set()
        if hint:
            picks.add(hint)
        if lab.startswith('doc:') or hint:
            k = 3 if ctx.quick else 8
        else:
            k = 1 if ctx.quick else 4
        for _ in range(k):
            t = ctx.rng.choice(['single'] * 6 + ['metal'] * 2 + ['double'])
            picks.add((t, ctx.rng.randrange(nrules[t])))
        for t, idx in sorted(picks):
            c = mol.copy()
            line = f'RULE {TABLES[t]} {idx} ' + ' '.join(map(str, lmol_ints(c)))
            real, _ = real_rule(c, t, idx)
            reqs.append((lab, t, idx, line, real))
    if not reqs:
        return
    resps = core.run_driver('C14', [r[3] for r in reqs])
    for (lab, t, idx, line, real), resp in zip(reqs, resps):
        if resp.startswith('ok'):
            head, hs, lg, molw = [x.strip() for x in resp.split('|')]
            model = ('ok', sorted(int(x) for x in hs.split()), parse_log(lg), [int(x) for x in molw.split()])
        else:
            model = resp
        fired = isinstance(real, tuple) and bool(real[2])
        ctx.count(('RULE', line), nontrivial=fired)
        ctx.dist('RULE:fired' if fired else 'RULE:no-match')
        if fired:
            ctx.dist(f'RULE:fired:{t}')
            _state.setdefault('fired', set()).add((t, idx))
            if any(k for _, k, _m in real[2]):
                ctx.dist('RULE:bad-charge-abort')
        if fired and len(ctx.cov['samples']) < 2:
            ctx.sample({'stream': 'RULE', 'molecule': lab, 'rule': f'{t}[{idx}]', 'log': str(real[2])[:200], 'agree': real == model})
        if real != model:
            disagree(ctx, 'RULE', f'{lab} {t}[{idx}]', line, real, model)


def stream_std(ctx, pool, programs):
    programs.add('Standardize.standardize')
    cases = []
    for lab, mol, _f, _h in pool:
        if len(mol) > 70:
            continue
        for ft in ((True,) if ctx.quick and not lab.startswith(('doc:', 'single', 'double', 'metal')) else (True, False)):
            c = mol.copy()
            snap, real = real_standardize(c, ft)
            if snap is None:
                continue
            cases.append((lab, ft, snap, real))
    models = run_std_models([(snap[0], snap[1] or [], ft) for _lab, ft, snap, _real in cases])
    n = 0
    for (lab, ft, snap, real), model in zip(cases, models):
        ints = snap[0]
        fired = isinstance(real, tuple) and bool(real[3])
        ctx.count(('STD', ft, tuple(ints)), nontrivial=fired)
        ctx.dist('STD:fired' if fired else 'STD:nothing')
        if fired:
            for r, k, _m in real[3]:
                ctx.dist('STD:bad-charge-abort' if k else 'STD:applied')
            if real[2]:
                ctx.dist('STD:standardization-failed')
        if fired and n < 2:
            n += 1
            ctx.sample({'stream': 'STD', 'molecule': lab, 'fix_tautomers': ft, 'log': str(real[3])[:200], 'agree': real == model})
        if real != model:
            disagree(ctx, 'STD', f'{lab} ft={ft}', 'STD ' + ' '.join(map(str, ints)), real, model)


def tiny_molecules():
    """exhaustive: every chain of <= 3 atoms (single atom / pair / three in a row) over elements {C, N, O}, bond orders
    {1, 2, 3}, charges {-1, 0, +1} - drawn through the public API; mostly valence-invalid, all of them legal inputs."""
    shapes = [((1,), ()), ((1, 2), ((1, 2),)), ((1, 2, 3), ((1, 2), (2, 3)))]
    for verts, edges in shapes:
        for els in itertools.product((6, 7, 8), repeat=len(verts)):
            for chs in itertools.product((-1, 0, 1), repeat=len(verts)):
                for ords in itertools.product((1, 2, 3), repeat=len(edges)):
                    yield ({v: (z, c, False) for v, z, c in zip(verts, els, chs)}, [(a, b, o) for (a, b), o in zip(edges, ords)])


def stream_tiny(ctx, programs):
    """thorough tier: the exhaustive tiny-molecule domain through STD / EXPL / IMPL (model vs real code only)."""
    n = 0
    reqs, std_cases = [], []
    for atoms, bonds in tiny_molecules():
        try:
            mol = build(atoms, bonds)
        except Exception:
            continue
        n += 1
        c = mol.copy()
        snap, real = real_standardize(c, True)
        if snap is not None:
            std_cases.append((str(mol), snap, real))
        for op in ('EXPL', 'IMPL'):
            c = mol.copy()
            line = f'{op} ' + ' '.join(map(str, wire.mol_to_ints(c)))
            try:
                if op == 'EXPL':
                    k = c.explicify_hydrogens(_fix_stereo=False)
                    r = ('ok', k, wire.mol_to_ints(c))
                else:
                    k, fx = c.implicify_hydrogens(logging=True, _fix_stereo=False)
                    r = ('ok', k, fx, wire.mol_to_ints(c))
            except Exception as e:
                r = exc_name(e)
            reqs.append((op, str(mol), line, r))
    models = run_std_models([(snap[0], snap[1] or [], True) for _l, snap, _r in std_cases])
    for (lab, snap, real), model in zip(std_cases, models):
        fired = isinstance(real, tuple) and bool(real[3])
        ctx.count(('STD', True, tuple(snap[0])), nontrivial=fired)
        ctx.dist('TINY:STD:fired' if fired else 'TINY:STD:nothing')
        if real != model:
            disagree(ctx, 'STD', f'tiny:{lab}', 'STD ' + ' '.join(map(str, snap[0])), real, model)
    resps = core.run_driver('C14', [r[2] for r in reqs])
    for (op, lab, line, real), resp in zip(reqs, resps):
        if resp.startswith('ok'):
            parts = [x.strip() for x in resp.split('|')]
            if op == 'EXPL':
                model = ('ok', int(parts[0].split()[1]), [int(x) for x in parts[1].split()])
            else:
                model = ('ok', int(parts[0].split()[1]), [int(x) for x in parts[1].split()], [int(x) for x in parts[2].split()])
        elif resp == 'err ValenceError':
            model = 'lib:ValenceError'
        else:
            model = resp
        changed = isinstance(real, tuple) and real[1] > 0
        ctx.count((op, line), nontrivial=changed)
        ctx.dist(f'TINY:{op}:' + ('changed' if changed else 'unchanged/error'))
        if real != model:
            disagree(ctx, op, f'tiny:{lab}', line, real, model)
    ctx.notes.append(f'exhaustive sub-domain: all {n} chains of <= 3 atoms over C/N/O x orders 1-3 x charges -1..1 through STD/EXPL/IMPL')


def stream_hydrogens(ctx, pool, programs):
    programs.update(['Standardize.explicify_hydrogens', 'Standardize.implicify_hydrogens'])
    reqs = []

    def add(op, lab, mol):
        c = mol.copy()
        line = f'{op} ' + ' '.join(map(str, wire.mol_to_ints(c)))
        try:
            if op == 'EXPL':
                n = c.explicify_hydrogens(_fix_stereo=False)
                real = ('ok', n, wire.mol_to_ints(c))
            else:
                n, fx = c.implicify_hydrogens(logging=True, _fix_stereo=False)
                real = ('ok', n, fx, wire.mol_to_ints(c))
        except Exception as e:
            real = exc_name(e)
            c = None
        reqs.append((op, lab, line, real))
        return c

    for lab, mol, _f, _h in pool:
        if len(mol) > 70:
            continue
        e = add('EXPL', lab, mol)
        add('IMPL', lab, mol)
        if e is not None:
            add('IMPL', lab + ':explicit', e)
            # partially explicit: drop some of the new hydrogens again through the public API
            hs = [n for n, a in e.atoms() if a.atomic_number == 1]
            if len(hs) > 1:
                p = e.copy()
                for n in ctx.rng.sample(hs, len(hs) // 2):
                    p.delete_atom(n)
                add('IMPL', lab + ':partial', p)
    resps = core.run_driver('C14', [r[2] for r in reqs])
    shown = 0
    for (op, lab, line, real), resp in zip(reqs, resps):
        if resp.startswith('ok'):
            parts = [x.strip() for x in resp.split('|')]
            if op == 'EXPL':
                model = ('ok', int(parts[0].split()[1]), [int(x) for x in parts[1].split()])
            else:
                model = ('ok', int(parts[0].split()[1]), [int(x) for x in parts[1].split()], [int(x) for x in parts[2].split()])
        elif resp == 'err ValenceError':
            model = 'lib:ValenceError'
        else:
            model = resp
        changed = isinstance(real, tuple) and real[1] > 0
        ctx.count((op, line), nontrivial=changed)
        ctx.dist(f'{op}:' + ('changed' if changed else real if isinstance(real, str) else 'unchanged'))
        if changed and shown < 2:
            shown += 1
            ctx.sample({'stream': op, 'molecule': lab, 'hydrogens': real[1], 'agree': real == model})
        if real != model:
            disagree(ctx, op, lab, line, real, model)


def stream_neutralize(ctx, pool, programs):
    programs.add('AcidBase._neutralize')
    reqs = []
    for lab, mol, _f, _h in pool:
        if len(mol) > 70:
            continue
        c = mol.copy()
        try:
            got = next(c._neutralize(True), None)
        except Exception as e:
            ctx.dist('NEUT:' + exc_name(e))
            continue
        if got is None:
            tail = [0, 0]
            changed = []
        else:
            out, changed = got
            changed = sorted(changed)
            tail = L(changed) + [1] + wire.mol_to_ints(out)
        line = 'NEUT ' + ' '.join(map(str, lmol_ints(c) + tail))
        reqs.append((lab, line, bool(changed)))
    resps = core.run_driver('C14', [r[1] for r in reqs])
    shown = 0
    for (lab, line, changed), resp in zip(reqs, resps):
        ctx.count(('NEUT', line), nontrivial=changed)
        ctx.dist('NEUT:changed' if changed else 'NEUT:none')
        if changed and shown < 1:
            shown += 1
            ctx.sample({'stream': 'NEUT', 'molecule': lab, 'model': resp[:120]})
        if not resp.startswith('ok 1'):
            disagree(ctx, 'NEUT', lab, line, 'real result' + (' (changed)' if changed else ' (none)'), resp)


# ------------------------------------------------------------------------------------------------
# round 5 (held-out change): competing matches built FROM the rule tables
# ------------------------------------------------------------------------------------------------

COMPETE_EDITS = ['O', 'N', 'S', 'F', 'ethyl']
LABEL_FIELDS = ('element', 'charge', 'radical', 'D', 'z', 'x', 'h', 'rings')


def _glue(rec, hub, rng, edit):
    """two instantiations of one pattern sharing the image of pattern atom `hub`; one substituent of the second copy is then
    edited (element O / N / S / F, or lengthened to ethyl), so that the two competing environments are NOT equivalent."""
    i1, i2 = instantiate(rec, rng), instantiate(rec, rng)
    if i1 is None or i2 is None or i1[0][hub] != i2[0][hub]:
        return None
    pat_atoms = {n for n, _ in rec['atoms']}
    # substituents the generator hung on the hub itself: the second copy's pattern neighbours take their places
    def hub_fill(inst):
        return [y if x == hub else x for x, y, _o in inst[1] if hub in (x, y) and (y if x == hub else x) not in pat_atoms]
    d2 = sum(1 for x, y, o in i2[1] if hub in (x, y) and (y if x == hub else x) in pat_atoms and o != 8)
    drop1 = set(hub_fill(i1)[:d2])
    drop2 = set(hub_fill(i2))
    shift = max(max(i1[0]), max(i2[0])) + 1
    atoms = {n: v for n, v in i1[0].items() if n not in drop1}
    bonds = [(a, b, o) for a, b, o in i1[1] if a not in drop1 and b not in drop1]
    for n, v in i2[0].items():
        if n != hub and n not in drop2:
            atoms[n + shift] = v
    for a, b, o in i2[1]:
        if a in drop2 or b in drop2:
            continue
        bonds.append((hub if a == hub else a + shift, hub if b == hub else b + shift, o))
    f2 = [f + shift for f in i2[2] if f not in drop2]
    if not f2:
        return None
    f = rng.choice(f2)
    if edit == 'ethyl':
        k = max(atoms) + 1
        atoms[k] = (6, 0, False)
        bonds.append((f, k, 1))
    else:
        atoms[f] = ({'O': 8, 'N': 7, 'S': 16, 'F': 9}[edit], 0, False)
    return atoms, bonds


def competition_instances(ctx):
    """for EVERY rule of the three tables and every pattern atom the rule rewrites: a molecule in which two matches of the rule
    share that atom while their other ends carry different substituents (hetero atom vs carbon, longer chain). Which of the
    competing matches wins may only depend on the structure - by the order of the rules in the table or by the patterns -, never
    on the atom numbers. Built from the regenerated table records, confirmed by the real matcher. [(label, mol, (table, idx))]"""
    tabs = real_tables()
    rng = ctx.rng
    out = []
    for tname, recs in _state['std'].items():
        for idx, rec in enumerate(recs):
            touched = sorted({n for n, *_ in rec['atom_fix']} | {x for a, b, _ in rec['bonds_fix'] for x in (a, b)})
            kinds = dict(rec['atoms'])
            pat = tabs[tname][idx][0]
            charged = {n for n, a in rec['atoms'] if a['charge'] or a['radical']}
            for hub in touched:
                if kinds[hub]['kind'] == 'metal' or not charged <= {hub}:
                    # the copies may not add a second charged / radical centre: molecules with several interacting ion or
                    # radical centres are outside this generator's domain (design/C14.md, Round 5)
                    continue
                edits = rng.sample(COMPETE_EDITS, 3) if ctx.quick else COMPETE_EDITS
                for edit in edits:
                    for attempt in range(4 if ctx.quick else 8):
                        g = _glue(rec, hub, rng, edit)
                        if g is None:
                            continue
                        try:
                            mol = build(*g)
                            sets = {frozenset(mp[n] for n in touched) for mp in pat.get_mapping(mol, automorphism_filter=False)}
                        except Exception:
                            continue
                        if len(sets) >= 2 and any(x != y and x & y for x in sets for y in sets):
                            out.append((f'compete:{tname}[{idx}]@{hub}:{edit}', mol, (tname, idx)))
                            break
    return out


def _atom_labels(a):
    return (a.atomic_number, a.charge, a.is_radical, a.neighbors, a.hybridization, a.heteroatoms, a.implicit_hydrogens,
            tuple(sorted(a.ring_sizes)))


def competition_oracle(ints, rng, k):
    """standardize / canonicalize (tautomer fixing off) of the molecule and of `k` renumbered copies give one structure."""
    m0, _ = wire.ints_to_mol(ints, calc=True)
    out = []
    for op in ('standardize', 'canonicalize'):
        try:
            a = m0.copy()
            apply_op(op, a, False)
            for _ in range(k):
                b, mapping = molgen.renumber(rng, m0)
                apply_op(op, b, False)
                if not same_structure(a, b):
                    out.append((op, 'renumbering', f'{canon(a)} vs {canon(b)} (mapping {mapping})'))
                    break
        except Exception as e:
            out.append((op, 'never-fails', f'{type(e).__name__}: {e}'))
    return out


def competition_signature(ints):
    """which rule, applied alone, already depends on the numbering here - and do the atoms its competing matches would rewrite
    differ in anything a query atom can see (element, charge, radical, D, z, x, h, ring sizes)? If they do not, the matcher's
    first match decides among atoms no pattern and no rule order could tell apart: the recorded mechanism
    `first-match-among-indistinguishable`. If they do, the table is expected to decide (by rule order / constraints)."""
    m0, _ = wire.ints_to_mol(ints, calc=True)
    m0.clean_stereo()
    names = pattern_names()
    out = []
    for text in renumber_culprits(ints):
        if text == 'fix_resonance':
            out.append('C14/fix_resonance/renumbering' if competing_resonance_pairs(ints) else 'C14/fix_resonance/renumbering/no-competing-pairs')
            continue
        t, i = names[text]
        rec = _state['std'][t][i]
        touched = sorted({n for n, *_ in rec['atom_fix']} | {x for a, b, _ in rec['bonds_fix'] for x in (a, b)})
        try:
            maps = list(real_tables()[t][i][0].get_mapping(m0, automorphism_filter=False))
        except Exception:
            maps = []
        diff = set()
        for u in touched:
            labs = sorted({_atom_labels(m0.atom(mp[u])) for mp in maps}, key=repr)
            for x in labs[1:]:
                diff.update(LABEL_FIELDS[j] for j in range(len(LABEL_FIELDS)) if x[j] != labs[0][j])
        if len(maps) >= 2 and not diff:
            out.append('C14/standardize/renumbering/first-match-among-indistinguishable')
        else:
            out.append(f'C14/standardize/renumbering/{text}' + ('/distinguishable' if diff else ''))
    return out or ['C14/standardize/renumbering/competing-matches']


# ------------------------------------------------------------------------------------------------
# round 5: exact `_neutralize` (both keep_charge values, donors / acceptors compared) and `standardize_charges`
# ------------------------------------------------------------------------------------------------

CP_ANIONS = ['[CH-]1C=CC=C1', 'C[C-]1C=CC=C1', 'CC1=C[CH-]C=C1', 'CC1=CC=C[CH-]1', 'CC1=C(C)[CH-]C=C1', 'C1=CC2=CC=CC=C2[CH-]1',
             '[CH-]1C=CC2=CC=CC=C12', 'CC1=C[CH-]C(C)=C1', 'C[C-]1C=CC=C1.[Fe+2].C[C-]1C=CC=C1', 'CC1=C[CH-]C=C1.[Fe+2].[CH-]1C=CC=C1',
             'c1cc[cH-]c1', 'Cc1c[cH-]cc1.[Li+]', 'N#CC1=C[CH-]C=C1', 'OC1=C[CH-]C=C1', 'CC1=CC(C)=C[CH-]1', 'C1=C[N-]C=C1', '[CH-]1C=CC=N1',
             'CC1=C[CH-]C=C1C1=CC=C[CH-]1', 'C[n+]1cc[nH]c1.CC1=C[CH-]C=C1', 'Cn1cc[nH+]c1.C[C-]1C=CC=C1']
NEUTRALIZE_EXTRA = ['C[NH+](C)[O-].CC(=O)[O-]', 'C[NH+](C)[O-].[NH4+].[Cl-]', 'C[NH+](C)[O-].CC(=O)[O-].[NH4+]', '[NH3+]CC([O-])=O',
                    '[O-]P(=S)(O)O.[NH4+]', 'C[S-].[NH4+]', 'C[N-]C.[NH4+]', '[O-][N+](=O)[O-].[NH4+]', '[F-].C[NH3+]', '[OH-].[NH4+]',
                    'C[NH+]=C(N)N.CC([O-])=O', 'c1cc[nH+]cc1.[O-]c1ccccc1', '[O-]C(=O)C[NH2+]CC[NH3+].[O-]C(C)=O',
                    '[Na+].[O-]C(=O)C[NH3+]', '[O-]C(=O)C([O-])C[NH3+].[NH4+]', 'C[Se-].C[NH2+]C', '[O-]Cl(=O)(=O)=O.C[NH3+]',
                    '[O-]S(=O)(=O)C.[NH3+]c1ccccc1', '[NH3+]O.[Cl-]', 'C[NH2+][O-]', 'C[N+](C)(C)C.[OH-]', '[O-][Si](C)(C)=O.[NH4+]']


def charge_instances(ctx):
    """inputs for `standardize_charges`: every spelling documented in `_charged.py` (+ N-methylated), monocyclic azolium cations,
    two cations in one molecule (the `seen` overlap test), cyclopentadienyl anions with the charge drawn on every position
    (the ferrocene branch) - each also under random renumbering (match order / Morgan tie-breaks)."""
    rng = ctx.rng
    base = []
    for a, b in charged_documented():
        for smi in (a, b):
            if smi:
                base.append(smi)
    base += MONO_AZOLIUM + CP_ANIONS + FUSED_AZOLIUM
    mols = []
    for smi in dict.fromkeys(base):
        m = molgen.parse(smi)
        if m is None:
            continue
        mols.append((smi, m))
        try:
            k = n_methylated(m)
        except Exception:
            k = None
        if k is not None:
            mols.append((smi + ':NMe', k))
    out = []
    for smi, m in mols:
        out.append((f'chg:{smi}', m))
    cat = [x for x in mols if '+' in x[0]]
    for _ in range(6 if ctx.quick else 40):
        (s1, _m1), (s2, _m2) = rng.choice(cat), rng.choice(mols)
        mm = molgen.parse(s1.split(':')[0] + '.' + s2.split(':')[0])
        if mm is not None:
            out.append((f'chg2:{s1}.{s2}', mm))
    res = []
    for lab, m in out:
        res.append((lab, m))
        for i in range(1 if ctx.quick else 4):
            try:
                r, _ = molgen.renumber(rng, m)
            except Exception:
                continue
            res.append((f'{lab}#r{i}', r))
    return res


class _Orders:
    """records every `atoms_order` the real code computes while active (the Morgan ranks are an input of the model, like the SSSR)"""

    def __enter__(self):
        from chython.containers import MoleculeContainer
        self.cls = MoleculeContainer
        self.orig = None
        for k in MoleculeContainer.__mro__:
            if 'atoms_order' in k.__dict__:
                self.owner, self.orig = k, k.__dict__['atoms_order']
                break
        self.got = []
        me = self

        class Rec:
            def __get__(self, obj, cls=None):
                if obj is None:
                    return self
                v = me.orig.__get__(obj, cls)
                me.got.append(dict(v))
                return v
        setattr(self.owner, 'atoms_order', Rec())
        return self

    def __exit__(self, *a):
        setattr(self.owner, 'atoms_order', self.orig)


def real_charges(mol):
    """thiele() (what `prepare_molecule` does), snapshot, then the real `standardize_charges(prepare_molecule=False)`."""
    try:
        mol.thiele()
    except Exception as e:
        return None, None, 'thiele:' + exc_name(e)
    mol.__dict__.pop('atoms_order', None)
    snap = lmol_ints(mol)
    with _Orders() as rec:
        try:
            ch = mol.standardize_charges(prepare_molecule=False, logging=True, _fix_stereo=False)
        except Exception as e:
            return snap, rec.got, exc_name(e)
    return snap, rec.got, ('ok', list(ch), wire.mol_to_ints(mol))


def stream_charges(ctx, pool, programs):
    programs.add('Standardize.standardize_charges')
    cases = [(lab, m) for lab, m in charge_instances(ctx)]
    cases += [(lab, m) for lab, m, _f, _h in pool if len(m) <= 70]
    reqs = []
    for lab, mol in cases:
        c = mol.copy()
        try:
            if any(a.implicit_hydrogens is None for _, a in c.atoms()):
                c.kekule()
        except Exception:
            pass
        snap, orders, real = real_charges(c)
        if snap is None:
            ctx.dist('CHG:' + real)
            continue
        tail = [len(orders)]
        for o in orders:
            tail.append(len(o))
            for n, r in o.items():
                tail += [n, r]
        reqs.append((lab, 'CHG ' + ' '.join(map(str, snap + tail)), real, len(orders)))
    resps = core.run_driver('C14', [r[1] for r in reqs])
    shown = 0
    for (lab, line, real, norders), resp in zip(reqs, resps):
        if resp.startswith('ok'):
            _, ch, molw = [x.strip() for x in resp.split('|')]
            model = ('ok', [int(x) for x in ch.split()], [int(x) for x in molw.split()])
        else:
            model = resp
        fired = isinstance(real, tuple) and bool(real[1])
        ctx.count(('CHG', line), nontrivial=fired)
        ctx.dist('CHG:changed' if fired else 'CHG:nothing' if isinstance(real, tuple) else 'CHG:' + str(real))
        if fired:
            ctx.dist(f'CHG:orders-used:{norders}')
            if shown < 2:
                shown += 1
                ctx.sample({'stream': 'CHG', 'molecule': lab, 'changed': real[1], 'agree': real == model})
        if real != model:
            disagree(ctx, 'CHG', lab, line, real, model)


RESONANCE_EXTRA = [  # one drawing per special case of `__entries` / of the loop body (correspondence only; often exotic)
    '[CH2-]C=C[S+]=CC', 'C[S+](=C)C=C[CH2-]', '[CH2-]C=C[S+](C)C', 'C[S+](C)[CH2-]', '[O-]C=C[S+]=C', '[CH2-][S+]=C',
    '[CH2-]C=C=[NH2+]', '[CH2-]C=C=[N+](C)C', '[O-]C=C=[NH2+]', '[CH2-]C=CC#N', '[O-]C=CC#N', 'N#CC=C[CH-]C=C[NH+]=C',
    '[CH2-][N+](C)(C)C', '[CH2-]C=C[NH3+]', '[CH2-]C=C[N+](C)(C)C', 'C=[N+](C)[O-]', 'CC=[N+](C)[CH2-]', 'C[N+](C)=CC=C[CH2-]', 'NC=C[CH+]C',
    'CN(C)C=CC=[N+](C)C', 'CN(C)C=C[CH+]C', 'CNC=CC=[NH+]C', 'CN=[N+]=[N-]', 'C[N-][N+]#N', '[N-]=[N+]=NC=C[CH+]C', '[CH2-]C=CN=[N+]=[N-]',
    '[CH2-][P+](C)(C)C', '[CH2-]C=C[P+](C)(C)C', '[CH2-]C=C[PH+]=C', 'F[P-](F)(F)(F)(F)F.C=C[CH+]C', '[CH2+]C=C[P-](F)(F)(F)(F)(F)',
    'F[B-](F)(F)C=C[CH2+]', 'C[B-](C)C=C[CH2+]', '[BH2-]C=C[CH2+]', '[CH2+]C=C[CH2-]', '[CH2+]C=CC=C[CH2-]', '[CH2-]C=C[CH+]C=C',
    '[CH2]C=C[CH2] |^1:0,3|', '[CH2]C=CC=C[CH2] |^1:0,5|', '[CH2]C=C[CH]C=C[CH2] |^1:0,3,6|', '[CH2]C=C[CH2].[CH2]C=C[CH2] |^1:0,3,4,7|',
    '[O]C=C[CH2] |^1:0,3|', 'C[N]C=C[CH2] |^1:1,4|', '[CH2-]C=C[O+]=C', '[CH2-]C=C[OH+]C', '[O-]C=C[CH+]C', '[S-]C=CC=[OH+]', '[Se-]C=C[CH2+]',
    '[CH2-]C1=CC=C[CH+]1', '[CH-]1C=CC=C1[CH2+]', '[O-]c1ccc([CH2+])cc1', '[CH2-]c1ccc([CH2+])cc1', '[O-]C1=CC=C(C=C1)[N+](C)=C',
    '[SiH2-]C=C[CH2+]', '[AsH-]C=C[CH2+]', '[Te-]C=C[CH2+]', '[CH2-]C=C[SiH2+]', 'C[O-].C=C[CH2+]', '[CH2-]C#C[CH2+]', '[CH2-]C=C=C[CH2+]']
FUSED_AZOLIUM = ['[nH]1c[nH+]c2[nH]c[nH+]c12', 'Cn1c[n+](C)c2n(C)c[n+](C)c12', '[nH]1c[nH+]c2c1[nH]c[nH+]2', 'C[n+]1cn2cc[n+](C)c2c1',
                 'Cn1cc2c[n+](C)cn2c1', 'c1c[nH+]c2[nH]c3[nH]c[nH+]c3c12', '[nH]1cc2[nH+]cc[nH+]c2c1', 'C[n+]1ccn2c1[n+](C)cc2', 'Cn1c[n+](C)c2[nH]n[nH+]c12',
                 'c1[nH]c2c([nH+]1)[nH]c1[nH+]c[nH]c21']


def real_resonance(mol):
    """slot order (= pop order) of the `rads` / `entries` sets of the real `__entries()`, snapshot, real `fix_resonance`."""
    try:
        entries, _exits, rads, *_ = mol._Resonance__entries()
    except Exception as e:
        return None, None, None, 'entries:' + exc_name(e)
    rad_order, ent_order = list(rads), list(entries)
    snap = lmol_ints(mol)
    try:
        r = mol.fix_resonance(logging=True, _fix_stereo=False)
    except Exception as e:
        return snap, rad_order, ent_order, exc_name(e)
    return snap, rad_order, ent_order, ('ok', sorted(r), wire.mol_to_ints(mol))


def stream_resonance(ctx, pool, programs):
    programs.add('Resonance.fix_resonance')
    reqs = []
    extra = []
    for smi in RESONANCE_EXTRA:
        m = molgen.parse(smi)
        if m is None:
            ctx.dist('RES:extra-not-parsed')
            continue
        m = normalised(m)
        extra.append((f'res:{smi}', m, [], None))
        for i in range(2 if ctx.quick else 6):
            try:
                extra.append((f'res:{smi}#r{i}', molgen.renumber(ctx.rng, m)[0], [], None))
            except Exception:
                pass
    for lab, mol, _f, _h in extra + list(pool):
        if len(mol) > 60:
            continue
        c = mol.copy()
        snap, ro, eo, real = real_resonance(c)
        if snap is None:
            ctx.dist('RES:' + real)
            continue
        reqs.append((lab, 'RES ' + ' '.join(map(str, snap + L(ro) + L(eo))), real, bool(ro) or bool(eo)))
    resps = core.run_driver('C14', [r[1] for r in reqs])
    shown = 0
    for (lab, line, real, cand), resp in zip(reqs, resps):
        if resp.startswith('ok'):
            _, hs, molw = [x.strip() for x in resp.split('|')]
            model = ('ok', sorted(int(x) for x in hs.split()), [int(x) for x in molw.split()])
        else:
            model = resp
        fired = isinstance(real, tuple) and bool(real[1])
        ctx.count(('RES', line), nontrivial=fired or cand)
        ctx.dist('RES:changed' if fired else 'RES:candidates-no-path' if cand else 'RES:nothing' if isinstance(real, tuple) else 'RES:' + str(real))
        if fired and shown < 2:
            shown += 1
            ctx.sample({'stream': 'RES', 'molecule': lab, 'changed': real[1], 'agree': real == model})
        if real != model:
            disagree(ctx, 'RES', lab, line, real, model)


def real_neutralize_first(mol, keep_charge):
    """first result of the real `_neutralize(keep_charge)` and the donor / acceptor sets it worked with (generator locals)"""
    g = mol._neutralize(keep_charge)
    try:
        out, changed = next(g)
    except StopIteration:
        return ('nothing',)
    loc = g.gi_frame.f_locals
    return ('yield', sorted(loc['donors']), sorted(loc['acceptors']), sorted(changed), wire.mol_to_ints(out))


def stream_neutralize_exact(ctx, pool, programs):
    programs.add('AcidBase._neutralize(keep_charge=False)')
    cases = [(lab, m) for lab, m, _f, _h in pool if len(m) <= 70]
    for smi in NEUTRALIZE_EXTRA:
        m = molgen.parse(smi)
        if m is None:
            continue
        m = normalised(m)
        cases.append((f'neut:{smi}', m))
        for i in range(1 if ctx.quick else 3):
            try:
                cases.append((f'neut:{smi}#r{i}', molgen.renumber(ctx.rng, m)[0]))
            except Exception:
                pass
    reqs = []
    for lab, mol in cases:
        for kc in (True, False):
            c = mol.copy()
            try:
                real = real_neutralize_first(c, kc)
            except Exception as e:
                ctx.dist('NEUTX:' + exc_name(e))
                real = 'crash'
            reqs.append((lab, kc, f'NEUTX {int(kc)} ' + ' '.join(map(str, lmol_ints(c))), real))
    resps = core.run_driver('C14', [r[2] for r in reqs])
    shown = 0
    for (lab, kc, line, real), resp in zip(reqs, resps):
        parts = [x.strip() for x in resp.split('|')]
        tag = parts[0]
        ok = False
        changed = isinstance(real, tuple) and real[0] == 'yield'
        if real == 'crash':
            ok = tag == 'crash'
        elif tag == 'nothing':
            ok = real == ('nothing',)
        elif tag in ('exact', 'choice') and changed:
            ds, acc = sorted(int(x) for x in parts[1].split()), sorted(int(x) for x in parts[2].split())
            ok = ds == real[1] and acc == real[2]
            if tag == 'exact':
                ok = ok and sorted(int(x) for x in parts[3].split()) == real[3] and [int(x) for x in parts[4].split()] == real[4]
            else:
                ok = ok and kc and len(ds) != len(acc)      # the result itself is judged by the NEUT checker stream
        ctx.count(('NEUTX', line), nontrivial=changed)
        ctx.dist(f'NEUTX:kc={int(kc)}:' + (tag if tag in ('nothing', 'exact', 'choice') else 'other'))
        if changed and tag == 'exact' and shown < 2:
            shown += 1
            ctx.sample({'stream': 'NEUTX', 'molecule': lab, 'keep_charge': kc, 'donors': real[1], 'acceptors': real[2], 'agree': ok})
        if not ok:
            disagree(ctx, 'NEUTX', f'{lab} keep_charge={kc}', line, real, resp)


# ------------------------------------------------------------------------------------------------
# relational oracles on the real code (never consult the model)
# ------------------------------------------------------------------------------------------------

def heavy(m):
    return Counter((a.atomic_number, a.isotope) for _, a in m.atoms() if a.atomic_number != 1)


def hcount(m):
    t = 0
    for _, a in m.atoms():
        if a.implicit_hydrogens is None:
            return None
        t += a.implicit_hydrogens + (a.atomic_number == 1)
    return t


def apply_op(op, m, ft):
    """run one public operation; returns the list of result molecules (the molecule itself for in-place operations)."""
    if op == 'standardize':
        m.standardize(fix_tautomers=ft)
    elif op == 'canonicalize':
        m.canonicalize(fix_tautomers=ft)
    elif op == 'fix_resonance':
        m.fix_resonance()
    elif op == 'neutralize':
        m.neutralize()
    elif op == 'explicify':
        m.explicify_hydrogens()
    elif op == 'implicify':
        m.implicify_hydrogens()
    elif op == 'tautomers':
        return list(itertools.islice(m.enumerate_tautomers(limit=12), 12))
    else:
        raise ValueError(op)
    return [m]


OPS = ['standardize', 'canonicalize', 'fix_resonance', 'neutralize', 'explicify', 'implicify', 'tautomers']
IDEMPOTENT = ['standardize', 'canonicalize', 'fix_resonance', 'neutralize', 'explicify', 'implicify']


def canon(m):
    """canonical string with aromaticity normalised (Kekule spellings of one ring are the same molecule: C01)."""
    c = m.copy()
    try:
        c.thiele(fix_tautomers=False)
    except Exception:
        pass
    return str(c)


def _inv(m):
    return sorted((a.atomic_number, a.isotope or 0, a.charge, a.is_radical, a.implicit_hydrogens if a.implicit_hydrogens is not None else -1,
                   tuple(sorted(int(b) for b in m._bonds[n].values()))) for n, a in m._atoms.items())


def same_structure(a, b, limit=5000):
    """are the two molecules the same structure (aromaticity normalised)? Canonical strings first; when they differ the
    decision is made by graph isomorphism (elements, isotopes, charges, radicals, bond orders, hydrogen counts), because the
    canonical string of highly symmetric graphs may depend on the numbering (C01's recorded gap), which is not this property."""
    a = a.copy()
    b = b.copy()
    for x in (a, b):
        try:
            x.thiele(fix_tautomers=False)
        except Exception:
            pass
    if str(a) == str(b):
        return True
    if len(a) != len(b) or a.bonds_count != b.bonds_count or _inv(a) != _inv(b):
        return False
    for i, mp in enumerate(a.get_mapping(b, automorphism_filter=False)):
        if all(a._atoms[n].implicit_hydrogens == b._atoms[k].implicit_hydrogens for n, k in mp.items()):
            return True
        if i > limit:
            break
    return False


def inconsistent_atoms(m):
    """atoms whose stored hydrogen count is not one the element's valence rules allow for their charge / radical / bonds
    (`check_implicit`); atoms with aromatic bonds cannot be judged this way and are skipped. A count of `None` is reported by
    `check_valence` already."""
    bad = []
    for n, a in m.atoms():
        h = a.implicit_hydrogens
        if h is None or any(int(b) == 4 for b in m._bonds[n].values()):
            continue
        try:
            if not m.check_implicit(n, h):
                bad.append(n)
        except Exception:
            bad.append(n)
    return bad


def not_kekulizable(o):
    """a result must be a drawable structure: its aromatic rings have a Kekule form and, in that form, every atom has a count
    the valence rules allow (aromatic atoms cannot be judged by `check_implicit` directly). Returns a description or None."""
    if not any(int(b) == 4 for _, _, b in o.bonds()):
        return None
    c = o.copy()
    try:
        c.kekule()
    except Exception as e:
        return f'{type(e).__name__}: {str(e)[:80]}'
    bad = c.check_valence() or inconsistent_atoms(c)
    return f'Kekule form has invalid atoms {bad}' if bad else None


def is_valid(m):
    """valence-valid input of the property: no atom without a hydrogen count, every stored count allowed by the valence rules,
    and no hydrogen drawn with two bonds / a multiple bond (chython never flags hydrogens; `implicify_hydrogens` documents a
    ValenceError for them)."""
    return not m.check_valence() and not _hydrogen_drawn_invalid(m) and not inconsistent_atoms(m) and not not_kekulizable(m)


def pattern_names():
    if 'pattern_names' not in _state:
        d = {}
        for t, tab in real_tables().items():
            for i, e in enumerate(tab):
                d.setdefault(str(e[0]), (t, i))
        _state['pattern_names'] = d
    return _state['pattern_names']


def culprit_rules(ints, check):
    """which single rules, applied alone through the real `__standardize`, already break the clause `check` on this input.
    Returns the SMARTS of those rules (stable under reordering of the tables)."""
    m0, _ = wire.ints_to_mol(ints, calc=True)
    try:
        log = m0.copy().standardize(logging=True, fix_tautomers=True)
    except Exception:
        return []
    names = pattern_names()
    out = []
    for _match, r, text in log:
        if r < 0 or text not in names or text in out:
            continue
        t, i = names[text]
        c = m0.copy()
        try:
            c._Standardize__standardize([real_tables()[t][i]], True)
        except Exception:
            continue
        bad = {'hydrogen-count': hcount(c) != hcount(m0), 'net-charge': int(c) != int(m0),
               'valence-error': bool(c.check_valence() or inconsistent_atoms(c))}.get(check, False)
        if bad:
            out.append(text)
    return out


def oracle(ints, op, ft, rng=None, renumber=True):
    """All clauses of the property for one (molecule, operation). Returns [(check, detail)] of the clauses that FAIL.
    `ints` is the wire form of the input (so a failing input is replayable)."""
    fails = []
    m0, _ = wire.ints_to_mol(ints, calc=True)
    valid = is_valid(m0)
    comp0, q0, h0 = heavy(m0), int(m0), hcount(m0)
    m = m0.copy()
    try:
        outs = apply_op(op, m, ft)
    except Exception as e:
        if valid:
            fails.append(('never-fails', f'{type(e).__name__}: {e}'))
        return fails
    if op != 'tautomers':
        sc = stale_cache(m)
        if sc:
            fails.append(('stale-cache', sc))
    for o in outs:
        if heavy(o) != comp0:
            fails.append(('heavy-atoms', f'{dict(comp0)} -> {dict(heavy(o))}'))
        if not valid:
            continue
        q1, h1 = int(o), hcount(o)
        if o.check_valence() or inconsistent_atoms(o):
            fails.append(('valence-error', f'atoms {o.check_valence() or inconsistent_atoms(o)} after {op}'))
            continue
        nk = not_kekulizable(o)
        if nk:
            fails.append(('valence-error', f'{str(o)} after {op} is not a structure: {nk}'))
            continue
        if op == 'neutralize':
            if q1 - q0 != h1 - h0:
                fails.append(('proton-balance', f'charge {q0}->{q1}, H {h0}->{h1}'))
            elif q1 != q0:
                # documented default keep_charge=True: protons are moved between sites, never lost or gained
                fails.append(('net-charge', f'{q0} -> {q1} with keep_charge=True (H {h0} -> {h1})'))
        else:
            if q1 != q0:
                fails.append(('net-charge', f'{q0} -> {q1}'))
            if h1 != h0:
                fails.append(('hydrogen-count', f'{h0} -> {h1}'))
    if not valid or fails:
        return fails
    if op in IDEMPOTENT:
        s1 = str(m)
        w1 = wire.mol_to_ints(m)
        try:
            before = m.copy()
            apply_op(op, m, ft)
            # the same structure (atom for atom, or - when a charge / hydrogen sits on another of several equivalent atoms -
            # isomorphic including hydrogen counts)
            if str(m) != s1 or (wire.mol_to_ints(m) != w1 and not same_structure(before, m)):
                fails.append(('idempotent', f'{s1} -> {str(m)}'))
        except Exception as e:
            fails.append(('idempotent', f'second application raised {type(e).__name__}: {e}'))
    # the remaining clauses compare canonical strings of different objects: stereo marks are relative to the numbering and
    # are not part of this property, so they are removed first
    m0s = m0.copy()
    m0s.clean_stereo()
    if not fails and op in ('standardize', 'canonicalize'):
        # idempotence through an independently rebuilt object (fresh labels and caches)
        try:
            a = m0s.copy()
            apply_op(op, a, ft)
            r = molgen.rebuild(a)
            apply_op(op, r, ft)
            if not same_structure(a, r):
                fails.append(('idempotent-rebuilt', f'{canon(a)} -> {canon(r)}'))
        except Exception as e:
            fails.append(('idempotent-rebuilt', f'raised {type(e).__name__}: {e}'))
    if renumber and rng is not None and not fails and op != 'tautomers':
        m2, mapping = molgen.renumber(rng, m0s)
        pair = (wire.mol_to_ints(m0s), wire.mol_to_ints(m2))
        try:
            apply_op(op, m2, ft)
            a = m0s.copy()
            apply_op(op, a, ft)
            if not same_structure(a, m2):
                if ft and op in ('standardize', 'canonicalize') and tautomer_choice_made(pair):
                    # recorded gap of the property: with tautomer fixing ON the tautomer of a hetero-arene is chosen by match
                    # order (dihydroxypyrimidines, quinoxalinediols ...): filtered out of the domain, counted
                    _state['gap_tautomer_choice'] = _state.get('gap_tautomer_choice', 0) + 1
                else:
                    _state['last_renumber'] = pair
                    fails.append(('renumbering', f'{canon(a)} vs {canon(m2)} (mapping {mapping})'))
        except Exception as e:
            fails.append(('renumbering', f'renumbered input raised {type(e).__name__}: {e}'))
    return fails


def tautomer_choice_made(pair):
    """did tautomer fixing choose a tautomer on either numbering? (a tautomer rule of the tables fired, or thiele reported
    `aromatic tautomer found`)"""
    taut = {str(e[0]) for tab in real_tables().values() for e in tab if e[4]}
    for ints in pair:
        m, _ = wire.ints_to_mol(ints, calc=True)
        try:
            log = m.canonicalize(fix_tautomers=True, logging=True)
        except Exception:
            return False
        if any(t == 'aromatic tautomer found' or t in taut for _m, _r, t in log):
            return True
    return False


def _mapping_for(pat, mol, match):
    for mp in pat.get_mapping(mol, automorphism_filter=False):
        if set(mp.values()) == match:
            return mp
    return None


def overlap_skip_mechanism(ints, ft=True):
    """is a second-pass conversion explained by the recorded overlap-skip finding? True only if every rule application of the
    second standardize() call is a match that shares atoms with a first-pass application of the SAME rule and every shared
    atom is, in both matches, the image of a plain context atom of the pattern: not rewritten by atom_fix / bonds_fix, not
    listed in any_atoms, not an `A` / `M` query atom. (A metal shared by two ligands, or any rewritten atom, is NOT this.)"""
    from chython.periodictable import AnyElement, AnyMetal
    try:
        m0, _ = wire.ints_to_mol(ints, calc=True)
        m1 = m0.copy()
        log1 = m1.standardize(logging=True, fix_tautomers=ft)
        m1b = m1.copy()
        log2 = m1b.standardize(logging=True, fix_tautomers=ft)
    except Exception:
        return False
    names = pattern_names()
    second = [(set(match), text) for match, r, text in log2 if r >= 0]
    if not second:
        return False
    for match2, text in second:
        if text not in names:
            return False
        t, i = names[text]
        pat, atom_fix, bonds_fix, any_atoms, _taut = real_tables()[t][i]
        touched = set(atom_fix) | {x for a, b, _o in bonds_fix for x in (a, b)} | set(any_atoms)
        firsts = [set(match) for match, r, tx in log1 if r >= 0 and tx == text and set(match) & match2]
        if not firsts:
            return False
        mp2 = _mapping_for(pat, m1, match2)
        if mp2 is None:
            return False
        inv2 = {v: k for k, v in mp2.items()}
        for match1 in firsts:
            mp1 = _mapping_for(pat, m0, match1)
            if mp1 is None:
                return False
            inv1 = {v: k for k, v in mp1.items()}
            for x in match1 & match2:
                for u in (inv1[x], inv2[x]):
                    if u in touched or isinstance(pat.atom(u), (AnyElement, AnyMetal)):
                        return False
    return True


def competing_resonance_pairs(ints):
    """the recorded fix_resonance numbering dependence needs a choice: at least two anion starts or two cation ends"""
    try:
        m, _ = wire.ints_to_mol(ints, calc=True)
        entries, exits, rads, *_ = m._Resonance__entries()
        # charged starts / ends only: the neutral amine and nitrile helpers the search adds are not a choice between dipoles
        neg = [n for n in entries if m.atom(n).charge == -1]
        pos = [n for n in exits if m.atom(n).charge == 1]
        return len(neg) >= 2 or len(pos) >= 2 or len(rads) >= 3
    except Exception:
        return False


def unbalanced_salt(ints):
    """the recorded neutralize numbering dependence needs a choice: donors and acceptors both present, in different numbers"""
    try:
        from chython.algorithms.tautomers._acid import stripped_rules as acid
        from chython.algorithms.tautomers._base import stripped_rules as base
        m, _ = wire.ints_to_mol(ints, calc=True)
        d = {mp[1] for q in acid for mp in q.get_mapping(m, automorphism_filter=False)}
        a = {mp[1] for q in base for mp in q.get_mapping(m, automorphism_filter=False)}
        return bool(d) and bool(a) and len(d) != len(a)
    except Exception:
        return False


def donors_left_and_new_acceptor(ints):
    """the recorded non-idempotence of neutralize: more donors than acceptors (so donors remain) AND the first call created an
    acceptor that was none before"""
    try:
        from chython.algorithms.tautomers._acid import stripped_rules as acid
        from chython.algorithms.tautomers._base import stripped_rules as base
        m, _ = wire.ints_to_mol(ints, calc=True)
        d = {mp[1] for q in acid for mp in q.get_mapping(m, automorphism_filter=False)}
        a = {mp[1] for q in base for mp in q.get_mapping(m, automorphism_filter=False)}
        if not (d and a and len(d) > len(a)):
            return False
        m.neutralize()
        d2 = {mp[1] for q in acid for mp in q.get_mapping(m, automorphism_filter=False)}
        a2 = {mp[1] for q in base for mp in q.get_mapping(m, automorphism_filter=False)}
        return bool(d2) and bool(a2 - a)
    except Exception:
        return False


def signature(ints, op, check, ft=False):
    """smallest stable description of what fails where: operation, clause and - where one can be isolated - the rule
    (by its SMARTS) or sub-operation that already breaks the clause on its own."""
    base = sig(op, check)
    if op in ('standardize', 'canonicalize') and check in ('hydrogen-count', 'net-charge', 'valence-error'):
        # fix_resonance is the first step of both: does it break the clause on its own?
        if any(x[0] == check for x in oracle(ints, 'fix_resonance', False, None, renumber=False)):
            return [f'C14/fix_resonance/{check}']
    if op in ('standardize', 'canonicalize', 'tautomers') and check in ('hydrogen-count', 'net-charge', 'valence-error'):
        c = culprit_rules(ints, check)
        if c:
            return [f'C14/standardize/{check}/{x}' for x in c]
    if op in ('standardize', 'canonicalize') and check == 'idempotent':
        try:
            m0, _ = wire.ints_to_mol(ints, calc=True)
            r1 = [t for _m, r, t in m0.standardize(logging=True, fix_tautomers=ft) if r >= 0]
            r2 = [t for _m, r, t in m0.standardize(logging=True, fix_tautomers=ft) if r >= 0]
            if r2 and set(r2) <= set(r1) and overlap_skip_mechanism(ints, ft):
                # a match that was skipped because it shares a plain context atom (not rewritten, not any_atoms, not A/M) with
                # an earlier match of the same rule is never retried within the call
                return ['C14/standardize/idempotent/overlap-skip']
            if r2:
                return [f'C14/standardize/idempotent/{x}' for x in sorted(set(r2))]
            m1, _ = wire.ints_to_mol(ints, calc=True)
            m1.standardize(fix_tautomers=ft)
            if r1 and m1.fix_resonance():
                # the rules created a dipole that the resonance step (which runs *before* the rules) neutralises next time
                return ['C14/standardize/idempotent/resonance-after-rules']
        except Exception:
            pass
    if op == 'canonicalize' and check == 'idempotent-rebuilt':
        try:
            m1, _ = wire.ints_to_mol(ints, calc=True)
            m1.clean_stereo()
            m1.canonicalize(fix_tautomers=ft)
            lg = molgen.rebuild(m1).canonicalize(fix_tautomers=ft, logging=True)
            ring_carbanion = any(a.atomic_number == 6 and a.charge == -1 and 5 in a.ring_sizes for _n, a in m1.atoms())
            if ring_carbanion and any(t == 'recharged' for _m, _r, t in lg):
                return ['C14/canonicalize/idempotent-rebuilt/recharged']
        except Exception:
            pass
    if op in ('standardize', 'canonicalize', 'fix_resonance') and check in ('renumbering', 'idempotent-rebuilt', 'idempotent'):
        c = renumber_culprits(ints)
        if c:
            fr = 'C14/fix_resonance/renumbering' if competing_resonance_pairs(ints) else 'C14/fix_resonance/renumbering/no-competing-pairs'
            return [fr if x == 'fix_resonance' else f'C14/standardize/renumbering/{x}' for x in c]
    if op == 'neutralize' and check == 'renumbering' and not unbalanced_salt(ints):
        return ['C14/neutralize/renumbering/balanced']
    if op == 'neutralize' and check.startswith('idempotent') and donors_left_and_new_acceptor(ints):
        # more donors than acceptors: donors remain after the first call and deprotonating an [NH+]-[O-] type zwitterion
        # turned its anion into an acceptor (Props/C14.lean: neutralize_idempotent_partial proves the complementary class)
        return ['C14/neutralize/idempotent/unbalanced']
    return [base]


def _hydrogen_drawn_invalid(m):
    """explicit hydrogens with two bonds or a multiple bond: `implicify_hydrogens` documents a ValenceError for them."""
    for n, a in m.atoms():
        if a.atomic_number == 1:
            bs = [int(b) for b in m._bonds[n].values()]
            if len(bs) > 1 or any(b not in (1, 8) for b in bs):
                return True
    return False


def inverse_oracle(ints):
    """explicify / implicify are mutually inverse on valence-valid molecules."""
    fails = []
    m0, _ = wire.ints_to_mol(ints, calc=True)
    if not is_valid(m0) or any(int(b) == 4 for _, _, b in m0.bonds()):
        return fails
    try:
        a = m0.copy()
        a.implicify_hydrogens()
        base = str(a)
        hs = [(n, x.implicit_hydrogens) for n, x in a.atoms()]
        b = a.copy()
        b.explicify_hydrogens()
        full = str(b)
        e0 = b.copy()
        b.implicify_hydrogens()
        if [(n, x.implicit_hydrogens) for n, x in b.atoms()] != hs or wire.mol_to_ints(_nostereo(b)) != wire.mol_to_ints(_nostereo(a)):
            fails.append(('implicify-after-explicify', f'{base} -> {full} -> {str(b)}'))
        c = b.copy()
        c.explicify_hydrogens()
        if not same_structure(c, wire.ints_to_mol(wire.mol_to_ints(e0), calc=True)[0]):
            fails.append(('explicify-after-implicify', f'{full} -> {str(c)}'))
    except Exception as e:
        fails.append(('inverse-raises', f'{type(e).__name__}: {e}'))
    return fails


def _nostereo(m):
    c = m.copy()
    c.clean_stereo()
    return c


def renumber_culprits(ints, seeds=6):
    """rules that, applied alone through the real `__standardize`, already give different structures for the molecule and a
    renumbered copy (the SMARTS of those rules); `fix_resonance` is reported by name."""
    import random
    m0, _ = wire.ints_to_mol(ints, calc=True)
    m0.clean_stereo()
    try:
        log = m0.copy().standardize(logging=True, fix_tautomers=True)
    except Exception:
        return []
    names = pattern_names()
    fired = []
    for _match, r, text in log:
        if r >= 0 and text in names and text not in fired:
            fired.append(text)
    out = []
    pairs = []
    lr = _state.get('last_renumber')
    if lr and lr[0] == wire.mol_to_ints(m0):
        pairs.append(wire.ints_to_mol(lr[1], calc=True)[0])
    for seed in range(seeds):
        pairs.append(molgen.renumber(random.Random(seed), m0)[0])
    for m2 in pairs:
        a, b = m0.copy(), m2.copy()
        a.fix_resonance()
        b.fix_resonance()
        if not same_structure(a, b):
            if 'fix_resonance' not in out:
                out.append('fix_resonance')
            continue
        for text in fired:
            if text in out:
                continue
            t, i = names[text]
            a, b = m0.copy(), m2.copy()
            try:
                a._Standardize__standardize([real_tables()[t][i]], True)
                b._Standardize__standardize([real_tables()[t][i]], True)
            except Exception:
                continue
            if not same_structure(a, b):
                out.append(text)
    return out


def accounting_oracle(ints, ft=True):
    """the log of `standardize(logging=True)` is an exact ledger of the net charge (the Lean theorem
    `standardize_charge_accounting`, evaluated on the real code with the real tables): the net charge changes by exactly the
    sum of the `atom_fix` deltas of the rules logged as applied - for every input, valid or not. A `bad charge formed`
    entry stands for "changes omitted", i.e. for no change at all."""
    m, _ = wire.ints_to_mol(ints, calc=True)
    q0 = int(m)
    try:
        log = m.standardize(logging=True, fix_tautomers=ft)
    except Exception:
        return []
    names = pattern_names()
    exp = 0
    for _match, r, text in log:
        if r < 0 or text.startswith('bad charge'):
            continue
        if text not in names:
            return []
        t, i = names[text]
        exp += sum(c for c, _ in real_tables()[t][i][1].values())
    if int(m) - q0 != exp:
        return [('charge-accounting', f'net charge {q0} -> {int(m)}, the log accounts for {exp:+d}: {[x[1:] for x in log if x[1] >= 0][:4]}')]
    return []


def charged_documented_oracle(a, b):
    """`A>>B` of `_charged.py`: both spellings are the same cation and canonicalize() brings them to one form"""
    from chython import smiles
    try:
        x, y = smiles(a), smiles(b)
        qa = int(x)
        x.canonicalize(fix_tautomers=False)
        y.canonicalize(fix_tautomers=False)
    except Exception as e:
        return [('documented-spelling', f'{a}>>{b}: {type(e).__name__}: {e}')]
    if int(x) != qa:
        return [('net-charge', f'{a}: {qa} -> {int(x)} ({str(x)})')]
    if not same_structure(x, y):
        return [('documented-spelling', f'{a} -> {str(x)}, documented {b} -> {str(y)}')]
    return []


def hydrogen_spelling_oracle(ints, fts=(False, True)):
    """canonicalize() promises a form without explicit hydrogens: the all-explicit spelling of a valid molecule must reach the
    same result as the implicit one, in one call. Returns [(check, detail, explained)]: `explained` = the difference is the
    recorded order-of-steps finding (rules run before implicify: a second call, or implicify first, gives the right result)."""
    m0, _ = wire.ints_to_mol(ints, calc=True)
    m0.clean_stereo()
    if not is_valid(m0) or any(a.atomic_number == 1 for _, a in m0.atoms()):
        return []
    out = []
    for ft in fts:
        try:
            ref = m0.copy()
            ref.canonicalize(fix_tautomers=ft)
            e = m0.copy()
            if not e.explicify_hydrogens():
                return []
            e1 = e.copy()
            e1.canonicalize(fix_tautomers=ft)
        except Exception as ex:
            out.append(('hydrogen-spelling', f'{type(ex).__name__}: {ex}', False))
            continue
        if same_structure(ref, e1):
            continue
        try:
            e2 = e1.copy()
            e2.canonicalize(fix_tautomers=ft)
            explained = same_structure(ref, e2) and not any(a.atomic_number == 1 for _, a in e1.atoms())
        except Exception:
            explained = False
        out.append(('hydrogen-spelling', f'fix_tautomers={ft}: implicit -> {canon(ref)}, all-explicit -> {canon(e1)}', explained))
    return out


def label_state(m):
    """what is cached in the object: atom labels, bond ring flags, ring set"""
    return ([(n, a._neighbors, a._hybridization, a._heteroatoms, tuple(sorted(a._ring_sizes)), bool(a._in_ring)) for n, a in m._atoms.items()],
            sorted((min(n, k), max(n, k), bool(b._in_ring)) for n, k, b in m.bonds()),
            sorted(tuple(sorted(r)) for r in m.sssr))


def stale_cache(o):
    """the object an operation leaves behind must describe its own bonds: the cached rings and the labels derived from them
    equal those of a freshly built object with the same atoms and bonds (rings kept across a bond that became a coordinate
    bond, labels not recalculated ...). Returns a description or None."""
    try:
        fresh, _ = wire.ints_to_mol(wire.mol_to_ints(o), calc=True)
        a, b = label_state(o), label_state(fresh)
    except Exception as e:
        return f'{type(e).__name__}: {str(e)[:80]}'
    if a != b:
        part = ['atom labels', 'bond ring flags', 'ring set'][[i for i in range(3) if a[i] != b[i]][0]]
        return f'{part} differ from a fresh object: {str(a[2])[:120]} vs {str(b[2])[:120]}'
    return None


OPTION_VARIANTS = [
    # (name, reference call, variant call, must equal the reference structure)
    ('canonicalize/keep_kekule', lambda m, ft: m.canonicalize(fix_tautomers=ft), lambda m, ft: m.canonicalize(fix_tautomers=ft, keep_kekule=True), True),
    ('canonicalize/logging', lambda m, ft: m.canonicalize(fix_tautomers=ft), lambda m, ft: m.canonicalize(fix_tautomers=ft, logging=True), True),
    ('canonicalize/keep_kekule+logging', lambda m, ft: m.canonicalize(fix_tautomers=ft), lambda m, ft: m.canonicalize(fix_tautomers=ft, keep_kekule=True, logging=True), True),
    ('canonicalize/ignore=False', lambda m, ft: m.canonicalize(fix_tautomers=ft), lambda m, ft: m.canonicalize(fix_tautomers=ft, ignore=False), True),
    ('standardize/logging', lambda m, ft: m.standardize(fix_tautomers=ft), lambda m, ft: m.standardize(fix_tautomers=ft, logging=True), True),
    ('standardize/ignore=False', lambda m, ft: m.standardize(fix_tautomers=ft), lambda m, ft: m.standardize(fix_tautomers=ft, ignore=False), True),
    ('standardize_charges/prepare', lambda m, ft: (m.thiele(), m.standardize_charges(prepare_molecule=False)), lambda m, ft: m.standardize_charges(), True),
    ('standardize_charges/logging', lambda m, ft: m.standardize_charges(), lambda m, ft: m.standardize_charges(logging=True), True),
    ('fix_resonance/logging', lambda m, ft: m.fix_resonance(), lambda m, ft: m.fix_resonance(logging=True), True),
    ('neutralize/logging', lambda m, ft: m.neutralize(), lambda m, ft: m.neutralize(logging=True), True),
    ('neutralize/keep_charge=False', lambda m, ft: m.neutralize(), lambda m, ft: m.neutralize(keep_charge=False), False),
    ('implicify/logging', lambda m, ft: m.implicify_hydrogens(), lambda m, ft: m.implicify_hydrogens(logging=True), True),
    ('explicify/start_map', lambda m, ft: m.explicify_hydrogens(), lambda m, ft: m.explicify_hydrogens(start_map=max(m._atoms) + 7), True),
]
TAUTOMER_VARIANTS = [dict(zwitter=False), dict(partial=True), dict(increase_aromaticity=False), dict(keep_sugars=False),
                     dict(heteroarenes=False), dict(keto_enol=False), dict(prepare_molecules=False)]


def options_oracle(ints, ft, with_tautomers=False):
    """the non-default keyword options of the public operations: the result is a valid structure with the input's composition,
    charge and hydrogens (protons balanced for `neutralize(keep_charge=False)`), coherent caches, and - where the option only
    changes reporting or the drawing (logging, keep_kekule, ignore, prepare, start_map) - the same structure as the default call.
    Returns [(variant, check, detail)]."""
    from chython.exceptions import ImplementationError
    m0, _ = wire.ints_to_mol(ints, calc=True)
    if not is_valid(m0):
        return []
    m0.clean_stereo()
    comp0, q0, h0 = heavy(m0), int(m0), hcount(m0)
    out = []
    for name, ref_call, var_call, same in OPTION_VARIANTS:
        ref, var = m0.copy(), m0.copy()
        try:
            ref_call(ref, ft)
        except Exception:
            continue
        try:
            var_call(var, ft)
        except ImplementationError:
            if 'ignore=False' in name and ref.check_valence():
                continue  # documented: raises when standardization leads to invalid valences
            out.append((name, 'never-fails', 'ImplementationError although the default call leaves no valence error'))
            continue
        except Exception as e:
            out.append((name, 'never-fails', f'{type(e).__name__}: {e}'))
            continue
        if heavy(var) != comp0:
            out.append((name, 'heavy-atoms', f'{dict(comp0)} -> {dict(heavy(var))}'))
            continue
        q1, h1 = int(var), hcount(var)
        if 'keep_charge=False' in name:
            if h1 is None or q1 - q0 != h1 - h0:
                out.append((name, 'proton-balance', f'charge {q0}->{q1}, H {h0}->{h1}'))
        elif (q1, h1) != (q0, h0) and (int(ref), hcount(ref)) == (q0, h0):
            out.append((name, 'net-charge' if q1 != q0 else 'hydrogen-count', f'charge {q0}->{q1}, H {h0}->{h1}'))
        bad = var.check_valence() or inconsistent_atoms(var)
        if bad and not (ref.check_valence() or inconsistent_atoms(ref)):
            out.append((name, 'valence-error', f'{str(var)}: atoms {bad}'))
            continue
        nk = not_kekulizable(var)
        if nk and not not_kekulizable(ref):
            out.append((name, 'valence-error', f'{str(var)} is not a structure: {nk}'))
            continue
        sc = stale_cache(var)
        if sc:
            out.append((name, 'stale-cache', sc))
        if 'keep_kekule' in name and any(int(b) == 4 for _, _, b in var.bonds()) and not any(int(b) == 4 for _, _, b in m0.bonds()):
            pass  # aromatic input is allowed to stay aromatic where kekule() has nothing to restore
        if same and not same_structure(ref, var):
            out.append((name, 'option-equivalence', f'default -> {canon(ref)}, variant -> {canon(var)}'))
    if with_tautomers and len(m0) <= 40:
        for kw in TAUTOMER_VARIANTS:
            name = 'tautomers/' + ','.join(f'{k}={v}' for k, v in kw.items())
            try:
                ts = list(itertools.islice(m0.copy().enumerate_tautomers(limit=10, **kw), 10))
            except Exception as e:
                out.append((name, 'never-fails', f'{type(e).__name__}: {e}'))
                continue
            for t in ts:
                if heavy(t) != comp0 or int(t) != q0 or hcount(t) != h0:
                    out.append((name, 'hydrogen-count' if int(t) == q0 else 'net-charge', f'{str(t)}: charge {q0}->{int(t)}, H {h0}->{hcount(t)}'))
                    break
                nk = t.check_valence() or inconsistent_atoms(t) or not_kekulizable(t)
                if nk:
                    out.append((name, 'valence-error', f'{str(t)}: {nk}'))
                    break
    return out


def dipole_oracle(ints, seed_smiles, rng, k):
    """charge-separated / biradical drawings of one neutral molecule: fix_resonance gives the neutral form back and, like
    standardize and canonicalize, gives the same result for `k` random renumberings (atom numbers and insertion orders)."""
    d, _ = wire.ints_to_mol(ints, calc=True)
    out = []
    ref = molgen.parse(seed_smiles)
    try:
        a = d.copy()
        a.fix_resonance()
        if ref is not None and not same_structure(a, normalised(ref)):
            out.append(('fix_resonance', 'dipole-not-neutralised', f'{str(d)} -> {canon(a)}, neutral form {seed_smiles}'))
    except Exception as e:
        out.append(('fix_resonance', 'never-fails', f'{type(e).__name__}: {e}'))
    for op in ('fix_resonance', 'standardize', 'canonicalize'):
        try:
            a = d.copy()
            apply_op(op, a, False)
            for _ in range(k):
                m2, mapping = molgen.renumber(rng, d)
                apply_op(op, m2, False)
                if not same_structure(a, m2):
                    out.append((op, 'renumbering', f'{canon(a)} vs {canon(m2)} (mapping {mapping})'))
                    break
        except Exception as e:
            out.append((op, 'never-fails', f'{type(e).__name__}: {e}'))
    return out


def twice_oracle(ints, op):
    """idempotence alone (no other clause in front of it): the second call must report nothing and change nothing"""
    m, _ = wire.ints_to_mol(ints, calc=True)
    valid = is_valid(m)
    try:
        apply_op(op, m, True)
        s1, w1 = str(m), wire.mol_to_ints(m)
        apply_op(op, m, True)
    except Exception as e:
        return [('never-fails', f'{type(e).__name__}: {e}')] if valid else []
    if str(m) != s1 or wire.mol_to_ints(m) != w1:
        return [('idempotent', f'{s1} -> {str(m)}')]
    return []


def converted_oracle(ints, tname, idx):
    """every rule applied to its own pattern instantiated as a molecule converts it: after standardize() the pattern does not
    match any more. The documented exception is the abort `bad charge formed` for an atom that already carries +4."""
    m, _ = wire.ints_to_mol(ints, calc=True)
    pat = real_tables()[tname][idx][0]
    if next(pat.get_mapping(m, automorphism_filter=False), None) is None:
        return []
    try:
        log = m.standardize(logging=True, fix_tautomers=True)
    except Exception as e:
        return [('rule-not-converted', f'standardize raised {type(e).__name__}: {e}', False)]
    if next(pat.get_mapping(m, automorphism_filter=False), None) is None:
        return []
    aborted = [match for match, r, text in log if r >= 0 and text.startswith('bad charge')]
    if aborted and all(any(m.atom(n).charge >= 4 for n in match) for match in aborted):
        return []
    s1 = str(m)
    m.standardize(fix_tautomers=True)
    second = next(pat.get_mapping(m, automorphism_filter=False), None) is None and overlap_skip_mechanism(ints, True)
    return [('rule-not-converted', f'{str(pat)} still matches {s1} after standardize()', second)]


def documented_oracle(raw, result):
    from chython import smiles
    try:
        tmp = smiles(raw)
        tmp.standardize()
        ok = tmp == smiles(result)
        return [] if ok else [('documented-spelling', f'{raw} -> {tmp}, documented {result}')]
    except Exception as e:
        return [('documented-spelling', f'{raw}: {type(e).__name__}: {e}')]


def sig(op, check):
    return f'C14/{op}/{check}'


def relational(ctx, pool, programs):
    programs.update(f'MoleculeContainer.{o}' for o in ('standardize', 'canonicalize', 'fix_resonance', 'neutralize', 'explicify_hydrogens',
                                                       'implicify_hydrogens', 'enumerate_tautomers'))
    budget = 70 if ctx.quick else 700
    t0 = time.time()
    for raw, res in documented():
        ctx.count(('documented', raw))
        ctx.dist('R:documented')
        for check, detail in documented_oracle(raw, res):
            ctx.fail(sig('standardize', check), detail, {'kind': 'documented', 'raw': raw, 'result': res})
    # every rule applied to its own pattern instantiated as a molecule (all instances, cheap)
    for lab, mol, _f, _h in pool:
        if not _h or '+' in lab or lab.startswith('corpus'):
            continue
        ints = wire.mol_to_ints(mol)
        ctx.count(('R', 'converted', str(mol), _h))
        ctx.dist('R:rule-converts-own-pattern')
        for check, detail, second in converted_oracle(ints, *_h):
            sg = 'C14/standardize/idempotent/overlap-skip' if second else f'C14/standardize/{check}/{str(real_tables()[_h[0]][_h[1]][0])}'
            ctx.fail(sg, f'{lab} [{str(mol)}]: {detail}', {'kind': 'converted', 'wire': ints, 'table': _h[0], 'index': _h[1], 'smiles': str(mol)})
        for check, detail in accounting_oracle(ints):
            ctx.fail(sig('standardize', check), f'{lab} [{str(mol)}]: {detail}', {'kind': 'accounting', 'wire': ints, 'smiles': str(mol)})
    for a, b in charged_documented():
        if b:
            ctx.count(('documented-charged', a))
            ctx.dist('R:documented-charged')
            for check, detail in charged_documented_oracle(a, b):
                ctx.fail(sig('canonicalize', check), detail, {'kind': 'documented-charged', 'a': a, 'b': b})
    # the all-explicit spelling of a molecule reaches the same canonical form
    hs_budget = time.time() + (15 if ctx.quick else 120)
    for lab, mol, _f, _h in pool:
        if time.time() > hs_budget:
            break
        if len(mol) > 40 or lab.startswith(('xmetal', 'multi', 'mix', 'rand', 'ion', 'overlap')) or 'xmetal' in lab:
            continue
        ints = wire.mol_to_ints(mol)
        ctx.count(('R', 'hydrogen-spelling', str(mol)))
        ctx.dist('R:hydrogen-spelling')
        for check, detail, explained in hydrogen_spelling_oracle(ints):
            sg = 'C14/canonicalize/hydrogen-spelling/rules-before-implicify' if explained else sig('canonicalize', check)
            ctx.fail(sg, f'{lab} [{str(mol)}]: {detail}', {'kind': 'hydrogen-spelling', 'wire': ints, 'smiles': str(mol)})
    # resonance drawings: neutralised, and the same for several renumberings
    dip = [p for p in pool if p[0].startswith('dipole:')]
    if ctx.quick and len(dip) > 36:
        dip = ctx.rng.sample(dip, 36)
    for lab, mol, _f, _h in dip:
        ints = wire.mol_to_ints(mol)
        seed_smi = lab[len('dipole:'):].rsplit('#', 1)[0]
        ctx.count(('R', 'dipole', str(mol)))
        ctx.dist('R:resonance-drawings')
        for op, check, detail in dipole_oracle(ints, seed_smi, ctx.rng, 2 if ctx.quick else 8):
            for sg in (signature(ints, op, check, False) if check == 'renumbering' else [sig(op, check)]):
                ctx.fail(sg, f'{op} on {lab} [{str(mol)}]: {check}: {detail}',
                         {'kind': 'dipole', 'wire': ints, 'seed': seed_smi, 'smiles': str(mol)})
    # competing matches of one rule / of consecutive rules on a shared atom, built from the rule tables (round 5)
    for lab, mol, _h in competition_instances(ctx):
        ctx.dist('R:competing-matches:generated')
        if not is_valid(mol):
            ctx.dist('R:competing-matches:invalid-skipped')
            continue
        ints = wire.mol_to_ints(mol)
        ctx.count(('R', 'compete', str(mol)))
        ctx.dist('R:competing-matches')
        for op, check, detail in competition_oracle(ints, ctx.rng, 3 if ctx.quick else 6):
            for sg in (competition_signature(ints) if check == 'renumbering' else [sig(op, check)]):
                ctx.fail(sg, f'{op} on {lab} [{str(mol)}]: {check}: {detail}',
                         {'kind': 'compete', 'wire': ints, 'smiles': str(mol)})
    # non-default keyword options of the public operations
    op_budget = time.time() + (20 if ctx.quick else 150)
    opt_order = sorted(range(len(pool)), key=lambda i: 0 if pool[i][0].startswith(('azolium:', 'extra:', 'hetpair:', 'ion:', 'hand:')) else 1)
    for j, i in enumerate(opt_order):
        if time.time() > op_budget:
            ctx.notes.append(f'options budget reached after {j} molecules')
            break
        lab, mol, _f, _h = pool[i]
        if len(mol) > 60 or 'xmetal' in lab or lab.startswith(('multi:', 'mix:', 'rand', 'dipole:')):
            continue
        ints = wire.mol_to_ints(mol)
        for ft in (False, True):
            ctx.count(('R', 'options', ft, str(mol)))
            ctx.dist('R:options')
            for name, check, detail in options_oracle(ints, ft, with_tautomers=(ft and j % 4 == 0)):
                base_op = name.split('/')[0]
                sgs = signature(ints, base_op, check, ft) if check in ('hydrogen-count', 'net-charge', 'valence-error', 'idempotent') and base_op in ('standardize', 'canonicalize') else None
                if not sgs or sgs == [sig(base_op, check)]:
                    sgs = [f'C14/{name}/{check}']
                for sg in sgs:
                    ctx.fail(sg, f'{name}(fix_tautomers={ft}) on {lab} [{str(mol)}]: {check}: {detail}',
                             {'kind': 'options', 'wire': ints, 'fix_tautomers': ft, 'variant': name, 'smiles': str(mol)})
    # several ligands on one metal: one call must do all of them
    for lab, mol, _f, _h in pool:
        if not lab.startswith(('multi:', 'mix:')):
            continue
        ints = wire.mol_to_ints(mol)
        ctx.count(('R', 'multi-ligand', str(mol)))
        ctx.dist('R:multi-ligand-metal')
        for op in ('standardize', 'canonicalize'):
            for check, detail in twice_oracle(ints, op):
                for sg in signature(ints, op, check, True):
                    ctx.fail(sg, f'{op} on {lab} [{str(mol)}]: {check}: {detail}',
                             {'kind': 'twice', 'op': op, 'wire': ints, 'smiles': str(mol)})
    budget = 55 if ctx.quick else 480
    t0 = time.time()   # the generic loop has its own budget
    order = list(range(len(pool)))
    ctx.rng.shuffle(order)
    # small purpose-built classes first (the time budget cuts the tail of the shuffled rest, never these)
    first = ('azolium:', 'hetpair:', 'extra:', 'hand:', 'ion:')
    order.sort(key=lambda i: 0 if pool[i][0].startswith(first) else 1)
    done = 0
    for i in order:
        if time.time() - t0 > budget:
            ctx.notes.append(f'relational budget reached after {done} molecules')
            break
        lab, mol, _f, _h = pool[i]
        if len(mol) > 90:
            continue
        if 'xmetal:' in lab or lab.startswith(('multi:', 'mix:')):
            # arbitrary metals / several ligands on one metal: the metal's oxidation state is usually untabulated, so only the
            # idempotence, conversion and ledger clauses (above), cache coherence and the correspondence streams run on them
            ints = wire.mol_to_ints(mol)
            for op in ('standardize', 'canonicalize'):
                try:
                    c = mol.copy()
                    apply_op(op, c, True)
                except Exception:
                    continue
                sc = stale_cache(c)
                ctx.count(('R', 'cache', op, str(mol)))
                if sc:
                    ctx.fail(sig(op, 'stale-cache'), f'{op} on {lab} [{str(mol)}]: {sc}', {'kind': 'cache', 'op': op, 'wire': ints, 'smiles': str(mol)})
            continue
        ints = wire.mol_to_ints(mol)
        corpus = lab.startswith('corpus[') and '+' not in lab
        valid = is_valid(mol)

        for op in OPS:
            if op == 'tautomers' and (len(mol) > 40 or (ctx.quick and done % 2 and not lab.startswith(('extra:', 'hand:')))):
                continue
            fts = [False] + ([True] if corpus and op in ('standardize', 'canonicalize') else [])
            for ft in fts:
                ctx.count(('R', op, ft, str(mol)), nontrivial=mol.bonds_count > 0)
                ctx.dist(f'R:{op}:' + ('valid' if valid else 'invalid-input'))
                for check, detail in oracle(ints, op, ft, ctx.rng):
                    for sg in signature(ints, op, check, ft):
                        ctx.fail(sg, f'{op}(fix_tautomers={ft}) on {lab} [{str(mol)}]: {check}: {detail}',
                                 {'kind': 'relational', 'op': op, 'fix_tautomers': ft, 'wire': ints, 'check': check, 'smiles': str(mol)})
        for check, detail in inverse_oracle(ints):
            ctx.fail(sig('hydrogens', check), f'{lab} [{str(mol)}]: {detail}',
                     {'kind': 'inverse', 'wire': ints, 'check': check, 'smiles': str(mol)})
        done += 1
    ctx.cov['distribution']['R:molecules'] = done


# ------------------------------------------------------------------------------------------------
# search / probe
# ------------------------------------------------------------------------------------------------

def search(ctx):
    """Property-level oracles on the real code, starting from the molecules of the disagreeing cases and the rules the broken
    obligations name, then widening to the whole pool with more renumberings. Never consults the Lean model."""
    pool = _state.get('pool') or molecule_pool(ctx)
    # targeted: every rule with a metal atom, its pattern drawn with a +4 / +3 metal (the abort path of `atom_fix`), and every
    # rule instance again through the ledger and conversion clauses
    tabs = real_tables()
    for tname, recs in _state.get('std', {}).items():
        for idx, rec in enumerate(recs):
            if not any(a['kind'] == 'metal' for _, a in rec['atoms']):
                continue
            for q in (4, 4, 3):
                inst = instantiate(rec, ctx.rng, METALS_ALL, metal_charge=q)
                if inst is None:
                    continue
                try:
                    mol = build(inst[0], inst[1])
                except Exception:
                    continue
                ints = wire.mol_to_ints(mol)
                for check, detail in accounting_oracle(ints):
                    ctx.fail(sig('standardize', check), f'{tname}[{idx}] with a {q:+d} metal [{str(mol)}]: {detail}',
                             {'kind': 'accounting', 'wire': ints, 'smiles': str(mol)})
                for check, detail, second in converted_oracle(ints, tname, idx):
                    if not second:
                        ctx.fail(f'C14/standardize/{check}/{str(tabs[tname][idx][0])}', f'{tname}[{idx}] [{str(mol)}]: {detail}',
                                 {'kind': 'converted', 'wire': ints, 'table': tname, 'index': idx, 'smiles': str(mol)})
    for lab, mol, _f, _h in multi_ligand_instances(ctx, (2, 3, 4), 20):
        ints = wire.mol_to_ints(mol)
        for op in ('standardize', 'canonicalize'):
            for check, detail in twice_oracle(ints, op):
                for sg in signature(ints, op, check, True):
                    ctx.fail(sg, f'{op} on {lab} [{str(mol)}]: {check}: {detail}', {'kind': 'twice', 'op': op, 'wire': ints, 'smiles': str(mol)})
    if ctx.failures:
        return
    bad = {lab for _s, lab in _state.get('disagreeing', [])}
    first = [p for p in pool if any(p[0] in b or b.startswith(p[0]) for b in bad)]
    rest = [p for p in pool if p not in first]
    budget = 60 if ctx.quick else 600
    t0 = time.time()
    for lab, mol, _f, _h in first + rest:
        if time.time() - t0 > budget or len(ctx.failures) >= 8:
            break
        if len(mol) > 90 or 'xmetal:' in lab or lab.startswith(('multi:', 'mix:')):
            continue
        ints = wire.mol_to_ints(mol)
        for op in OPS:
            for ft in (False, True):
                for rep in range(3):
                    for check, detail in oracle(ints, op, ft, ctx.rng, renumber=not ft or lab.startswith('corpus[')):
                        for sg in signature(ints, op, check, ft):
                            ctx.fail(sg, f'{op}(fix_tautomers={ft}) on {lab} [{str(mol)}]: {check}: {detail}',
                                     {'kind': 'relational', 'op': op, 'fix_tautomers': ft, 'wire': ints, 'check': check, 'smiles': str(mol)})
                    if op not in ('standardize', 'canonicalize'):
                        break
                if op not in ('standardize', 'canonicalize'):
                    break
        for check, detail in inverse_oracle(ints):
            ctx.fail(sig('hydrogens', check), f'{lab} [{str(mol)}]: {detail}', {'kind': 'inverse', 'wire': ints, 'check': check, 'smiles': str(mol)})


def api_probe(name, smi):
    """public-API sequences of repaired defects. Returns (fails, what)."""
    from chython import smiles
    try:
        if name == 'copy-explicify-implicify':
            m = smiles(smi).copy()
            ref = str(m)
            m.explicify_hydrogens()
            str(m)
            m.implicify_hydrogens()
            ok = str(m) == ref
            return (not ok), f'{smi}: copy/explicify/implicify gives {str(m)}'
        if name == 'tautomers':
            m = smiles(smi)
            ts = [str(t) for t in itertools.islice(m.enumerate_tautomers(limit=20), 20)]
            return False, f'{smi}: {len(ts)} tautomers enumerated'
        if name == 'tautomers-valid':
            m = smiles(smi)
            bad = [str(t) for t in itertools.islice(m.enumerate_tautomers(limit=40), 40) if t.check_valence() or inconsistent_atoms(t)]
            return bool(bad), f'{smi}: valence-invalid tautomers {bad}' if bad else f'{smi}: every enumerated tautomer is valence-valid'
    except Exception as e:
        return True, f'{smi}: {name} raised {type(e).__name__}: {e}'
    raise ValueError(name)


def probe(inp):
    import random
    kind = inp.get('kind')
    if kind == 'api':
        return api_probe(inp['name'], inp['smiles'])
    if kind == 'documented':
        f = documented_oracle(inp['raw'], inp['result'])
        return bool(f), f[0][1] if f else f'{inp["raw"]} standardizes to the documented {inp["result"]}'
    if kind == 'documented-charged':
        f = charged_documented_oracle(inp['a'], inp['b'])
        return bool(f), f[0][1] if f else f'{inp["a"]} and {inp["b"]} reach the same canonical form'
    if kind in ('hydrogen-spelling', 'hydrogen-spelling-smiles'):
        if kind == 'hydrogen-spelling-smiles':
            from chython import smiles
            ints = wire.mol_to_ints(normalised(smiles(inp['smiles'])))
        else:
            ints = inp['wire']
        f = hydrogen_spelling_oracle(ints)
        return bool(f), f'{inp.get("smiles")}: ' + (f[0][1] if f else 'explicit and implicit spelling reach the same canonical form')
    if kind == 'cache':
        m, _ = wire.ints_to_mol(inp['wire'], calc=True)
        apply_op(inp['op'], m, True)
        sc = stale_cache(m)
        return bool(sc), f'{inp["op"]} on {inp.get("smiles")}: ' + (sc or 'caches describe the result')
    if kind == 'dipole':
        import random as _r
        f = dipole_oracle(inp['wire'], inp['seed'], _r.Random(0), 8)
        return bool(f), f'{inp.get("smiles")}: ' + (f'{f[0][0]}: {f[0][1]}: {f[0][2]}' if f else 'neutralised, numbering independent')
    if kind == 'options':
        f = [x for x in options_oracle(inp['wire'], inp['fix_tautomers'], True) if x[0] == inp.get('variant', x[0])]
        return bool(f), f'{inp.get("smiles")}: ' + (f'{f[0][0]}: {f[0][1]}: {f[0][2]}' if f else 'option variants agree with the default call')
    if kind in ('compete', 'compete-smiles'):
        import random as _r
        if kind == 'compete-smiles':
            from chython import smiles
            ints = wire.mol_to_ints(smiles(inp['smiles']))
        else:
            ints = inp['wire']
        if 'std' not in _state:
            _state.update(zip(('std', 'chg', 'pats'), gen_rules.tables()))
        f = [x for x in competition_oracle(ints, _r.Random(0), 8) if x[1] == 'renumbering']
        return bool(f), f'{inp.get("smiles")}: ' + (f'{f[0][0]}: {f[0][2]}' if f else 'numbering independent')
    if kind == 'twice':
        f = twice_oracle(inp['wire'], inp['op'])
        return bool(f), f'{inp["op"]} twice on {inp.get("smiles")}: ' + (f[0][1] if f else 'second call changes nothing')
    if kind == 'accounting':
        f = accounting_oracle(inp['wire'])
        return bool(f), f[0][1] if f else f'{inp.get("smiles")}: the log accounts for the charge change'
    if kind == 'converted':
        f = converted_oracle(inp['wire'], inp['table'], inp['index'])
        return bool(f), f[0][1] if f else f'{inp.get("smiles")}: the rule converts its own pattern'
    if kind == 'inverse':
        f = [x for x in inverse_oracle(inp['wire']) if x[0] == inp.get('check', x[0])]
        return bool(f), f[0][1] if f else 'explicify/implicify are inverse on this input'
    if kind in ('relational', 'relational-smiles'):
        if kind == 'relational-smiles':
            from chython import smiles
            ints = wire.mol_to_ints(smiles(inp['smiles']))
        else:
            ints = inp['wire']
        for seed in range(8):
            f = [x for x in oracle(ints, inp['op'], inp['fix_tautomers'], random.Random(seed)) if x[0] == inp.get('check', x[0])]
            if f:
                return True, f'{inp["op"]} on {inp.get("smiles")}: {f[0][0]}: {f[0][1]}'
        return False, f'{inp["op"]} on {inp.get("smiles")}: all clauses hold'
    raise ValueError(f'unknown probe kind {kind}')
