"""Worker for C19: run in a FRESH interpreter with a given PYTHONHASHSEED; prints one JSON line per input molecule."""
import json
import sys


def compute(m, queries):
    out = {}
    out['canon'] = str(m)
    out['order'] = sorted(m.atoms_order.items())
    out['smiles_order'] = list(m.smiles_atoms_order)
    out['sssr'] = [list(r) for r in m.sssr]
    out['components'] = [sorted(c) for c in m.connected_components]
    out['lin_hash'] = sorted(m.linear_hash_set())
    out['lin_bits'] = sorted(m.linear_bit_set())
    out['morgan_hash'] = sorted(m.morgan_hash_set())
    out['morgan_bits'] = sorted(m.morgan_bit_set())
    out['matches'] = [[sorted(d.items()) for d in q.get_mapping(m, automorphism_filter=False)][:200] for q in queries]
    try:
        out['pack'] = m.pack(compressed=False).hex()
    except Exception as e:  # format limits
        out['pack'] = 'error:' + type(e).__name__
    return out


def main():
    from harness.gen import pyx2py
    pyx2py.install()
    from chython import smiles, smarts
    spec = json.load(open(sys.argv[1]))
    queries = [smarts(q) for q in spec['queries']]
    for s in spec['smiles']:
        rec = {'smiles': s}
        try:
            m = smiles(s)
            first = compute(m, queries)          # uncached
            second = compute(m, queries)         # cached
            cp = compute(m.copy(), queries)      # copy
            rec['out'] = first
            rec['cached_differs'] = [k for k in first if first[k] != second[k]]
            rec['copy_differs'] = [k for k in first if first[k] != cp[k]]
            c = m.copy()
            c.canonicalize()
            rec['out']['standardized'] = str(c)
            c2 = smiles(s)
            c2.canonicalize()
            if str(c2) != rec['out']['standardized']:
                rec['copy_differs'].append('standardized')
        except Exception as e:
            rec['error'] = type(e).__name__ + ': ' + str(e)[:100]
        print(json.dumps(rec))


if __name__ == '__main__':
    main()
