"""Worker for C19: run in a FRESH interpreter with a given PYTHONHASHSEED; prints one JSON line per input molecule.

Per molecule:
  out            every listed output, evaluated in a fixed order on a freshly parsed object (compared ACROSS seeds by the parent)
  cached_differs outputs whose value depends on evaluation history inside this process:
                   k:first   k evaluated first on a fresh object differs from k evaluated after the others
                   k:perm    random evaluation order (seeded) differs
                   k:again   second (cached) evaluation on the same object differs
  copy_differs   outputs that differ between an object and its copy: plain, and after each public operation
                   (canonicalize / standardize / kekule+thiele / explicify+implicify / neutralize) applied to an object whose
                   caches were primed first — `op:k`
The history / copy variations are seed independent, so they run only when spec['variations'] is true (first worker).
"""
import json
import random
import sys


def observables(queries):
    def matches(m):
        return [[sorted(d.items()) for d in q.get_mapping(m, automorphism_filter=False)][:200] for q in queries]

    def pack(m):
        try:
            return m.pack(compressed=False).hex()
        except Exception as e:  # format limits
            return 'error:' + type(e).__name__

    return {
        'canon': lambda m: str(m),
        'order': lambda m: sorted(m.atoms_order.items()),
        'smiles_order': lambda m: list(m.smiles_atoms_order),
        'sssr': lambda m: [list(r) for r in m.sssr],
        'ring_marks': lambda m: [(n, a.in_ring, sorted(a.ring_sizes)) for n, a in m.atoms()],
        'components': lambda m: [sorted(c) for c in m.connected_components],
        'lin_hash': lambda m: sorted(m.linear_hash_set()),
        'lin_bits': lambda m: sorted(m.linear_bit_set()),
        'lin_hash_3_4': lambda m: sorted(m.linear_hash_set(3, 4)),
        'lin_hash_2_6_pairs0': lambda m: sorted(m.linear_hash_set(2, 6, 0)),
        'morgan_hash_2_3': lambda m: sorted(m.morgan_hash_set(2, 3)),
        'lin_bits_4096_3': lambda m: sorted(m.linear_bit_set(1, 4, 4096, 3)),
        'morgan_hash': lambda m: sorted(m.morgan_hash_set()),
        'morgan_bits': lambda m: sorted(m.morgan_bit_set()),
        'lin_hash_smiles': lambda m: sorted(m.linear_hash_smiles().items()),    # lists as returned: order matters
        'morgan_hash_smiles': lambda m: sorted(m.morgan_hash_smiles().items()),
        'matches': matches,
        'pack': pack,
        'pack_z': lambda m: _guard(lambda: m.pack().hex()),
        'bytes': lambda m: _guard(lambda: bytes(m).hex()),
        'hash_eq': lambda m: [n for n, a in m.atoms() if a.stereo is not None] + [sorted((n, k)) for n, k, b in m.bonds() if b.stereo is not None],
    }


def _guard(f):
    try:
        return f()
    except Exception as e:  # format limits
        return 'error:' + type(e).__name__


def evaluate(m, obs, order=None):
    out = {}
    for k in (order or list(obs)):
        try:
            out[k] = obs[k](m)
        except Exception as e:
            out[k] = 'raised:' + type(e).__name__
    return out


def _scoped_search(m, obs, queries):
    atoms = list(m)
    scope = set(atoms[:max(1, len(atoms) // 2)])
    for q in queries:
        list(q.get_mapping(m, searching_scope=scope, automorphism_filter=False))
    list(m.get_mapping(m, searching_scope=scope))


def _failed_txn(edit):
    def run(m, obs, queries):
        try:
            with m:
                edit(m)
                evaluate(m, obs)  # derived values are read INSIDE the block that is going to fail
                raise RuntimeError('abort')
        except RuntimeError:
            pass
    return run


def _del_first_bond(m):
    n, k, _ = next(m.bonds())
    m.delete_bond(n, k)


def _add_ring_bond(m):
    atoms = list(m)
    for a in atoms:
        for b in atoms:
            if a < b and not m.has_bond(a, b) and len(m._bonds[a]) < 3 and len(m._bonds[b]) < 3:
                m.add_bond(a, b, 1)
                return
    raise RuntimeError('abort')


def _add_atom(m):
    n = m.add_atom('O')
    m.add_bond(n, next(iter(m)), 1)


OPS = {
    'canonicalize': lambda m, o, q: m.canonicalize(),
    'standardize': lambda m, o, q: m.standardize(),
    'kekule_thiele': lambda m, o, q: (m.kekule(), m.thiele()),
    'explicify_implicify': lambda m, o, q: (m.explicify_hydrogens(), m.implicify_hydrogens()),
    'neutralize': lambda m, o, q: m.neutralize(),
    'standardize_charges': lambda m, o, q: m.standardize_charges(),
    'fix_resonance': lambda m, o, q: m.fix_resonance(),
    'check_thiele': lambda m, o, q: m.thiele(),
    'fix_stereo': lambda m, o, q: m.fix_stereo(),
    'scoped_search': _scoped_search,
    'failed_txn_delete_bond': _failed_txn(_del_first_bond),
    'failed_txn_add_bond': _failed_txn(_add_ring_bond),
    'failed_txn_add_atom': _failed_txn(_add_atom),
}


# ------------------------------------------------------------------------------------------------
# read - perturb - read histories.  Every observed value is a function of some inputs of the molecule: the structure
# (strings, orders, rings, fingerprints, matches), atom attributes, and for pack bytes also the 2D coordinates.  Each
# perturbation below goes through a PUBLIC way of changing one of those inputs (plain setters where the documentation
# allows them, `with mol:` where it asks for it, the editing API, layout helpers).  The history is
#     read everything, perturb, read everything, perturb, read everything, ...
# on ONE object, and after every perturbation the values read from the object must equal the values read from a fresh
# copy of it; the end state must equal an object that went through the same perturbations without any read in between
# (nothing cached), and that value is also compared across processes / hash seeds by the parent.
# ------------------------------------------------------------------------------------------------

def _first(m):
    return next(iter(m))


def _p_move_x(m):
    a = m.atom(_first(m))
    a.x = a.x + 1.25


def _p_move_y(m):
    a = m.atom(max(m))
    a.y = a.y - .5


def _p_set_xy(m):
    for i, (n, a) in enumerate(m.atoms()):
        a.xy = (i * .825, (i % 2) * .5)


def _p_clean2d(m):
    # clean2d() draws its start order from the global `random` module (documented random layout): the same stream for every history
    random.seed(20240519)
    m.clean2d()


def _p_fix_positions(m):
    from chython import ReactionContainer
    ReactionContainer([m], [m.copy()]).fix_positions()


def _p_name(m):
    m.name = 'renamed'


def _p_meta(m):
    m.meta['perturbed'] = 'yes'


def _p_isotope(m):
    with m:
        a = m.atom(_first(m))
        a.isotope = max(a.isotopes_distribution)


def _p_charge(m):
    with m:
        n = next((n for n, a in m.atoms() if a.atomic_symbol in ('N', 'O', 'P', 'S') and a.charge == 0), _first(m))
        a = m.atom(n)
        a.charge = a.charge + 1


def _p_radical(m):
    with m:
        a = m.atom(max(m))
        a.is_radical = not a.is_radical


def _p_cis_trans_2d(m):
    m.calculate_cis_trans_from_2d()


def _p_add_wedge(m):
    n = next(iter(m.stereogenic_tetrahedrons))
    m.add_wedge(n, next(iter(m._bonds[n])), 1)


def _p_clean_stereo(m):
    m.clean_stereo()


def _p_delete_atom(m):
    m.delete_atom(max(m))


def _p_remap(m):
    m.remap({n: n + 100 for n in m})


PERTURB = [('move_x', _p_move_x), ('move_y', _p_move_y), ('set_xy', _p_set_xy), ('clean2d', _p_clean2d),
           ('reaction_fix_positions', _p_fix_positions), ('cis_trans_from_2d', _p_cis_trans_2d), ('add_wedge', _p_add_wedge),
           ('name', _p_name), ('meta', _p_meta),
           ('txn_isotope', _p_isotope), ('txn_charge', _p_charge), ('txn_radical', _p_radical),
           ('clean_stereo', _p_clean_stereo), ('add_atom', _add_atom), ('add_ring_bond', _add_ring_bond), ('delete_bond', _del_first_bond),
           ('delete_atom', _p_delete_atom), ('remap', _p_remap), ('move_x_again', _p_move_x)]


def perturbed_unread(s, smiles):
    """the molecule after every perturbation that applies, with no read in between; and which ones applied"""
    m = smiles(s)
    applied = []
    for name, p in PERTURB:
        try:
            p(m)
            applied.append(name)
        except Exception:
            pass
    return m, applied


def perturbed_history(s, smiles, obs, keys, rec):
    """read - perturb - read on one object, against a fresh copy after every step"""
    m = smiles(s)
    evaluate(m, obs)
    applied = []
    a = None
    for name, p in PERTURB:
        try:
            p(m)
        except Exception:
            continue
        applied.append(name)
        a = evaluate(m, obs)
        b = evaluate(m.copy(), obs)
        rec['copy_differs'] += [f'after-{name}:{k}' for k in keys if a[k] != b[k]]
    if a is not None:   # first read after the last perturbation vs a later read
        again = evaluate(m, obs)
        rec['cached_differs'] += [f'{k}:again-after-perturbations' for k in keys if again[k] != a[k]]
    return a, applied


def main():
    from harness.gen import pyx2py
    pyx2py.install()
    from chython import smiles, smarts
    spec = json.load(open(sys.argv[1]))
    queries = [smarts(q) for q in spec['queries']]
    if spec.get('set_programs_file'):
        # histories of set/dict operations on REAL containers of this interpreter (this PYTHONHASHSEED): digest per program
        import hashlib
        from harness.props import c19_sets
        progs = json.load(open(spec['set_programs_file']))
        print(json.dumps({'set_digests': [hashlib.sha256(' | '.join(c19_sets.execute([tuple(op) for op in p])).encode()).hexdigest()[:20]
                                          for p in progs]}))
    obs = observables(queries)
    keys = list(obs)
    vmod = spec.get('variation_mod') or [1, 0]
    for i, s in enumerate(spec['smiles']):
        rec = {'smiles': s}
        hist = ([], [])
        # history / copy variations are independent of the hash seed: each worker runs them for its share of the molecules
        variations = bool(spec.get('variations')) and i % vmod[0] == vmod[1]
        try:
            base = evaluate(smiles(s), obs)
            rec['out'] = base
            rec['cached_differs'], rec['copy_differs'] = [], []
            c = smiles(s)
            c.canonicalize()
            rec['out']['standardized'] = str(c)
            perturb = spec.get('perturb_mod') and i % spec['perturb_mod'][0] == spec['perturb_mod'][1]
            if perturb:
                m2, applied2 = perturbed_unread(s, smiles)
                final = evaluate(m2, obs)
                rec['out']['perturbations_applied'] = applied2
                for k in keys:
                    rec['out']['perturbed:' + k] = final[k]
                if variations:
                    rec['cached_differs'], rec['copy_differs'] = [], []
                    a, applied = perturbed_history(s, smiles, obs, keys, rec)
                    if applied != applied2:
                        rec['cached_differs'].append('perturbations_applied:read-between-perturbations-changes-which-edits-are-accepted')
                    elif a is not None:
                        rec['cached_differs'] += [f'{k}:after-perturbations-read-between-vs-never-read' for k in keys if a[k] != final[k]]
                    hist = (rec['cached_differs'], rec['copy_differs'])
            if variations:
                rec['cached_differs'], rec['copy_differs'] = list(hist[0]), list(hist[1])
                rng = random.Random(spec.get('rng', 0) ^ hash(len(s)))
                for k in keys:  # k first on a fresh object
                    v = evaluate(smiles(s), obs, [k])[k]
                    if v != base[k]:
                        rec['cached_differs'].append(k + ':first')
                perm = keys[:]
                rng.shuffle(perm)
                m = smiles(s)
                pv = evaluate(m, obs, perm)
                rec['cached_differs'] += [k + ':perm' for k in keys if pv[k] != base[k]]
                rv = evaluate(smiles(s), obs, keys[::-1])
                rec['cached_differs'] += [k + ':reversed' for k in keys if rv[k] != base[k]]
                again = evaluate(m, obs)
                rec['cached_differs'] += [k + ':again' for k in keys if again[k] != base[k]]
                cp = evaluate(m.copy(), obs)
                rec['copy_differs'] += ['plain:' + k for k in keys if cp[k] != base[k]]
                if not (m == m.copy()) or hash(m) != hash(m.copy()):
                    rec['copy_differs'].append('plain:eq_hash')
                for name, op in OPS.items():
                    m = smiles(s)
                    evaluate(m, obs, perm)  # prime every cache
                    try:
                        op(m, obs, queries)
                    except Exception as e:
                        continue  # the operation rejecting this molecule is not C19's concern
                    a = evaluate(m, obs)
                    b = evaluate(m.copy(), obs)
                    rec['copy_differs'] += [f'{name}:{k}' for k in keys if a[k] != b[k]]
                    if name.startswith(('failed_txn', 'scoped')):  # these must leave the molecule as it was
                        rec['copy_differs'] += [f'{name}-vs-fresh:{k}' for k in keys if a[k] != base[k]]
                    if not (m == m.copy()):
                        rec['copy_differs'].append(f'{name}:eq_hash')
                    # the RESULT of an operation must not depend on what was cached before it was called
                    m2 = smiles(s)
                    try:
                        op(m2, obs, queries)
                        c = evaluate(m2, obs)
                        rec['cached_differs'] += [f'{k}:result-of-{name}-on-primed-vs-unprimed-object' for k in keys if a[k] != c[k]]
                    except Exception:
                        pass
        except Exception as e:
            rec['error'] = type(e).__name__ + ': ' + str(e)[:100]
        print(json.dumps(rec))


if __name__ == '__main__':
    main()
