"""C17 — fingerprints are structure functions with the documented fragment semantics (proof).

Tie (K): exact equality, real chython vs the executable Lean model `Model/Fingerprint.lean` (driver `drv_c17`), of
`_atom_identifiers`, `_chains`, `_fragments`, `linear_hash_set`, `linear_bit_set`, `linear_fingerprint`,
`_morgan_hash_dict`, `morgan_hash_set`, `morgan_bit_set`, `morgan_fingerprint` on molecules x renumberings x parameter
grid, plus the folding code on arbitrary Python ints (negative, > 2^61) through a stub hash set, plus CPython `hash(tuple)`.
Relational (real vs real): hash sets / bit sets / fragment-key multisets equal across renumberings.
Search: an independent recursive simple-path enumerator and a neighbourhood hasher written from the documentation.
"""
import itertools
import json

from .. import molgen, wire
from ..core import run_driver

LEVEL = 'proof'
LEVEL_TEXT = ('The clauses of the property (path enumeration exact, one entry per undirected path, multiplicity cap, '
              'independence of numbering and insertion order for every hash function, bit indices below the length, '
              'active-bits formula, index-count bounds, independence of the iteration order of the intermediate sets, locality '
              'of the Morgan identifiers in the r-ball) are universally quantified Lean theorems about the executable model; '
              'parameter forwarding between the entry points is a theorem over a call-graph table regenerated from the AST on '
              'every run (every argument is the caller\'s same-named unmodified parameter, nothing shared is left to a callee '
              'default, every parameter reaches the layer that reads it) and is exercised at run time by calling every entry '
              'point with every parameter non-default, positionally and by keyword; the model is '
              'tied to today\'s source by exact output equality (as CPython integers) on generated molecules x renumberings '
              'x the parameter grid. Proof is the right level because the algorithms are pure functions of the graph.')
LEVEL_NOTE = ('Lean kernel; hand-written model validated by correspondence, not derived from the Python text; the model '
              'of CPython hash() (Py/Hash.lean) is validated on every hash the run produces; theorems about hash sets hold '
              'for every hash function. int(math.log2(length)) goes through a C double: the model takes the lengths at which the '
              'float logarithm rounds up from a table measured on every run (first at 2^49-1; below that it is proved to be '
              'Nat.log2), exact for lengths < 2^64. Graph well-formedness (Mol.WF: symmetric adjacency over the atom keys) is a '
              'hypothesis where stated — it is the Graph class invariant.')
TECHNIQUE = ('Lean 4 theorems over an executable model and over regenerated AST tables (memoisation, defaults, call graph) '
             '+ exact differential correspondence with the implementation')
HAS_DRIVER = True
EXTRA_MODULES = []
FINDINGS_MODULE = None   # the one defect found (linear_hash_smiles) was repaired; no standing ¬full witness
RULE = ('case = (entry point, parameters, molecule in a concrete numbering/insertion order); molecules from the repo corpus, '
        'hand-made set, exhaustive small graphs with random decoration, ring assemblies, each also renumbered; parameters '
        'from the grid radii 1..6 x length 2^k x active bits 1..4 x bit pairs 0..5 plus an out-of-grid stream (0/negative/'
        'non-power-of-two). Non-trivial = molecule has at least one bond (so that paths/neighbourhoods exist) or the case '
        'exercises an error branch; distinct by (op, params, wire form of the molecule).')
TRUSTED = ['hand transcription Model/Fingerprint.lean (validated by this correspondence)',
           'Py/Hash.lean model of CPython 3.12 int/tuple hash (validated on every hash compared)',
           'wire format harness/wire.py <-> Model/Graph.lean']
ASSUMPTIONS = ['the semantic theorems assume the Graph invariant Mol.WF (symmetric adjacency dict over the atom keys); on other '
               'graphs the model raises KeyError like the code does (compared on a malformed-graph stream)',
               'length is an int below 2^64; math.log2 is monotone between the probed points of the measured round-up table '
               '(Gen.C17.log2RoundsUpFrom); beyond 2^64 the model falls back to Nat.log2 and is not compared',
               'FingerprintsCGR._atom_identifiers (CGR containers) is outside the model',
               'linear_hash_smiles/linear_smiles_hash/morgan_hash_smiles/morgan_smiles_hash (SMILES rendering of fragments) '
               'are outside the model; their hash keys / hash values are compared with linear_hash_set/morgan_hash_set of the model '
               'for every parameter (forwarding stream), their argument forwarding is in the regenerated call-graph table']
SEARCH_ALWAYS_IN_THOROUGH = True

LINEAR_OPS = ('chains', 'frags', 'lhs', 'lbs', 'lfp')
NPARAMS = {'ident': 0, 'chains': 2, 'frags': 2, 'lhs': 3, 'lbs': 5, 'lfp': 5, 'mdict': 2, 'mhs': 2, 'mbs': 4, 'mfp': 4}
ENTRY = {'ident': '_atom_identifiers', 'chains': '_chains', 'frags': '_fragments', 'lhs': 'linear_hash_set',
         'lbs': 'linear_bit_set', 'lfp': 'linear_fingerprint', 'mdict': '_morgan_hash_dict', 'mhs': 'morgan_hash_set',
         'mbs': 'morgan_bit_set', 'mfp': 'morgan_fingerprint', 'lhsm': 'linear_hash_smiles', 'mhsm': 'morgan_hash_smiles',
         'fold': 'linear_bit_set/morgan_bit_set folding',
         'hash': 'hash(tuple)'}


_state = {}


def generate(ctx):
    from ..gen import gen_c17
    path, methods, keep, defaults = gen_c17.generate()
    _state.update(methods=methods, keep=keep, defaults=dict(defaults), log2=gen_c17.measure_log2())
    return [path]


# ------------------------------------------------------------------------------------------------
# the real code, canonicalised
# ------------------------------------------------------------------------------------------------

def _err(e):
    if isinstance(e, (KeyError, ValueError, AssertionError)) and type(e) in (KeyError, ValueError, AssertionError):
        return 'err:' + type(e).__name__
    return 'crash:' + type(e).__name__


def real_eval(op, params, mol):
    """Canonical observable of one entry point on the real code."""
    try:
        if op == 'ident':
            return ('ok', sorted(mol._atom_identifiers.items()))
        if op == 'chains':
            return ('ok', sorted(tuple(p) for p in mol._chains(*params)))
        if op == 'frags':
            return ('ok', sorted((tuple(k), _frag_list(tuple(k), v)) for k, v in mol._fragments(*params).items()))
        if op == 'lhs':
            return ('ok', sorted(mol.linear_hash_set(*params)))
        if op == 'lbs':
            lo, hi, length, nab, nbp = params
            return ('ok', sorted(mol.linear_bit_set(lo, hi, length, nab, nbp)))
        if op == 'lfp':
            lo, hi, length, nab, nbp = params
            fp = mol.linear_fingerprint(lo, hi, length, nab, nbp)
            if len(fp) != length or any(int(x) not in (0, 1) for x in fp):
                return ('shape', len(fp))
            return ('ok', [i for i, x in enumerate(fp) if x])
        if op == 'lhsm':
            return ('ok', sorted((k, sorted(v)) for k, v in mol.linear_hash_smiles(*params).items()))
        if op == 'mhsm':
            return ('ok', sorted((k, sorted(v)) for k, v in mol.morgan_hash_smiles(*params).items()))
        if op == 'mdict':
            return ('ok', [sorted(d.items()) for d in mol._morgan_hash_dict(*params)])
        if op == 'mhs':
            return ('ok', sorted(mol.morgan_hash_set(*params)))
        if op == 'mbs':
            return ('ok', sorted(mol.morgan_bit_set(*params)))
        if op == 'mfp':
            fp = mol.morgan_fingerprint(*params)
            if len(fp) != params[2] or any(int(x) not in (0, 1) for x in fp):
                return ('shape', len(fp))
            return ('ok', [i for i, x in enumerate(fp) if x])
    except Exception as e:  # noqa
        return (_err(e), None)
    raise ValueError(op)


def _frag_list(key, paths):
    """canonical form of the list stored under a fragment key: a set of paths; under a palindromic key the direction
    of an entry is not determined by the property (both directions spell the key), so it is normalised"""
    if key == key[::-1]:
        return sorted(min(tuple(p), tuple(p)[::-1]) for p in paths)
    return sorted(tuple(p) for p in paths)


def real_fold(length, nab, hashes, which):
    """Run the real folding loop of linear_bit_set / morgan_bit_set on an arbitrary set of Python ints."""
    from chython.algorithms.fingerprints.linear import LinearFingerprint
    from chython.algorithms.fingerprints.morgan import MorganFingerprint

    class L(LinearFingerprint):
        def linear_hash_set(self, *a, **k):
            return set(hashes)

    class M(MorganFingerprint):
        def morgan_hash_set(self, *a, **k):
            return set(hashes)
    try:
        if which == 'linear':
            return ('ok', sorted(L().linear_bit_set(1, 4, length, nab, 4)))
        return ('ok', sorted(M().morgan_bit_set(1, 4, length, nab)))
    except Exception as e:  # noqa
        return (_err(e), None)


def model_line(op, params, mol_line):
    mop = {'lfp': 'lbs', 'mfp': 'mbs'}.get(op, op)
    return ' '.join([mop] + [str(p) for p in params] + [mol_line])


def parse_model(op, resp):
    """Model response line -> same canonical structure as real_eval."""
    if not resp.startswith('ok'):
        return (resp, None)
    body = resp[2:].strip()
    toks = body.split() if body else []
    if op in ('ident',):
        return ('ok', sorted((int(a), int(b)) for a, b in (t.split(':') for t in toks)))
    if op == 'chains':
        return ('ok', sorted(tuple(int(x) for x in t.split('-')) for t in toks))
    if op == 'frags':
        out = []
        for ent in (body.split('|') if body else []):
            k, ps = ent.split('=')
            key = tuple(int(x) for x in k.split(','))
            out.append((key, _frag_list(key, [tuple(int(x) for x in p.split('-')) for p in ps.split(';')])))
        return ('ok', sorted(out))
    if op == 'mdict':
        return ('ok', [sorted((int(a), int(b)) for a, b in (t.split(':') for t in d.split()))
                       for d in body.split('/')[1:]])
    return ('ok', sorted(int(t) for t in toks))


# ------------------------------------------------------------------------------------------------
# generators
# ------------------------------------------------------------------------------------------------

RADII = [(lo, hi) for lo in range(1, 7) for hi in range(lo, 7)]
LENGTHS = [1 << k for k in range(0, 17)]
ODD_RADII = [(0, 1), (0, 3), (2, 1), (3, 2), (-1, 2), (1, 0), (0, 0), (5, 1), (2, 2), (7, 7), (1, 8)]
ODD_LENGTHS = [0, -8, 3, 1000, 1023, 1025, 12, 100]
ODD_NAB = [0, -1, 5, 7]
ODD_NBP = [-1, -3, 6, 50]


def _n_paths_ok(mol, hi):
    # keep the enumerations small: rough bound on the number of simple paths
    n = len(mol._atoms)
    d = max((len(v) for v in mol._bonds.values()), default=0)
    return n * max(d - 1, 1) ** max(hi - 1, 0) <= 60000


def molecules(ctx):
    """(name, mol) stream: hand-made, corpus sample, test files, exhaustive small graphs decorated, ring assemblies."""
    rng = ctx.rng
    out = list(molgen.handmade())
    out += molgen.corpus(rng, 200 if ctx.quick else 800)
    tf = molgen.test_files()
    rng.shuffle(tf)
    out += tf[:20 if ctx.quick else 300]
    # exhaustive connected labelled graphs on <= 4 (quick) / 5 (thorough) vertices, each decorated once
    for n in range(1, 5 if ctx.quick else 6):
        graphs = [()] if n == 1 else list(molgen.small_graphs(n))
        if n == 5 and len(graphs) > 300:
            graphs = rng.sample(graphs, 300)
        for edges in graphs:
            try:
                m = molgen.from_edges(list(edges), *(_decor(rng, edges, n)), n_atoms=n, calc=False)
                m.calc_labels()
            except Exception:
                continue
            out.append((f'graph{n}{list(edges)}', m))
    for i in range(30 if ctx.quick else 300):
        edges = molgen.ring_assembly(rng)
        try:
            m = molgen.from_edges(edges, *(_decor(rng, edges, None)), calc=False)
            m.calc_labels()
        except Exception:
            continue
        out.append((f'rings#{i}', m))
    return out


def _decor(rng, edges, n):
    verts = sorted({v for e in edges for v in e}) if n is None else list(range(1, n + 1))
    elements = {v: (rng.choice(['N', 'O', 'S', 'P', 'F', 'Cl', 'B', 'Si']) if rng.random() < 0.3 else 'C') for v in verts}
    orders = {e: (rng.choice([2, 3, 4, 8]) if rng.random() < 0.3 else 1) for e in edges}
    charges = {v: (rng.choice([-1, 1, 2]) if rng.random() < 0.15 else 0) for v in verts}
    return elements, orders, charges


def decorate_atoms(rng, mol):
    """isotopes / radicals on a copy, so that every field of the identifier tuple varies"""
    m = mol.copy()
    for n, a in m._atoms.items():
        r = rng.random()
        try:
            if r < 0.1:
                a._isotope = sorted(a.isotopes_distribution)[0]
            elif r < 0.2:
                a._is_radical = True
        except Exception:
            pass
    return m


def param_cases(ctx, mol, k):
    """k parameter tuples from the grid for every op + occasionally from the out-of-grid stream"""
    rng = ctx.rng
    cases = []
    for _ in range(k):
        lo, hi = rng.choice(RADII)
        while not _n_paths_ok(mol, hi):
            hi -= 1
            lo = min(lo, hi)
        length = rng.choice(LENGTHS)
        nab = rng.randint(1, 4)
        nbp = rng.randint(0, 5)
        odd = rng.random() < 0.15
        if odd:
            w = rng.randrange(4)
            if w == 0:
                lo, hi = rng.choice(ODD_RADII)
                if not _n_paths_ok(mol, max(hi, 2)):
                    lo, hi = 2, 1
            elif w == 1:
                length = rng.choice(ODD_LENGTHS)
            elif w == 2:
                nab = rng.choice(ODD_NAB)
            else:
                nbp = rng.choice(ODD_NBP)
        cases.append((lo, hi, length, nab, nbp, odd))
    return cases


def requests_for(ctx, name, mol, k, ops=None):
    line = wire.mol_to_line(mol)
    reqs = [('ident', (), name, mol, line, False)]
    for lo, hi, length, nab, nbp, odd in param_cases(ctx, mol, k):
        for op, params in (('chains', (lo, hi)), ('frags', (lo, hi)), ('lhs', (lo, hi, nbp)),
                           ('lbs', (lo, hi, length, nab, nbp)), ('mdict', (lo, hi)), ('mhs', (lo, hi)),
                           ('mbs', (lo, hi, length, nab))):
            if ops and op not in ops:
                continue
            reqs.append((op, params, name, mol, line, odd))
        if 0 < length <= 4096 and ctx.rng.random() < 0.3:
            reqs.append(('lfp', (lo, hi, length, nab, nbp), name, mol, line, odd))
            reqs.append(('mfp', (lo, hi, length, nab), name, mol, line, odd))
    return reqs


def fold_requests(ctx):
    """The folding code on arbitrary ints: exhaustive small window around 0 and the powers of two, random 64-bit values."""
    rng = ctx.rng
    reqs = []
    edge = sorted({s * (2 ** k + d) for k in (0, 1, 2, 3, 7, 8, 10, 16, 31, 32, 60, 61, 62, 63) for d in (-1, 0, 1)
                   for s in (1, -1)} | set(range(-40, 41)))
    lens = LENGTHS if not ctx.quick else [1, 2, 4, 8, 64, 1024, 4096, 65536]
    for length in lens + ODD_LENGTHS:
        for nab in (-1, 0, 1, 2, 3, 4, 5):
            reqs.append((length, nab, edge))
            reqs.append((length, nab, [rng.randint(-2 ** 63, 2 ** 63 - 1) for _ in range(24)]))
    # int(log2(length)) for ALL lengths below 2^64: both sides of every power of two and of every measured float
    # round-up threshold (Gen.C17.log2RoundsUpFrom), plus random non-powers of two of every magnitude
    from ..gen import gen_c17
    big = set()
    for k in range(1, 64):
        big |= {2 ** k - 1, 2 ** k, 2 ** k + 1, 2 ** k + 2 ** (k - 1), rng.randrange(2 ** k, 2 ** (k + 1))}
    for k, t in _state.get('log2') or gen_c17.measure_log2():
        big |= {t - 2, t - 1, t, t + 1, rng.randrange(t, 2 ** k), rng.randrange(2 ** (k - 1), t)}
    big = sorted(x for x in big if 2 <= x < 2 ** 64)
    if ctx.quick:
        big = [x for x in big if x.bit_length() > 40 or x % 3 == 0 or x & (x - 1) == 0]
    for length in big:
        for nab in (2, 3):
            reqs.append((length, nab, [rng.randint(-2 ** 63, 2 ** 63 - 1) for _ in range(6)] + [-1, 2 ** 63 - 1, -2 ** 63]))
    # exhaustive: every h in [-2^7, 2^7) individually for the small lengths (each bit pattern of the low bits)
    for length in (1, 2, 4, 8, 16):
        for nab in (1, 2, 3, 4):
            for h in range(-128, 128, 1 if not ctx.quick else 3):
                reqs.append((length, nab, [h]))
    return reqs


def hash_requests(ctx):
    rng = ctx.rng
    P = 2 ** 61 - 1
    vals = [0, 1, -1, -2, 2, P, -P, P - 1, P + 1, 2 ** 61, 2 ** 63 - 1, -2 ** 63, 2 ** 64, -2 ** 64 - 1, 10 ** 30, -10 ** 30]
    tuples = [[], [0], [-1], [-2]] + [[a, b] for a in vals[:8] for b in vals[:8]]
    for _ in range(200 if ctx.quick else 3000):
        n = rng.randint(0, 12)
        tuples.append([rng.choice(vals) if rng.random() < 0.3 else rng.randint(-2 ** 64, 2 ** 64) for _ in range(n)])
    return tuples


# ------------------------------------------------------------------------------------------------
# correspondence
# ------------------------------------------------------------------------------------------------

def _shrink_note(op, params, name, line):
    return {'op': op, 'entry': ENTRY[op], 'params': list(params), 'molecule': name, 'mol': [int(x) for x in line.split()]}


def correspond(ctx):
    from ..gen import pyx2py  # noqa: F401  (not needed by the fingerprint code; kept importable)
    rng = ctx.rng
    mols = molecules(ctx)
    reqs = []
    groups = []   # (name, [variants]) for the relational (renumbering) checks
    for name, mol in mols:
        variants = [(name, mol)]
        for j in range(1 if ctx.quick else 2):
            try:
                rm, _ = molgen.renumber(rng, mol)
                variants.append((f'{name}~r{j}', rm))
            except Exception as e:
                ctx.notes.append(f'renumber failed for {name}: {type(e).__name__}')
        if rng.random() < 0.3:
            dm = decorate_atoms(rng, mol)
            variants.append((name + '+iso', dm))
            try:
                variants.append((name + '+iso~r', molgen.renumber(rng, dm)[0]))
            except Exception:
                pass
        groups.append((name, variants))
        state = rng.getstate()
        for vname, vm in variants:
            # same parameter draw for all numberings of a molecule
            rng.setstate(state)
            reqs += requests_for(ctx, vname, vm, 1 if ctx.quick else 2)
    # systematic grid sweep on a few small molecules (every radius pair x bit pairs; every length x active bits)
    sweep = [m for m in mols if 2 <= len(m[1]._atoms) <= 14][:4 if ctx.quick else 25]
    for name, mol in sweep:
        line = wire.mol_to_line(mol)
        for lo, hi in RADII + ODD_RADII:
            reqs.append(('chains', (lo, hi), name, mol, line, (lo, hi) in ODD_RADII))
            reqs.append(('frags', (lo, hi), name, mol, line, (lo, hi) in ODD_RADII))
            reqs.append(('mdict', (lo, hi), name, mol, line, (lo, hi) in ODD_RADII))
            reqs.append(('mhs', (lo, hi), name, mol, line, (lo, hi) in ODD_RADII))
            for nbp in list(range(0, 6)) + ODD_NBP[:2]:
                reqs.append(('lhs', (lo, hi, nbp), name, mol, line, nbp < 0))
        for length in LENGTHS + ODD_LENGTHS:
            for nab in (1, 2, 3, 4, 0, 6):
                reqs.append(('lbs', (1, 4, length, nab, 4), name, mol, line, length in ODD_LENGTHS))
                reqs.append(('mbs', (1, 4, length, nab), name, mol, line, length in ODD_LENGTHS))
    ctx.cov['programs'] = len({ENTRY[r[0]] for r in reqs}) + 2

    if not ctx.build_ok:
        ctx.notes.append('driver not built: model-vs-implementation correspondence skipped; relational checks still run')
        resp = None
    else:
        lines = [model_line(op, params, line) for op, params, name, mol, line, odd in reqs]
        resp = run_driver('C17', lines)
        if len(resp) != len(lines):
            ctx.broke('correspondence', 'driver-protocol', f'{len(resp)} responses for {len(lines)} requests')
            resp = None
    stash = {}
    for i, (op, params, name, mol, line, odd) in enumerate(reqs):
        real = real_eval(op, params, mol)
        stash[(op, params, name)] = real
        nontrivial = (len(mol._atoms) >= 2 and any(mol._bonds.values())) or real[0] != 'ok'
        ctx.count((op, params, line), nontrivial)
        ctx.dist('op:' + op)
        ctx.dist('outcome:' + real[0])
        ctx.dist('atoms:%s' % ('1' if len(mol._atoms) == 1 else '2-9' if len(mol._atoms) < 10 else '10-29' if len(mol._atoms) < 30 else '30+'))
        if odd:
            ctx.dist('out-of-grid-params')
        if real[0].startswith('crash'):
            ctx.broke('correspondence', ENTRY[op], f'real code raised {real[0]} on {name} params={params}')
            _remember(ctx, _shrink_note(op, params, name, line), mol)
            continue
        if resp is None:
            continue
        model = parse_model(op, resp[i])
        if model[0] in ('bad-request',):
            ctx.broke('correspondence', 'wire', f'driver answered {model[0]} for {name}')
            continue
        if op in ('lfp', 'mfp') and real[0] == 'shape':
            ctx.broke('correspondence', ENTRY[op], f'fingerprint array has wrong shape/values on {name} params={params}')
            _remember(ctx, _shrink_note(op, params, name, line), mol)
            continue
        if model != real:
            ctx.cov['disagreements_checked'] += 1
            ctx.broke('correspondence', ENTRY[op], f'{name} params={params}: real={_short(real)} model={_short(model)}')
            _remember(ctx, _shrink_note(op, params, name, line), mol)
        elif (len(ctx.cov['samples']) < 6 and len(mol._atoms) >= 4 and op in ('lhs', 'mhs', 'lbs', 'frags', 'chains', 'mbs')
              and real[0] == 'ok' and len(real[1]) >= 3):
            if not any(s['op'] == op for s in ctx.cov['samples']):
                ctx.sample({'op': op, 'entry': ENTRY[op], 'params': list(params), 'molecule': name,
                            'request': model_line(op, params, line)[:200], 'both': _short(real, 160)})

    # relational: same structure, other numbering/insertion order -> same hash sets / bit sets / key multiset
    for name, variants in groups:
        base = variants[0]
        for vname, vm in variants[1:]:
            if '+iso' in vname and '+iso' not in base[0]:
                base = (vname, vm)
                continue
            for (op, params, nm), real in list(stash.items()):
                if nm != base[0] or op in ('ident', 'chains', 'mdict'):
                    continue
                other = stash.get((op, params, vname))
                if other is None:
                    continue
                a, b = _numbering_free(op, real), _numbering_free(op, other)
                ctx.count(('rel', op, params, vname), len(vm._atoms) >= 2)
                ctx.dist('relational:' + op)
                if a != b:
                    ctx.cov['disagreements_checked'] += 1
                    inp = {'kind': 'numbering', 'op': op, 'params': list(params), 'mol': wire.mol_to_ints(base[1]),
                           'mol2': wire.mol_to_ints(vm)}
                    fails, what = probe(inp)
                    if fails:
                        ctx.fail(f'C17/numbering-dependence/{ENTRY[op]}', what, inp)
                    else:
                        ctx.broke('relational', 'numbering/' + ENTRY[op], f'{base[0]} vs {vname} params={params}')

    smiles_dict_stream(ctx, groups)
    malformed_stream(ctx, mols)
    cgr_stream(ctx)
    history_stream(ctx)
    forwarding_stream(ctx)
    iteration_order_stream(ctx, [m for m in mols if 2 <= len(m[1]._atoms) <= 30][:40 if ctx.quick else 400])
    locality_stream(ctx, [m for m in mols if 3 <= len(m[1]._atoms) <= 40][:40 if ctx.quick else 400])
    defaults_stream(ctx, [m for m in mols if 2 <= len(m[1]._atoms) <= 40][:30 if ctx.quick else 300])

    # folding on arbitrary ints, both copies of the loop
    freqs = fold_requests(ctx)
    if resp is not None:
        fresp = run_driver('C17', [f'fold {length} {nab} ' + ' '.join(map(str, hs)) for length, nab, hs in freqs])
        for (length, nab, hs), r in zip(freqs, fresp):
            model = parse_model('fold', r)
            for which in ('linear', 'morgan'):
                real = real_fold(length, nab, hs, which)
                ctx.count(('fold', which, length, nab, tuple(hs)), True)
                ctx.dist('op:fold')
                if real[0].startswith('crash') or real != model:
                    ctx.cov['disagreements_checked'] += 1
                    ctx.broke('correspondence', f'{which}_bit_set folding', f'length={length} nab={nab} hashes={hs[:6]}…: '
                              f'real={_short(real)} model={_short(model)}')
                    _remember(ctx, {'op': 'fold', 'which': which, 'length': length, 'nab': nab, 'hashes': hs})
        tuples = hash_requests(ctx)
        hresp = run_driver('C17', ['hash ' + ' '.join(map(str, t)) for t in tuples])
        for t, r in zip(tuples, hresp):
            ctx.count(('hash', tuple(t)), len(t) > 0)
            ctx.dist('op:hash')
            if str(hash(tuple(t))) != r.strip():
                ctx.cov['disagreements_checked'] += 1
                ctx.broke('correspondence', 'Py.Hash', f'hash({tuple(t)}) = {hash(tuple(t))}, model {r}')
    if ctx.broken:
        # a relational stream may already hold a failing input (e.g. a reaction graph); still start the molecule-level
        # search from the disagreeing cases so that the smallest plain-molecule input is reported as well
        search(ctx)


def smiles_dict_stream(ctx, groups):
    """hash -> fragment SMILES dictionaries (no Lean model of the SMILES writer here: real vs real only):
    keys equal the hash set; the dictionary does not depend on numbering / insertion order"""
    rng = ctx.rng
    todo = [g for g in groups if 2 <= len(g[1][0][1]._atoms) <= 30 and len(g[1]) > 1]
    rng.shuffle(todo)
    for name, variants0 in todo[:60 if ctx.quick else 600]:
        # stereo marks are numbering-relative in chython and molgen.renumber carries them over untranslated, so the
        # SMILES-bearing dictionaries are compared on stereo-free copies (the hashes themselves ignore stereo)
        variants = []
        try:
            m0 = variants0[-1][1].copy()
            m0.clean_stereo()
            variants = [(variants0[-1][0] + '-stereo', m0), (variants0[-1][0] + '-stereo~r', molgen.renumber(rng, m0)[0])]
        except Exception:
            continue
        lo, hi = rng.choice([r for r in RADII if r[1] <= 4])
        nbp = rng.randint(0, 5)
        for op, params, setop, sparams in (('lhsm', (lo, hi, nbp), 'lhs', (lo, hi, nbp)), ('mhsm', (lo, min(hi, 3)), 'mhs', (lo, min(hi, 3)))):
            if op == 'mhsm' and (lo > min(hi, 3) or len(variants[0][1]._atoms) > 16):
                continue
            base = None
            for vname, vm in variants:
                try:
                    d = real_eval(op, params, vm)
                    hs = real_eval(setop, sparams, vm)
                except Exception:
                    continue
                if d[0] != 'ok':
                    if d[0].startswith('crash') and len(vm._atoms) and '+iso' not in vname and not name.startswith(('graph', 'rings')):
                        ctx.notes.append(f'{ENTRY[op]} raised {d[0]} on {vname}')
                    break
                ctx.count(('smiles-dict', op, params, wire.mol_to_line(vm)), True)
                ctx.dist('relational:' + op)
                if [k for k, _ in d[1]] != hs[1]:
                    ctx.fail(f'C17/dict-keys/{ENTRY[op]}', f'{ENTRY[op]}{params} keys differ from {ENTRY[setop]}{sparams} on {vname}',
                             {'kind': 'dict-keys', 'op': op, 'params': list(params), 'mol': wire.mol_to_ints(vm)})
                if base is None:
                    base = (vname, vm, d)
                elif d != base[2]:
                    ctx.cov['disagreements_checked'] += 1
                    inp = {'kind': 'numbering', 'op': op, 'params': list(params), 'mol': wire.mol_to_ints(base[1]),
                           'mol2': wire.mol_to_ints(vm)}
                    fails, what = probe(inp)
                    if fails:
                        ctx.fail(f'C17/numbering-dependence/{ENTRY[op]}', what, inp)
                    else:
                        ctx.broke('relational', 'numbering/' + ENTRY[op], f'{base[0]} vs {vname} params={params} (not reproduced from the wire form)')


def _numbering_free(op, real):
    if real[0] != 'ok':
        return real
    if op == 'frags':
        return ('ok', sorted((k, len(v)) for k, v in real[1]))
    return real


def _short(x, n=300):
    s = json.dumps(x, default=str)
    return s if len(s) <= n else s[:n] + '…'


def _remember(ctx, note, mol=None):
    """keep the disagreeing case (and the live molecule object) as a starting point for the search"""
    ctx.__dict__.setdefault('c17_suspects', []).append((note, mol))


# ------------------------------------------------------------------------------------------------
# property-level oracle (documentation only; never consults the Lean model)
# ------------------------------------------------------------------------------------------------

def oracle_paths(mol, lo, hi):
    """all simple paths with lo..hi atoms, one per undirected path, by plain recursive DFS"""
    adj = {n: list(ms) for n, ms in mol._bonds.items()}
    found = set()

    def walk(path):
        if lo <= len(path) <= hi:
            found.add(min(tuple(path), tuple(reversed(path))))
        if len(path) == hi:
            return
        for y in adj[path[-1]]:
            if y not in path:
                path.append(y)
                walk(path)
                path.pop()
    for n in mol._atoms:
        walk([n])
    return found


def oracle_ident(mol):
    """atom identifiers: molecules — (isotope or 0, Z, charge, radical); condensed reaction graphs additionally carry the
    product-side charge and radical state"""
    if type(mol).__name__ == 'CGRContainer':
        return {n: hash((a.isotope or 0, a.atomic_number, a.charge, a.p_charge, a.is_radical, a.p_is_radical))
                for n, a in mol._atoms.items()}
    return {n: hash((a.isotope or 0, a.atomic_number, a.charge, a.is_radical)) for n, a in mol.atoms()}


def oracle_fragment_counts(mol, lo, hi):
    """documented semantics: a fragment is the alternating atom-identifier / bond-order sequence of a simple path read in
    its larger direction; value = number of undirected simple paths with that sequence"""
    ident = oracle_ident(mol)
    counts = {}
    for p in oracle_paths(mol, lo, hi):
        seq = [ident[p[0]]]
        for x, y in zip(p, p[1:]):
            seq += [int(mol._bonds[x][y]), ident[y]]
        seq = tuple(seq)
        key = max(seq, seq[::-1])
        counts[key] = counts.get(key, 0) + 1
    return counts


def oracle_linear_hashes(mol, lo, hi, nbp):
    out = set()
    for key, c in oracle_fragment_counts(mol, lo, hi).items():
        cap = c if nbp == 0 else min(c, nbp)
        for i in range(cap):
            out.add(hash(key + (i,)))
    return out


def oracle_morgan(mol, lo, hi):
    """iterated neighbourhood identifiers: radius r identifier = hash of own (r-1)-identifier followed by the sorted
    (bond order, neighbour (r-1)-identifier) pairs; union over radii lo..hi"""
    cur = oracle_ident(mol)
    layers = {1: cur}
    for r in range(2, hi + 1):
        nxt = {}
        for n in mol._atoms:
            env = sorted((int(b), cur[k]) for k, b in mol._bonds[n].items())
            nxt[n] = hash((cur[n],) + tuple(itertools.chain.from_iterable(env)))
        cur = nxt
        layers[r] = cur
    return {h for r in range(lo, hi + 1) for h in layers[r].values()}


def oracle_bits(hashes, length, nab):
    """documented: each hash switches on number_active_bits bits, taken from successive log2(length)-bit windows"""
    k = length.bit_length() - 1
    out = set()
    for h in hashes:
        for j in range(max(nab, 1)):
            out.add((h // (1 << (k * j))) % length)
    return out


def in_grid(lo, hi, length, nab, nbp):
    return 1 <= lo <= hi and length >= 1 and length & (length - 1) == 0 and nab >= 1 and nbp >= 0


def property_checks(mol, lo, hi, length, nab, nbp):
    """yield (signature, what) for every clause of the property that FAILS on this input (real code vs documentation)."""
    lh = mol.linear_hash_set(lo, hi, nbp)
    exp = oracle_linear_hashes(mol, lo, hi, nbp)
    if lh != exp:
        yield ('C17/fragment-set/linear_hash_set', f'linear_hash_set({lo},{hi},{nbp}) has {len(lh - exp)} hashes that no '
               f'simple path of {lo}..{hi} atoms produces and misses {len(exp - lh)}')
    frags = mol._fragments(lo, hi)
    counts = {k: len(v) for k, v in frags.items()}
    ocounts = oracle_fragment_counts(mol, lo, hi)
    if counts != ocounts:
        bad = [k for k in set(counts) | set(ocounts) if counts.get(k) != ocounts.get(k)][:3]
        yield ('C17/fragment-count/_fragments', f'_fragments({lo},{hi}) count differs from the number of undirected simple '
               f'paths for {len(bad)}+ label sequences, e.g. {bad[0]}: {counts.get(bad[0])} vs {ocounts.get(bad[0])}')
    else:
        for k, v in frags.items():
            und = {min(tuple(p), tuple(p)[::-1]) for p in v}
            if len(und) != len(v):
                yield ('C17/fragment-count/_fragments', f'_fragments({lo},{hi}) lists the same undirected path twice under {k}')
                break
    mh = mol.morgan_hash_set(lo, hi)
    mexp = oracle_morgan(mol, lo, hi)
    if mh != mexp:
        yield ('C17/morgan-set/morgan_hash_set', f'morgan_hash_set({lo},{hi}) differs from the iterated neighbourhood '
               f'identifiers of radii {lo}..{hi}: {len(mh - mexp)} extra, {len(mexp - mh)} missing')
    for nm, bits, hs in (('linear_bit_set', mol.linear_bit_set(lo, hi, length, nab, nbp), lh),
                         ('morgan_bit_set', mol.morgan_bit_set(lo, hi, length, nab), mh)):
        bad = [b for b in bits if not 0 <= b < length]
        if bad:
            yield (f'C17/bit-range/{nm}', f'{nm} length={length} yields index {bad[0]} outside [0,{length})')
        elif bits != oracle_bits(hs, length, nab):
            yield (f'C17/active-bits/{nm}', f'{nm} length={length} number_active_bits={nab}: bits differ from the '
                   f'log2(length)-bit windows of the hashes')
    for nm, fp, bits in (('linear_fingerprint', mol.linear_fingerprint(lo, hi, length, nab, nbp),
                          mol.linear_bit_set(lo, hi, length, nab, nbp)),
                         ('morgan_fingerprint', mol.morgan_fingerprint(lo, hi, length, nab),
                          mol.morgan_bit_set(lo, hi, length, nab))):
        if len(fp) != length or {i for i, x in enumerate(fp) if x} != set(bits):
            yield (f'C17/fingerprint-array/{nm}', f'{nm} array does not have exactly the bit set switched on')


def numbering_checks(mol, mol2, lo, hi, length, nab, nbp):
    for nm, f in (('linear_hash_set', lambda m: m.linear_hash_set(lo, hi, nbp)),
                  ('morgan_hash_set', lambda m: m.morgan_hash_set(lo, hi)),
                  ('linear_bit_set', lambda m: m.linear_bit_set(lo, hi, length, nab, nbp)),
                  ('morgan_bit_set', lambda m: m.morgan_bit_set(lo, hi, length, nab)),
                  ('_fragments', lambda m: sorted((k, len(v)) for k, v in m._fragments(lo, hi).items())),
                  ('linear_fingerprint', lambda m: list(m.linear_fingerprint(lo, hi, length, nab, nbp))),
                  ('morgan_fingerprint', lambda m: list(m.morgan_fingerprint(lo, hi, length, nab)))):
        if f(mol) != f(mol2):
            yield (f'C17/numbering-dependence/{nm}', f'{nm} differs between two numberings/insertion orders of one structure '
                   f'(radii {lo}..{hi}, length {length}, active bits {nab}, bit pairs {nbp})')


def fold_checks(length, nab, hashes):
    for which in ('linear', 'morgan'):
        real = real_fold(length, nab, hashes, which)
        if real[0] != 'ok':
            yield (f'C17/active-bits/{which}_bit_set', f'folding raised {real[0]} for length={length}')
            continue
        bits = set(real[1])
        bad = [b for b in bits if not 0 <= b < length]
        if bad:
            yield (f'C17/bit-range/{which}_bit_set', f'{which}_bit_set length={length} yields index {bad[0]} outside [0,{length}) '
                   f'for hash set {hashes[:4]}')
        elif bits != oracle_bits(hashes, length, nab):
            yield (f'C17/active-bits/{which}_bit_set', f'{which}_bit_set length={length} number_active_bits={nab}: bits '
                   f'{sorted(bits)[:6]} differ from the log2(length)-bit windows {sorted(oracle_bits(hashes, length, nab))[:6]} '
                   f'of hashes {hashes[:4]}')


def _grid_params_near(rng, params_hint, n):
    out = []
    if params_hint:
        out.append(params_hint)
    for _ in range(n):
        lo, hi = rng.choice(RADII)
        out.append((lo, hi, rng.choice(LENGTHS), rng.randint(1, 4), rng.randint(0, 5)))
    return out


def _full_params(op, params):
    lo, hi, length, nab, nbp = 1, 4, 1024, 2, 4
    if op in ('chains', 'frags', 'mdict', 'mhs'):
        lo, hi = params
    elif op == 'lhs':
        lo, hi, nbp = params
    elif op == 'lhsm':
        lo, hi, nbp = params
    elif op == 'mhsm':
        lo, hi = params
    elif op in ('lbs', 'lfp'):
        lo, hi, length, nab, nbp = params
    elif op in ('mbs', 'mfp'):
        lo, hi, length, nab = params
    return (lo, hi, length, nab, nbp)


def _safe_renumber(rng, mol):
    try:
        return molgen.renumber(rng, mol)[0]
    except Exception:
        try:   # molecules rebuilt from the wire carry no labels: recompute them on a private copy first
            m2, _ = wire.ints_to_mol(wire.mol_to_ints(mol), calc=True)
            return molgen.renumber(rng, m2)[0]
        except Exception:
            return None


def search(ctx):
    """Property-level oracle on the real code, starting at the disagreeing cases, then their neighbourhood, then a sweep."""
    import time
    if ctx.__dict__.get('c17_search_done'):
        return
    ctx.c17_search_done = True
    rng = ctx.rng
    budget = 60 if ctx.quick else 500
    t0 = time.time()
    seen_sigs = set()

    def run(mol, p, mol2=None):
        lo, hi, length, nab, nbp = p
        if not in_grid(*p) or not _n_paths_ok(mol, hi):
            return
        ctx.dist('search:cases')
        try:
            res = list(property_checks(mol, *p))
        except Exception as e:
            res = [(f'C17/exception/{type(e).__name__}', f'fingerprint call raised {type(e).__name__}: {e} inside the documented grid')]
        if mol2 is not None:
            try:
                res += list(numbering_checks(mol, mol2, *p))
            except Exception as e:
                ctx.notes.append(f'search: numbering check raised {type(e).__name__}')
        for sig, what in res:
            if sig in seen_sigs:
                continue
            seen_sigs.add(sig)
            inp = {'kind': 'molecule', 'params': list(p), 'mol': wire.mol_to_ints(mol)}
            if mol2 is not None and 'numbering' in sig:
                inp['mol2'] = wire.mol_to_ints(mol2)
            ctx.fail(sig, what, inp)

    suspects = ctx.__dict__.get('c17_suspects', [])
    # one suspect per (entry point, parameter tuple) first, smallest molecules first
    suspects = sorted(suspects, key=lambda nm: len(nm[0].get('mol', ())))
    picked, keys = [], set()
    for note, mol in suspects:
        k = (note['op'], tuple(note.get('params', ())))
        if k not in keys:
            keys.add(k)
            picked.append((note, mol))
    picked += [x for x in suspects if x not in picked][:40]
    for note, mol in picked[:120]:
        if time.time() - t0 > budget / 2:
            break
        try:
            if note['op'] == 'fold':
                if note['length'] >= 1 and note['length'] & (note['length'] - 1) == 0 and note['nab'] >= 1:
                    for sig, what in fold_checks(note['length'], note['nab'], note['hashes']):
                        if sig not in seen_sigs:
                            seen_sigs.add(sig)
                            hs = next(([h] for h in note['hashes']
                                       if any(g == sig for g, _ in fold_checks(note['length'], note['nab'], [h]))), note['hashes'])
                            ctx.fail(sig, what, {'kind': 'fold', 'length': note['length'], 'nab': note['nab'], 'hashes': hs})
                continue
            if note['op'] == 'history':
                fails, what = probe(note['input'])
                if fails and note['sig'] not in seen_sigs:
                    seen_sigs.add(note['sig'])
                    ctx.fail(note['sig'], what, note['input'])
                continue
            if mol is None:
                mol, _ = wire.ints_to_mol(note['mol'])
            hint = _full_params(note['op'], note['params'])
            mol2 = _safe_renumber(rng, mol)
            if in_grid(*hint):
                run(mol, hint, mol2)
            else:   # the disagreement was outside the documented grid: look at the nearest in-grid parameters
                lo, hi, length, nab, nbp = hint
                lo = max(1, lo)
                hi = max(lo, min(hi, 6))
                length = length if (length >= 1 and length & (length - 1) == 0) else 1024
                run(mol, (lo, hi, length, max(nab, 1), max(nbp, 0)), mol2)
            for pp in _grid_params_near(rng, None, 3):
                run(mol, pp, mol2)
        except Exception as e:
            ctx.notes.append(f'search: suspect {note.get("op")} raised {type(e).__name__}: {e}')
    # fold sweep (cheap)
    for length, nab, hs in fold_requests(ctx):
        if length >= 1 and length & (length - 1) == 0 and nab >= 1:
            for sig, what in fold_checks(length, nab, hs):
                if sig not in seen_sigs:
                    seen_sigs.add(sig)
                    one = next(([h] for h in hs if any(g == sig for g, _ in fold_checks(length, nab, [h]))), hs)
                    ctx.fail(sig, what, {'kind': 'fold', 'length': length, 'nab': nab, 'hashes': one})
    # history sweep
    for inp in history_cases(ctx, 25 if ctx.quick else 200):
        if time.time() - t0 > budget * 0.75:
            break
        try:
            fails, what = probe(inp)
        except Exception as e:
            ctx.notes.append(f'search: history case raised {type(e).__name__}')
            continue
        sig = 'C17/history-dependence/' + inp['edits'][-1][0]
        if fails and sig not in seen_sigs:
            seen_sigs.add(sig)
            ctx.fail(sig, what, inp)
    # general sweep: small graphs first (smallest counterexamples), then corpus; systematic radii on the small ones
    pool = [m for m in molecules(ctx)]
    pool.sort(key=lambda nm: len(nm[1]._atoms))
    for idx, (name, mol) in enumerate(pool):
        if time.time() - t0 > budget:
            ctx.notes.append('search budget exhausted')
            break
        mol2 = _safe_renumber(rng, mol)
        plist = _grid_params_near(rng, None, 2)
        if 2 <= len(mol._atoms) <= 8 and idx % 7 == 0:
            plist += [(lo, hi, 64, 3, 2) for lo, hi in RADII]
        for pp in plist:
            try:
                run(mol, pp, mol2)
            except Exception as e:
                ctx.notes.append(f'search: sweep raised {type(e).__name__}')
    ctx.cov['search_signatures'] = sorted(seen_sigs)


# ------------------------------------------------------------------------------------------------
# history: fingerprint -> edit through the public API -> fingerprint on the SAME object
# ------------------------------------------------------------------------------------------------

NOARG_EDITS = ['explicify_hydrogens', 'implicify_hydrogens', 'kekule', 'thiele', 'remove_coordinate_bonds', 'neutralize',
               'standardize', 'canonicalize', 'clean_stereo', 'standardize_charges', 'clean_isotopes']


def apply_edit(mol, edit):
    """one structure edit through the public API; returns the object to continue with (a copy for 'copy')"""
    kind = edit[0]
    if kind == 'copy':
        return mol.copy()
    if kind in NOARG_EDITS:
        getattr(mol, kind)()
    elif kind == 'delete_atom':
        mol.delete_atom(edit[1])
    elif kind == 'delete_bond':
        mol.delete_bond(edit[1], edit[2])
    elif kind == 'add_atom_bond':
        k = mol.add_atom(edit[2])
        mol.add_bond(edit[1], k, edit[3])
    elif kind == 'add_bond':
        mol.add_bond(edit[1], edit[2], edit[3])
    elif kind == 'charge':
        with mol:
            mol.atom(edit[1]).charge = edit[2]
    elif kind == 'radical':
        with mol:
            mol.atom(edit[1]).is_radical = bool(edit[2])
    elif kind == 'isotope':
        with mol:
            mol.atom(edit[1]).isotope = edit[2]
    elif kind == 'aborted_charge':
        try:
            with mol:
                mol.atom(edit[1]).charge = edit[2]
                raise RuntimeError('abort the transaction')
        except RuntimeError:
            pass
    else:
        raise ValueError(kind)
    return mol


def random_edit(rng, mol):
    atoms = list(mol._atoms)
    bonds = [(n, m) for n, m, _ in mol.bonds()]
    r = rng.random()
    if r < 0.45 or not atoms:
        return [rng.choice(NOARG_EDITS)]
    if r < 0.55:
        return ['delete_atom', rng.choice(atoms)]
    if r < 0.65 and bonds:
        return ['delete_bond', *rng.choice(bonds)]
    if r < 0.75:
        return ['add_atom_bond', rng.choice(atoms), rng.choice(['C', 'N', 'O', 'F']), 1]
    if r < 0.8 and len(atoms) > 2:
        a, b = rng.sample(atoms, 2)
        if b not in mol._bonds[a]:
            return ['add_bond', a, b, 1]
    if r < 0.87:
        return ['charge', rng.choice(atoms), rng.choice([-1, 1])]
    if r < 0.91:
        return ['radical', rng.choice(atoms), 1]
    if r < 0.95:
        return ['aborted_charge', rng.choice(atoms), 1]
    return ['copy']


def history_cases(ctx, n):
    """n inputs {'kind': 'history', 'smiles', 'edits', 'params'}: SMILES from the corpus / hand-made set, 1-2 edits, grid parameters"""
    rng = ctx.rng
    smis = list(molgen.HANDMADE) + rng.sample(molgen.corpus_smiles(), min(n, 400))
    out = []
    tries = 0
    while len(out) < n and tries < 20 * n:
        tries += 1
        smi = rng.choice(smis)
        mol = molgen.parse(smi)
        if mol is None or len(mol._atoms) > 40:
            continue
        edits = []
        m = mol
        try:
            for _ in range(rng.choice([1, 1, 2])):
                e = random_edit(rng, m)
                m = apply_edit(m, e)
                edits.append(e)
        except Exception:
            continue   # the edit itself is not applicable to this molecule (C13/C14 domain, not ours)
        lo, hi = rng.choice(RADII)
        while not _n_paths_ok(m, hi) or (hi > 4 and len(m._atoms) > 25):
            hi -= 1
            lo = min(lo, hi)
        out.append({'kind': 'history', 'smiles': smi, 'edits': edits,
                    'params': [lo, hi, rng.choice([64, 256, 1024, 4096]), rng.randint(1, 4), rng.randint(0, 5)]})
    return out


HIST_OPS = (('chains', lambda p: (p[0], p[1])), ('frags', lambda p: (p[0], p[1])), ('lhs', lambda p: (p[0], p[1], p[4])),
            ('lbs', lambda p: p), ('lfp', lambda p: p), ('mdict', lambda p: (p[0], p[1])), ('mhs', lambda p: (p[0], p[1])),
            ('mbs', lambda p: p[:4]), ('mfp', lambda p: p[:4]), ('ident', lambda p: ()))


def run_history(inp):
    """fingerprint -> edit -> fingerprint … on one object. Returns (object after the last edit, {op: result on that object},
    {op: result on a freshly built molecule with exactly the same atoms and bonds})."""
    from chython import smiles
    mol = smiles(inp['smiles'])
    p = tuple(inp['params'])
    for e in inp['edits']:
        for op, sel in HIST_OPS:     # warm every cache there might be, with the same parameters
            real_eval(op, tuple(sel(p)), mol)
        mol = apply_edit(mol, e)
    post = {op: real_eval(op, tuple(sel(p)), mol) for op, sel in HIST_OPS}
    fresh, _ = wire.ints_to_mol(wire.mol_to_ints(mol))
    ref = {op: real_eval(op, tuple(sel(p)), fresh) for op, sel in HIST_OPS}
    return mol, post, ref


# deterministic part of the history stream: every edit that flushes with keep_sssr / keep_components (the caches that survive
# an edit) and the plain structure edits, on a handful of small molecules, at the default radii and two other parameter tuples —
# in EVERY run, not sampled
FIXED_HISTORY_MOLS = ['CCO', 'CC(=O)O', 'Nc1ccccc1', 'C1=CC=CC=C1O', 'c1ccncc1', 'CC(=O)[O-].[Na+]', 'C[N+](C)(C)[O-]',
                      '[H]C([H])([H])O', 'C[C@H](N)C(=O)O', 'Cl[Pt](Cl)(N)N', 'OC=O.[13CH4]']
FIXED_HISTORY_EDITS = [[['explicify_hydrogens']], [['implicify_hydrogens']], [['explicify_hydrogens'], ['implicify_hydrogens']],
                       [['kekule']], [['thiele']], [['kekule'], ['thiele']], [['remove_coordinate_bonds']], [['neutralize']],
                       [['standardize']], [['canonicalize']], [['clean_stereo']], [['standardize_charges']], [['clean_isotopes']],
                       [['copy'], ['explicify_hydrogens']], [['delete_atom', 1]], [['delete_bond', 1, 2]],
                       [['add_atom_bond', 1, 'C', 1]], [['charge', 2, 1]], [['aborted_charge', 1, 1]]]
FIXED_HISTORY_PARAMS = [[1, 4, 1024, 2, 4], [2, 3, 256, 3, 0], [1, 6, 64, 1, 2]]


def fixed_history_cases():
    return [{'kind': 'history', 'smiles': smi, 'edits': edits, 'params': p}
            for smi in FIXED_HISTORY_MOLS for edits in FIXED_HISTORY_EDITS for p in FIXED_HISTORY_PARAMS]


def history_stream(ctx):
    cases = fixed_history_cases() + history_cases(ctx, 80 if ctx.quick else 300)
    lines, meta = [], []
    for inp in cases:
        try:
            mol, post, ref = run_history(inp)
        except Exception as e:
            ctx.dist('history:edit-not-applicable')
            continue
        p = tuple(inp['params'])
        line = wire.mol_to_line(mol)
        last = inp['edits'][-1][0]
        ctx.dist('history:' + last)
        for op, sel in HIST_OPS:
            ctx.count(('history', op, tuple(sel(p)), inp['smiles'], json.dumps(inp['edits'])), True)
            if post[op] != ref[op]:
                ctx.cov['disagreements_checked'] += 1
                sig = f'C17/history-dependence/{last}'
                ctx.broke('relational', f'history/{ENTRY[op]}', f'{inp["smiles"]} after {inp["edits"]}: same object '
                          f'{_short(post[op], 120)} vs freshly built {_short(ref[op], 120)}')
                _remember(ctx, {'op': 'history', 'input': inp, 'sig': sig})
            if op not in ('lfp', 'mfp'):
                lines.append(model_line(op, tuple(sel(p)), line))
                meta.append((op, tuple(sel(p)), inp, post[op]))
    if ctx.build_ok and lines:
        resp = run_driver('C17', lines)
        for (op, params, inp, post), r in zip(meta, resp):
            model = parse_model(op, r)
            if model != post:
                ctx.cov['disagreements_checked'] += 1
                ctx.broke('correspondence', ENTRY[op] + '@after-edit', f'{inp["smiles"]} after {inp["edits"]} params={params}: '
                          f'real={_short(post, 120)} model={_short(model, 120)}')
                _remember(ctx, {'op': 'history', 'input': inp, 'sig': 'C17/history-dependence/' + inp['edits'][-1][0]})


def _dangling(ints, victim_index):
    """drop one atom row from the wire form but keep the references to it in the neighbour lists; returns
    (ints of the malformed graph, real object with exactly those dicts)"""
    from chython import MoleculeContainer
    from chython.containers.bonds import Bond
    from chython.periodictable import Element
    it = iter(ints)
    n_atoms = next(it)
    rows = []
    for _ in range(n_atoms):
        head = [next(it) for _ in range(8)]
        nb = [(next(it), next(it), next(it)) for _ in range(head[7])]
        rows.append((head, nb))
    rows = [r for i, r in enumerate(rows) if i != victim_index]
    out = [len(rows)]
    mol = MoleculeContainer()
    shared = {}
    for head, nb in rows:
        out += head
        n, z, iso, ch, rad, h, st, deg = head
        mol._atoms[n] = Element.from_atomic_number(z)(iso or None, charge=ch, is_radical=bool(rad),
                                                       implicit_hydrogens=None if h < 0 else h)
        mol._bonds[n] = {}
        for m, o, s_ in nb:
            out += [m, o, s_]
            mol._bonds[n][m] = shared.setdefault(frozenset((n, m)), Bond(o))
    return out, mol


def malformed_stream(ctx, mols):
    """graphs that violate the Graph invariant (a neighbour dict names an atom that does not exist): every entry point
    must raise KeyError exactly where the model does (subscript of a missing key), and not otherwise"""
    if not ctx.build_ok:
        return
    rng = ctx.rng
    lines, meta = [], []
    pool = [m for m in mols if 2 <= len(m[1]._atoms) <= 12 and any(m[1]._bonds.values())]
    for name, mol in pool[:25 if ctx.quick else 200]:
        ints = wire.mol_to_ints(mol)
        cand = [i for i, n in enumerate(mol._atoms) if mol._bonds[n]]
        bad_ints, bad = _dangling(ints, rng.choice(cand))
        line = ' '.join(map(str, bad_ints))
        for lo, hi in ((1, 1), (1, 2), (2, 3), (0, 2)):
            for op, params in (('mdict', (lo, hi)), ('mhs', (lo, hi)), ('mbs', (lo, hi, 256, 2)), ('ident', ()),
                               ('chains', (lo, hi)), ('frags', (lo, hi)), ('lhs', (lo, hi, 3)), ('lbs', (lo, hi, 256, 2, 3))):
                lines.append(model_line(op, params, line))
                meta.append((op, params, name, bad))
    resp = run_driver('C17', lines)
    for (op, params, name, bad), r in zip(meta, resp):
        real = real_eval(op, params, bad)
        ctx.count(('malformed', op, params, name), True)
        ctx.dist('op:malformed-graph')
        ctx.dist('outcome:' + real[0])
        if parse_model(op, r) != real:
            ctx.cov['disagreements_checked'] += 1
            ctx.broke('correspondence', ENTRY[op] + '@malformed-graph', f'{name} minus one atom row, params={params}: '
                      f'real={_short(real, 100)} model={_short(parse_model(op, r), 100)}')


# ------------------------------------------------------------------------------------------------
# condensed reaction graphs (FingerprintsCGR): same linear/Morgan code over other identifiers; no Lean model of the CGR
# containers here, so this stream compares the real code with the documentation-level oracle and across numberings
# ------------------------------------------------------------------------------------------------

CGR_EDITS = ('delete_bond', 'add_bond', 'charge', 'radical', 'bond_order')


def make_cgr(inp, renumbered=False):
    """reactant = the SMILES, product = the same atoms after the edits; `renumbered`: both sides renumbered with one
    mapping and re-inserted in random order (seeded by inp['rseed']) before composing"""
    import random
    from chython import smiles
    m1 = smiles(inp['smiles'])
    m1.clean_stereo()
    m2 = m1.copy()
    for e in inp['edits']:
        if e[0] == 'bond_order':
            m2.delete_bond(e[1], e[2])
            m2.add_bond(e[1], e[2], e[3])
        else:
            m2 = apply_edit(m2, e)
    if renumbered:
        rng = random.Random(inp['rseed'])
        m1, mapping = molgen.renumber(rng, m1)
        m2 = m2.copy()
        m2.remap(mapping)
    return m1 ^ m2


def cgr_cases(ctx, n):
    rng = ctx.rng
    smis = [x for x in molgen.HANDMADE if '.' not in x] + rng.sample(molgen.corpus_smiles(), min(3 * n, 600))
    out, tries = [], 0
    while len(out) < n and tries < 20 * n:
        tries += 1
        smi = rng.choice(smis)
        mol = molgen.parse(smi)
        if mol is None or not 2 <= len(mol._atoms) <= 30:
            continue
        atoms = list(mol._atoms)
        bonds = [(a, b, int(o)) for a, b, o in mol.bonds()]
        edits = []
        for _ in range(rng.choice([1, 2, 2, 3])):
            k = rng.choice(CGR_EDITS)
            if k == 'delete_bond' and bonds:
                a, b, _o = rng.choice(bonds)
                if not any(e[0] in ('delete_bond', 'bond_order') and {e[1], e[2]} == {a, b} for e in edits):
                    edits.append(['delete_bond', a, b])
            elif k == 'bond_order' and bonds:
                a, b, o = rng.choice(bonds)
                if not any(e[0] in ('delete_bond', 'bond_order') and {e[1], e[2]} == {a, b} for e in edits):
                    edits.append(['bond_order', a, b, rng.choice([x for x in (1, 2, 3) if x != o])])
            elif k == 'add_bond' and len(atoms) > 2:
                a, b = rng.sample(atoms, 2)
                if b not in mol._bonds[a] and not any(e[0] == 'add_bond' and {e[1], e[2]} == {a, b} for e in edits):
                    edits.append(['add_bond', a, b, 1])
            elif k == 'charge':
                edits.append(['charge', rng.choice(atoms), rng.choice([-1, 1])])
            elif k == 'radical':
                edits.append(['radical', rng.choice(atoms), 1])
        if not edits:
            continue
        lo, hi = rng.choice(RADII)
        inp = {'kind': 'cgr', 'smiles': smi, 'edits': edits, 'rseed': rng.randrange(10 ** 6),
               'params': [lo, min(hi, 5), rng.choice([64, 1024, 4096]), rng.randint(1, 4), rng.randint(0, 5)]}
        inp['params'][0] = min(inp['params'][0], inp['params'][1])
        try:
            c = make_cgr(inp)
            make_cgr(inp, True)
        except Exception:
            continue   # edit not applicable / composition refused: not this property's business
        if not _n_paths_ok(c, inp['params'][1]):
            continue
        out.append(inp)
    return out


def cgr_checks(inp):
    c = make_cgr(inp)
    c2 = make_cgr(inp, True)
    p = tuple(inp['params'])
    res = list(property_checks(c, *p)) + list(numbering_checks(c, c2, *p))
    ident = c._atom_identifiers
    if ident != oracle_ident(c):
        res.append(('C17/atom-identifiers/FingerprintsCGR', 'CGR atom identifiers are not the hash of (isotope or 0, Z, charge, '
                    'p_charge, radical, p_radical)'))
    return [(sig.replace('C17/', 'C17/cgr-', 1), 'condensed reaction graph: ' + what) for sig, what in res]


def cgr_stream(ctx):
    for inp in cgr_cases(ctx, 80 if ctx.quick else 400):
        ctx.count(('cgr', inp['smiles'], json.dumps(inp['edits']), tuple(inp['params'])), True)
        ctx.dist('relational:cgr')
        try:
            res = cgr_checks(inp)
        except Exception as e:
            ctx.broke('relational', 'cgr/exception', f'{type(e).__name__}: {e} on {inp["smiles"]} {inp["edits"]}')
            continue
        for sig, what in res:
            ctx.cov['disagreements_checked'] += 1
            ctx.fail(sig, what, inp)


def defaults_stream(ctx, mols):
    """entry points called without arguments vs the model called with the regenerated default values"""
    d = _state.get('defaults')
    if not d or not ctx.build_ok:
        return
    def dv(meth, *names):
        vals = dict(d[meth])
        return tuple(vals[n] for n in names)
    plan = [('lhs', 'linear_hash_set', ('min_radius', 'max_radius', 'number_bit_pairs')),
            ('lbs', 'linear_bit_set', ('min_radius', 'max_radius', 'length', 'number_active_bits', 'number_bit_pairs')),
            ('lbs', 'linear_fingerprint', ('min_radius', 'max_radius', 'length', 'number_active_bits', 'number_bit_pairs')),
            ('mhs', 'morgan_hash_set', ('min_radius', 'max_radius')),
            ('mbs', 'morgan_bit_set', ('min_radius', 'max_radius', 'length', 'number_active_bits')),
            ('mbs', 'morgan_fingerprint', ('min_radius', 'max_radius', 'length', 'number_active_bits')),
            ('chains', '_chains', ('min_radius', 'max_radius')), ('frags', '_fragments', ('min_radius', 'max_radius')),
            ('mdict', '_morgan_hash_dict', ('min_radius', 'max_radius'))]
    lines, meta = [], []
    for name, mol in mols:
        line = wire.mol_to_line(mol)
        for op, meth, names in plan:
            try:
                params = dv(meth, *names)
            except KeyError:
                ctx.broke('translator', 'defaults', f'{meth} lost a default parameter')
                return
            lines.append(model_line(op, params, line))
            meta.append((op, meth, params, name, mol))
    resp = run_driver('C17', lines)
    for (op, meth, params, name, mol), r in zip(meta, resp):
        try:
            v = getattr(mol, meth)()
            if meth.endswith('_fingerprint'):
                real = ('ok', [i for i, x in enumerate(v) if x])
            elif op == 'frags':
                real = ('ok', sorted((tuple(k), _frag_list(tuple(k), ps)) for k, ps in v.items()))
            elif op == 'mdict':
                real = ('ok', [sorted(x.items()) for x in v])
            elif op == 'chains':
                real = ('ok', sorted(tuple(q) for q in v))
            else:
                real = ('ok', sorted(v))
        except Exception as e:  # noqa
            real = (_err(e), None)
        ctx.count(('default-args', meth, wire.mol_to_line(mol)), len(mol._atoms) >= 2)
        ctx.dist('op:default-args')
        if parse_model(op, r) != real:
            ctx.cov['disagreements_checked'] += 1
            ctx.broke('correspondence', meth + '()', f'{name}: call without arguments differs from the model at the defaults {params}')
            _remember(ctx, _shrink_note(op, params, name, wire.mol_to_line(mol)), mol)


# ------------------------------------------------------------------------------------------------
# parameter forwarding: every entry point x every parameter x non-default values, positional and by keyword
# ------------------------------------------------------------------------------------------------

DOC_DEFAULTS = {'min_radius': 1, 'max_radius': 4, 'length': 1024, 'number_active_bits': 2, 'number_bit_pairs': 4}
NONDEFAULT = {'min_radius': (2, 3), 'max_radius': (2, 6), 'length': (64, 4096), 'number_active_bits': (1, 3),
              'number_bit_pairs': (1, 0, 6)}
_L5 = ('min_radius', 'max_radius', 'length', 'number_active_bits', 'number_bit_pairs')
DOC_ORDER = {'linear_fingerprint': _L5, 'linear_bit_set': _L5, 'linear_hash_set': (_L5[0], _L5[1], _L5[4]),
             'linear_hash_smiles': (_L5[0], _L5[1], _L5[4]), 'linear_smiles_hash': (_L5[0], _L5[1], _L5[4]),
             '_chains': _L5[:2], '_fragments': _L5[:2], 'morgan_fingerprint': _L5[:4], 'morgan_bit_set': _L5[:4],
             'morgan_hash_set': _L5[:2], 'morgan_hash_smiles': _L5[:2], 'morgan_smiles_hash': _L5[:2], '_morgan_hash_dict': _L5[:2]}
FORWARD_MOLS = ['CCCCCCCC', 'OCC(N)CC(=O)Oc1ccccc1', 'CC(C)(C)CC(C)(C)C']
FORWARD_OP = {'linear_fingerprint': 'lbs', 'linear_bit_set': 'lbs', 'linear_hash_set': 'lhs', 'linear_hash_smiles': 'lhs',
              'linear_smiles_hash': 'lhs', '_chains': 'chains', '_fragments': 'frags', 'morgan_fingerprint': 'mbs',
              'morgan_bit_set': 'mbs', 'morgan_hash_set': 'mhs', 'morgan_hash_smiles': 'mhs', 'morgan_smiles_hash': 'mhs',
              '_morgan_hash_dict': 'mdict'}


def forward_observe(meth, v, full):
    """canonical observable of a call result, in the shape `parse_model(FORWARD_OP[meth], …)` has"""
    if meth.endswith('_fingerprint'):
        if len(v) != full['length'] or any(int(x) not in (0, 1) for x in v):
            return ('shape', len(v))
        return ('ok', [i for i, x in enumerate(v) if x])
    if meth.endswith('_hash_smiles'):
        return ('ok', sorted(v))
    if meth.endswith('_smiles_hash'):
        return ('ok', sorted({h for hs in v.values() for h in hs}))
    if meth == '_fragments':
        return ('ok', sorted((tuple(k), _frag_list(tuple(k), ps)) for k, ps in v.items()))
    if meth == '_morgan_hash_dict':
        return ('ok', [sorted(x.items()) for x in v])
    if meth == '_chains':
        return ('ok', sorted(tuple(q) for q in v))
    return ('ok', sorted(v))


def forward_call(mol, meth, args, kwargs):
    try:
        v = getattr(mol, meth)(*args, **kwargs)
    except Exception as e:  # noqa
        return (_err(e), None)
    return v


def forward_property(mol, meth, full, v):
    """documentation-level oracle for one call whose *effective* parameters are `full` (the documented defaults overridden
    by what the caller passed): None if the clause holds, else a description. Never consults the Lean model."""
    lo, hi, length, nab, nbp = (full[k] for k in ('min_radius', 'max_radius', 'length', 'number_active_bits', 'number_bit_pairs'))
    if isinstance(v, tuple) and len(v) == 2 and isinstance(v[0], str) and v[1] is None:
        return f'raised {v[0]} inside the documented grid'
    lin = meth.startswith('linear') or meth in ('_chains', '_fragments')
    hashes = oracle_linear_hashes(mol, lo, hi, nbp) if lin else oracle_morgan(mol, lo, hi)
    if meth.endswith('_fingerprint'):
        got, exp = (len(v), {i for i, x in enumerate(v) if x}), (length, oracle_bits(hashes, length, nab))
    elif meth.endswith('_bit_set'):
        got, exp = set(v), oracle_bits(hashes, length, nab)
    elif meth.endswith('_hash_set') or meth.endswith('_hash_smiles'):
        got, exp = set(v), hashes
    elif meth.endswith('_smiles_hash'):
        got, exp = {h for hs in v.values() for h in hs}, hashes
    elif meth == '_chains':
        got, exp = {min(tuple(q), tuple(q)[::-1]) for q in v}, oracle_paths(mol, lo, hi)
    elif meth == '_fragments':
        got, exp = {k: len(ps) for k, ps in v.items()}, oracle_fragment_counts(mol, lo, hi)
    elif meth == '_morgan_hash_dict':
        got, exp = (len(v), {h for d in v for h in d.values()}), (hi - lo + 1, hashes)
    else:
        return None
    if got != exp:
        return f'result is not the documented one for the effective parameters {full}'
    return None


def forward_cases(sigs):
    """(method, form, args, kwargs, effective parameters, varied parameter) — every parameter of every entry point at each
    non-default value, once by keyword (everything else defaulted) and once positionally (the preceding parameters spelled
    out at their defaults); plus all parameters non-default at once, all-positional and all-keyword"""
    for meth in sigs:
        names = list(DOC_ORDER[meth])     # positional calls follow the DOCUMENTED order, not the regenerated one
        dflt = DOC_DEFAULTS
        for i, nm in enumerate(names):
            for v in NONDEFAULT[nm]:
                full = dict(DOC_DEFAULTS)
                full[nm] = v
                yield meth, 'kw', (), {nm: v}, full, nm
                yield meth, 'pos', tuple(dflt[n] for n in names[:i]) + (v,), {}, full, nm
        for j in (0, 1):
            vals = {n: NONDEFAULT[n][j] for n in names}
            if vals.get('min_radius', 1) > vals.get('max_radius', 9):
                vals['max_radius'] = 6
            full = dict(DOC_DEFAULTS)
            full.update(vals)
            yield meth, 'pos', tuple(vals[n] for n in names), {}, full, '*'
            yield meth, 'kw', (), dict(vals), full, '*'
            if len(names) > 2:
                yield meth, 'mixed', tuple(vals[n] for n in names[:2]), {n: vals[n] for n in names[2:]}, full, '*'


def forwarding_stream(ctx):
    """tie of the regenerated call-graph table (`Gen.C17.calls`): the *runtime* effect of every parameter of every entry
    point, in positional and keyword form, against the Lean model at the effective parameters and against the
    documentation-level oracle"""
    from chython import smiles
    from chython.algorithms.fingerprints.linear import LinearFingerprint
    from chython.algorithms.fingerprints.morgan import MorganFingerprint
    d = _state.get('defaults')
    if not d:
        return
    for nm_, vals in d.items():
        if nm_ not in DOC_ORDER or [n for n, _ in vals] != list(DOC_ORDER[nm_]):
            ctx.broke('translator', 'forwarding', f'{nm_}: parameters {[n for n, _ in vals]} are not the documented ones '
                      f'{list(DOC_ORDER.get(nm_, ()))} (in this order)')
            return
    mols = [(s, smiles(s)) for s in FORWARD_MOLS]
    # the two abstract `_atom_identifiers` are placeholders: they must stay overridden (Fingerprints / FingerprintsCGR)
    for cls in (LinearFingerprint, MorganFingerprint):
        try:
            cls._atom_identifiers.fget(mols[0][1])
            ctx.broke('correspondence', cls.__name__ + '._atom_identifiers', 'the abstract placeholder returned a value')
        except NotImplementedError:
            ctx.count(('abstract-ident', cls.__name__), True)
        except Exception as e:  # noqa
            ctx.broke('correspondence', cls.__name__ + '._atom_identifiers', f'placeholder raised {type(e).__name__}')
    cases = list(forward_cases(d))
    lines, meta = [], []
    for name, mol in mols:
        line = wire.mol_to_line(mol)
        for meth, form, args, kwargs, full, varied in cases:
            op = FORWARD_OP[meth]
            order = {'lbs': ('min_radius', 'max_radius', 'length', 'number_active_bits', 'number_bit_pairs'),
                     'mbs': ('min_radius', 'max_radius', 'length', 'number_active_bits'),
                     'lhs': ('min_radius', 'max_radius', 'number_bit_pairs')}.get(op, ('min_radius', 'max_radius'))
            params = tuple(full[k] for k in order)
            dparams = tuple(DOC_DEFAULTS[k] for k in order)
            lines.append(model_line(op, params, line))
            lines.append(model_line(op, dparams, line))
            meta.append((name, mol, line, meth, form, args, kwargs, full, varied, op, params))
    resp = run_driver('C17', lines) if ctx.build_ok else None
    effective = set()
    for i, (name, mol, line, meth, form, args, kwargs, full, varied, op, params) in enumerate(meta):
        v = forward_call(mol, meth, args, kwargs)
        failed = isinstance(v, tuple) and len(v) == 2 and isinstance(v[0], str) and v[1] is None
        real = v if failed else forward_observe(meth, v, full)
        ctx.count(('forward', meth, form, args, tuple(sorted(kwargs.items())), name), True)
        ctx.dist('op:forward/' + form)
        what = forward_property(mol, meth, full, v)
        inp = {'kind': 'forward', 'method': meth, 'args': list(args), 'kwargs': kwargs, 'smiles': name}
        if what:
            ctx.cov['disagreements_checked'] += 1
            ctx.fail(f'C17/parameter-forwarding/{meth}', f'{name}.{meth}(*{list(args)}, **{kwargs}): {what}', inp)
        if resp is None:
            continue
        model, model_default = parse_model(op, resp[2 * i]), parse_model(op, resp[2 * i + 1])
        if model != model_default:
            effective.add((meth, varied))
        if model != real:
            ctx.cov['disagreements_checked'] += 1
            ctx.broke('correspondence', meth + '/forwarding', f'{name}.{meth}(*{list(args)}, **{kwargs}) ({form}) differs from the '
                      f'model at {params}: real={_short(real, 120)} model={_short(model, 120)}')
            if op in ENTRY:
                _remember(ctx, _shrink_note(op, params, name, line), mol)
    if resp is not None:
        for meth, vals in d.items():
            for n, _ in vals:
                if (meth, n) not in effective:
                    ctx.broke('correspondence', meth + '/forwarding', f'no case in which {n} changes the result of {meth}: '
                              f'the stream cannot see this parameter')


# ------------------------------------------------------------------------------------------------
# locality of the Morgan identifiers (tie of `morgan_identifier_local` / `morgan_dict_local`)
# ------------------------------------------------------------------------------------------------

def _distances(mol, x):
    dist, frontier = {x: 0}, [x]
    while frontier:
        nxt = []
        for u in frontier:
            for v in mol._bonds[u]:
                if v not in dist:
                    dist[v] = dist[u] + 1
                    nxt.append(v)
        frontier = nxt
    return dist


def locality_cases(ctx, mols):
    """(name, molecule, perturbed copy, atom x, rounds r, kind): the copy differs from the molecule only outside the r-ball
    of x — the data of an atom farther than r bonds away, or the order of a bond between two atoms both at distance >= r
    (so every neighbour dict within r-1 bonds is untouched); kind 'inside' perturbs an atom at distance exactly r instead
    (the identifier of r rounds is then expected to change — shows the radius in the theorem is sharp)"""
    rng = ctx.rng
    for name, mol in mols:
        atoms = list(mol._atoms)
        if len(atoms) < 3:
            continue
        x = rng.choice(atoms)
        dist = _distances(mol, x)
        for r in (0, 1, 2, 3):
            far = [y for y in atoms if dist.get(y, 10 ** 6) > r]
            rim = [y for y in atoms if dist.get(y) == r and (r > 0 or True)]
            far_bonds = [(u, v) for u in atoms for v in mol._bonds[u] if u < v and dist.get(u, 10 ** 6) >= r
                         and dist.get(v, 10 ** 6) >= r]
            if far:
                y = rng.choice(far)
                c = mol.copy()
                a = c._atoms[y]
                k = rng.randrange(3)
                if k == 0:
                    a._charge = a._charge + (1 if a._charge < 3 else -1)
                elif k == 1:
                    a._is_radical = not a._is_radical
                else:
                    a._isotope = (a._isotope or 0) + 1 if a._isotope else 1 + a.atomic_number * 2
                yield name, mol, c, x, r, 'far-atom'
            if far_bonds and r >= 1:
                u, v = rng.choice(far_bonds)
                c = mol.copy()
                b = c._bonds[u][v]
                b._order = 1 + (int(b) % 3)
                yield name, mol, c, x, r, 'far-bond'
            if rim:
                y = rng.choice(rim)
                c = mol.copy()
                c._atoms[y]._charge = c._atoms[y]._charge + (1 if c._atoms[y]._charge < 3 else -1)
                yield name, mol, c, x, r, 'inside'


def locality_stream(ctx, mols):
    cases = list(locality_cases(ctx, mols))
    lines = []
    for name, mol, c, x, r, kind in cases:
        lines.append(model_line('mdict', (r + 1, r + 1), wire.mol_to_line(mol)))
        lines.append(model_line('mdict', (r + 1, r + 1), wire.mol_to_line(c)))
    resp = run_driver('C17', lines) if ctx.build_ok else None
    changed_inside = 0
    for i, (name, mol, c, x, r, kind) in enumerate(cases):
        try:
            a, b = mol._morgan_hash_dict(r + 1, r + 1), c._morgan_hash_dict(r + 1, r + 1)
        except Exception as e:  # noqa
            ctx.broke('correspondence', '_morgan_hash_dict/locality', f'{name}: raised {type(e).__name__}')
            continue
        ctx.count(('locality', kind, r, x, wire.mol_to_line(c)), True)
        ctx.dist('op:locality/' + kind)
        if resp is not None:
            for mm, real, rr in ((mol, a, resp[2 * i]), (c, b, resp[2 * i + 1])):
                if parse_model('mdict', rr) != ('ok', [sorted(d.items()) for d in real]):
                    ctx.cov['disagreements_checked'] += 1
                    ctx.broke('correspondence', '_morgan_hash_dict', f'{name} (locality stream, radius {r + 1}) differs from the model')
                    _remember(ctx, _shrink_note('mdict', (r + 1, r + 1), name, wire.mol_to_line(mm)), mm)
        if kind == 'inside':
            changed_inside += a[0][x] != b[0][x]
            continue
        if a[0][x] != b[0][x]:
            ctx.cov['disagreements_checked'] += 1
            exp = oracle_morgan(mol, r + 1, r + 1) == set(a[0].values()) and oracle_morgan(c, r + 1, r + 1) == set(b[0].values())
            inp = {'kind': 'locality', 'mol': wire.mol_to_ints(mol), 'mol2': wire.mol_to_ints(c), 'atom': x, 'radius': r + 1}
            if not exp:
                ctx.fail('C17/morgan-set/_morgan_hash_dict', f'{name}: the radius-{r + 1} identifier of atom {x} changed under a '
                         f'{kind} perturbation outside its {r}-bond ball and the dicts differ from the iterated neighbourhood identifiers', inp)
            else:
                ctx.broke('relational', 'locality/_morgan_hash_dict', f'{name}: radius-{r + 1} identifier of atom {x} changed under a '
                          f'{kind} perturbation outside its {r}-bond ball (harness perturbation wrong?)')
    if cases and any(k == 'inside' for *_, k in cases) and changed_inside == 0:
        ctx.broke('relational', 'locality/_morgan_hash_dict', 'no perturbation at distance exactly r changed an identifier of r '
                  'rounds: the locality stream is not looking at the identifiers')


# ------------------------------------------------------------------------------------------------
# iteration order of the intermediate sets (tie of fragments_iteration_order_free / active_bits_iteration_order_free)
# ------------------------------------------------------------------------------------------------

def iteration_order_stream(ctx, mols):
    """CPython's set order cannot be chosen from outside, so the two loops that iterate over a set are fed the same members
    in shuffled orders: `_fragments` over a permuted `_chains` result, the folding loop over a permuted (and repeated) hash
    collection. Real code vs real code; the results must not change."""
    from chython.algorithms.fingerprints.linear import LinearFingerprint
    from chython.algorithms.fingerprints.morgan import MorganFingerprint
    rng = ctx.rng
    for name, mol in mols:
        lo = rng.randint(1, 3)
        hi = rng.randint(lo, 5)
        nbp = rng.choice([0, 1, 2, 4])
        length, nab = rng.choice([16, 64, 1024, 1000]), rng.choice([1, 2, 3, 4])
        cls = type(mol)
        try:
            chains = sorted(mol._chains(lo, hi))
            base_frag = sorted((k, len(v)) for k, v in mol._fragments(lo, hi).items())
            base_lhs = sorted(mol.linear_hash_set(lo, hi, nbp))
            base_lbs = sorted(mol.linear_bit_set(lo, hi, length, nab, nbp))
            mhs = sorted(mol.morgan_hash_set(lo, hi))
            base_mbs = sorted(mol.morgan_bit_set(lo, hi, length, nab))
        except Exception as e:  # noqa
            ctx.broke('correspondence', 'iteration-order', f'{name}: raised {type(e).__name__}')
            continue
        for j in range(2):
            perm = list(chains)
            rng.shuffle(perm)
            lperm = list(base_lhs) + base_lhs[:3]
            rng.shuffle(lperm)
            mperm = list(mhs) + mhs[:3]
            rng.shuffle(mperm)
            owner = next(c for c in cls.__mro__ if '_chains' in c.__dict__)
            saved = owner.__dict__['_chains']
            try:
                owner._chains = lambda self, a=1, b=4, _p=perm: list(_p)
                frag = sorted((k, len(v)) for k, v in mol._fragments(lo, hi).items())
                lhs = sorted(mol.linear_hash_set(lo, hi, nbp))
            finally:
                owner._chains = saved

            class L(LinearFingerprint):
                def linear_hash_set(self, *a, **k):
                    return lperm

            class M(MorganFingerprint):
                def morgan_hash_set(self, *a, **k):
                    return mperm
            lbs = sorted(L().linear_bit_set(lo, hi, length, nab, nbp))
            mbs = sorted(M().morgan_bit_set(lo, hi, length, nab))
            ctx.count(('iter-order', j, lo, hi, nbp, length, nab, wire.mol_to_line(mol)), len(chains) > 1)
            ctx.dist('op:iteration-order')
            for what, a, b in (('_fragments', frag, base_frag), ('linear_hash_set', lhs, base_lhs),
                               ('linear_bit_set', lbs, base_lbs), ('morgan_bit_set', mbs, base_mbs)):
                if a != b:
                    ctx.cov['disagreements_checked'] += 1
                    ctx.broke('relational', 'iteration-order/' + what, f'{name}: {what}({lo},{hi},…) depends on the order in which '
                              f'the intermediate set is iterated')
                    _remember(ctx, _shrink_note('lbs', (lo, hi, length, nab, nbp), name, wire.mol_to_line(mol)), mol)


def probe(inp):
    """Re-execute ONE input on the real code: does the property fail on it?"""
    kind = inp.get('kind')
    if kind == 'history':
        try:
            mol, post, ref = run_history(inp)
        except Exception as e:
            return False, f'edit sequence not applicable: {type(e).__name__}: {e}'
        bad = [op for op in post if post[op] != ref[op]]
        if bad:
            op = bad[0]
            return True, (f'{inp["smiles"]}: after fingerprint -> {inp["edits"]} -> fingerprint on the same object, '
                          f'{", ".join(ENTRY[o] for o in bad)} differ from a freshly built molecule with the same atoms and bonds '
                          f'(params {inp["params"]}); e.g. {ENTRY[op]}: {_short(post[op], 120)} vs {_short(ref[op], 120)}')
        return False, 'results after the edits equal those of a freshly built molecule'
    if kind == 'forward':
        from chython import smiles
        mol = smiles(inp['smiles'])
        full = dict(DOC_DEFAULTS)
        meth = inp['method']
        names = DOC_ORDER[meth]
        full.update(dict(zip(names, inp['args'])))
        full.update(inp['kwargs'])
        v = forward_call(mol, meth, tuple(inp['args']), dict(inp['kwargs']))
        what = forward_property(mol, meth, full, v)
        return bool(what), (f'{inp["smiles"]}.{meth}(*{inp["args"]}, **{inp["kwargs"]}): {what}' if what
                            else 'the call gives the documented result for its effective parameters')
    if kind == 'locality':
        mol, _ = wire.ints_to_mol(inp['mol'])
        mol2, _ = wire.ints_to_mol(inp['mol2'])
        r, x = inp['radius'], inp['atom']
        bad = [m for m in (mol, mol2) if {h for d in m._morgan_hash_dict(r, r) for h in d.values()} != oracle_morgan(m, r, r)]
        return bool(bad), ('_morgan_hash_dict differs from the iterated neighbourhood identifiers' if bad
                           else 'identifiers are the documented ones on both molecules')
    if kind == 'fold':
        res = list(fold_checks(inp['length'], inp['nab'], inp['hashes']))
        return bool(res), '; '.join(w for _, w in res) or 'folding follows the documented windows and stays below length'
    if kind == 'cgr':
        try:
            res = cgr_checks(inp)
        except Exception as e:
            return False, f'case not constructible: {type(e).__name__}: {e}'
        return bool(res), '; '.join(w for _, w in res) or 'all clauses hold on this condensed reaction graph'
    if kind == 'dict-keys':
        mol, _ = wire.ints_to_mol(inp['mol'], calc=True)
        op, params = inp['op'], tuple(inp['params'])
        d = real_eval(op, params, mol)
        hs = real_eval({'lhsm': 'lhs', 'mhsm': 'mhs'}[op], params, mol)
        bad = d[0] != 'ok' or [k for k, _ in d[1]] != hs[1]
        return bad, f'{ENTRY[op]}{params} keys {"differ from" if bad else "equal"} the hash set'
    if kind == 'numbering':
        needs_labels = inp['op'] in ('lhsm', 'mhsm')
        mol, _ = wire.ints_to_mol(inp['mol'], calc=needs_labels)
        mol2, _ = wire.ints_to_mol(inp['mol2'], calc=needs_labels)
        op, params = inp['op'], tuple(inp['params'])
        a, b = _numbering_free(op, real_eval(op, params, mol)), _numbering_free(op, real_eval(op, params, mol2))
        if not in_grid(*_full_params(op, params)):
            return False, 'parameters outside the documented grid'
        return a != b, (f'{ENTRY[op]}{params} differs between the two numberings: {_short(a, 150)} vs {_short(b, 150)}'
                        if a != b else f'{ENTRY[op]}{params} equal for both numberings')
    mol, _ = wire.ints_to_mol(inp['mol'])
    p = tuple(inp['params'])
    res = list(property_checks(mol, *p))
    if inp.get('mol2'):
        mol2, _ = wire.ints_to_mol(inp['mol2'])
        res += list(numbering_checks(mol, mol2, *p))
    return bool(res), '; '.join(w for _, w in res) or 'all clauses hold on this input'
