"""C06 helper — the real source of chython/algorithms/rings.py executed under ascending-order set semantics.

`_bfs`, `_is_condensed_ring`, `_connected_rings` iterate over / unpack `set`s of atom numbers, i.e. in CPython hash-table
order, which the property does not fix and the Lean model (Model/C06Pid.lean) does not reproduce: the model iterates in
ascending order. To compare the model with the code statement by statement, the file *as it is in the repository on
this run* is parsed, every set-valued expression (`set(...)`, `{...}`, set comprehensions, `&`, `|`, `-`, `^` whose result
is a `set`) is wrapped into `SortedSet` (a `set` subclass whose iteration and `pop()` are ascending), and the rewritten
module is executed. Nothing else is changed: every statement of the heuristic, and therefore every edit made to it, runs.
"""
import ast
import operator
import types


class SortedSet(set):
    __slots__ = ()

    def __iter__(self):
        return iter(sorted(set.__iter__(self)))

    def pop(self):
        x = min(set.__iter__(self))
        set.discard(self, x)
        return x

    def copy(self):
        return SortedSet(set.__iter__(self))


def _binop(op, a, b):
    r = op(a, b)
    return SortedSet(set.__iter__(r)) if isinstance(r, set) and not isinstance(r, SortedSet) else r


class _Rewrite(ast.NodeTransformer):
    OPS = {ast.BitAnd: 'and_', ast.BitOr: 'or_', ast.Sub: 'sub', ast.BitXor: 'xor'}

    def visit_Set(self, node):
        self.generic_visit(node)
        return ast.copy_location(ast.Call(ast.Name('__SortedSet', ast.Load()), [ast.List(node.elts, ast.Load())], []), node)

    def visit_SetComp(self, node):
        self.generic_visit(node)
        return ast.copy_location(ast.Call(ast.Name('__SortedSet', ast.Load()),
                                          [ast.GeneratorExp(node.elt, node.generators)], []), node)

    def visit_BinOp(self, node):
        self.generic_visit(node)
        name = self.OPS.get(type(node.op))
        if name is None:
            return node
        return ast.copy_location(ast.Call(ast.Name('__binop', ast.Load()),
                                          [ast.Attribute(ast.Name('__operator', ast.Load()), name, ast.Load()),
                                           node.left, node.right], []), node)

    def visit_Call(self, node):
        self.generic_visit(node)
        if isinstance(node.func, ast.Name) and node.func.id == 'set':
            node.func = ast.copy_location(ast.Name('__SortedSet', ast.Load()), node.func)
        return node


_cache = {}


def load():
    """the rewritten module (cached per process); raises if the file cannot be parsed / executed"""
    if 'mod' not in _cache:
        from chython.algorithms import rings
        path = rings.__file__
        with open(path) as f:
            src = f.read()
        tree = _Rewrite().visit(ast.parse(src, path))
        ast.fix_missing_locations(tree)
        mod = types.ModuleType('chython.algorithms._rings_sorted_semantics')
        mod.__package__ = 'chython.algorithms'
        mod.__file__ = path
        mod.__dict__.update({'__SortedSet': SortedSet, '__binop': _binop, '__operator': operator})
        exec(compile(tree, path, 'exec'), mod.__dict__)
        _cache['mod'] = mod
    return _cache['mod']


STAGES = ('_skin_graph', '_bfs', '_make_pid', '_c_set', '_rings_filter')


def canon(r):
    """dihedral canonical form of a ring (independent of the code's `_canonic_ring`)"""
    r = list(r)
    if len(r) < 3:
        return tuple(r)
    i = r.index(min(r))
    a = r[i:] + r[:i]
    b = [a[0]] + a[:0:-1]
    return tuple(min(a, b))


def show(rs):
    return ';'.join(','.join(map(str, r)) for r in rs)


def pid_fields(bonds, n_sssr, extra=()):
    """`_sssr(bonds, n_sssr)` stage by stage under sorted-set semantics.
    paths: the `_bfs` result; cands: the `_c_set` sequence (`!` where the generator raises); final: `_rings_filter`;
    `final<k>`: `_rings_filter` asked for `k` rings instead (k in `extra`), on the same candidate sequence."""
    S = load()
    out = {}
    try:
        paths = S._bfs(S._skin_graph(bonds))
        out['paths'] = show(paths)
    except Exception as e:
        return {'paths': 'raise', 'cands': 'raise', 'final': 'raise', 'exc': type(e).__name__}
    try:
        pid = S._make_pid(paths)
    except Exception as e:
        out['cands'] = out['final'] = 'raise'
        out['exc'] = type(e).__name__
        return out
    cands, rings, raised = [], [], False
    try:
        gen = S._c_set(*pid)
    except Exception as e:
        out['cands'] = out['final'] = 'raise'
        out['exc'] = type(e).__name__
        return out
    while True:
        try:
            c = next(gen)
        except StopIteration:
            break
        except Exception as e:
            raised = True
            out['exc'] = type(e).__name__
            break
        rings.append(c)
        cands.append(','.join(map(str, c)))
    out['cands'] = ';'.join(cands + (['!'] if raised else []))

    def replay():   # the same lazily generated sequence, for each requested n_sssr
        yield from rings
        if raised:
            raise RuntimeError('_c_set raised here')
    for key, n in [('final', n_sssr)] + [(f'final{k}', k) for k in extra]:
        try:
            out[key] = 'ok ' + show(S._rings_filter(replay(), n))
        except S.ImplementationError:
            out[key] = 'notreached'
        except Exception as e:
            out[key] = 'raise'
            out.setdefault('exc', type(e).__name__)
    return out
