"""Independent reference reader for C03's failing-input search and standing relational stream.

Written from the OpenSMILES grammar (not from chython's code), restricted to the scope the property names:

    smiles        ::= chain
    chain         ::= branched_atom ( (bond | '.')? branched_atom )*
    branched_atom ::= atom ringbond* (branch ringbond*)*      (OpenSMILES: atom ringbond* branch*; see `tail`)
    branch        ::= '(' (bond | '.')? chain ')'
    ringbond      ::= bond? ( DIGIT | '%' DIGIT DIGIT )
    atom          ::= organic | aromatic | '[' isotope? symbol chiral? hcount? charge? class? ']'
    bond          ::= '-' | '=' | '#' | ':' | '/' | '\\'

Scope decisions (documented in design/C03.md): isotope 1-3 digits without leading zero; chirality `@`/`@@` only; hydrogen
count H, H0..H4; charges `+`/`-` repeated up to four times or followed by one digit 1..4; atom class 1-4 digits; ring
numbers 0..9 and %00..%99; no `*`, no `$`, no `~`.
`parse(text)` returns `Graph(atoms, bonds)` or raises `Reject`.
"""
import re

ORGANIC = ['Cl', 'Br', 'B', 'C', 'N', 'O', 'P', 'S', 'F', 'I']
AROMATIC = ['b', 'c', 'n', 'o', 'p', 's']
AROMATIC_BRACKET = ['se', 'as', 'te', 'b', 'c', 'n', 'o', 'p', 's']
BONDS = {'-': 1, '=': 2, '#': 3, ':': 4, '/': None, '\\': None}


class Reject(Exception):
    pass


def element_numbers():
    from rdkit import Chem
    pt = Chem.GetPeriodicTable()
    return {pt.GetElementSymbol(z): z for z in range(1, 119)}


_EL = None


def elements():
    global _EL
    if _EL is None:
        _EL = element_numbers()
    return _EL


class Atom:
    __slots__ = ('z', 'aromatic', 'isotope', 'charge', 'hcount', 'cls', 'chiral', 'bracket')

    def __init__(self, z, aromatic=False, isotope=None, charge=0, hcount=None, cls=None, chiral=None, bracket=False):
        self.z, self.aromatic, self.isotope, self.charge = z, aromatic, isotope, charge
        self.hcount, self.cls, self.chiral, self.bracket = hcount, cls, chiral, bracket


class Graph:
    def __init__(self):
        self.atoms = []
        self.bonds = {}       # (i, j) with i < j  ->  order
        self.dots = 0
        self.dir_conflict = False

    def add_bond(self, i, j, order):
        if i == j:
            raise Reject('ring bond to the same atom')
        k = (min(i, j), max(i, j))
        if k in self.bonds:
            raise Reject('two bonds between the same atoms')
        self.bonds[k] = order


_bracket = re.compile(r'(?P<iso>[1-9][0-9]{0,2})?(?P<sym>[A-Z][a-z]?|[a-z][a-z]?)(?P<chi>@@?)?(?P<h>H[0-4]?)?'
                      r'(?P<chg>\+{1,4}|-{1,4}|[+-][1-4])?(?P<cls>:[0-9]{1,4})?')


def bracket_atom(body):
    m = _bracket.fullmatch(body)
    if not m:
        raise Reject(f'bracket atom [{body}]')
    sym = m.group('sym')
    if sym in AROMATIC_BRACKET:
        aromatic, sym = True, sym.capitalize()
    elif sym[0].islower():
        raise Reject(f'symbol {sym}')
    else:
        aromatic = False
    if sym not in elements():
        raise Reject(f'element {sym}')
    chg = m.group('chg')
    if not chg:
        q = 0
    elif len(chg) == 2 and chg[1].isdigit():
        q = int(chg[1]) * (1 if chg[0] == '+' else -1)
    else:
        q = len(chg) * (1 if chg[0] == '+' else -1)
    h = m.group('h')
    hc = 0 if not h else (1 if len(h) == 1 else int(h[1]))
    return Atom(elements()[sym], aromatic, int(m.group('iso')) if m.group('iso') else None, q, hc,
                int(m.group('cls')[1:]) if m.group('cls') else None,
                None if not m.group('chi') else m.group('chi'), True)


class Parser:
    def __init__(self, text):
        self.t, self.i = text, 0
        self.g = Graph()
        self.rings = {}       # number -> (atom index, bond symbol or None)
        self.ring_zero = False  # ring number 0 or %0n used (legal OpenSMILES)

    def peek(self):
        return self.t[self.i] if self.i < len(self.t) else ''

    def atom(self):
        c = self.peek()
        if c == '[':
            j = self.t.find(']', self.i)
            if j < 0:
                raise Reject('unclosed [')
            body = self.t[self.i + 1:j]
            self.i = j + 1
            a = bracket_atom(body)
        else:
            for s in ORGANIC:
                if self.t.startswith(s, self.i):
                    self.i += len(s)
                    a = Atom(elements()[s])
                    break
            else:
                if c and c in AROMATIC:
                    self.i += 1
                    a = Atom(elements()[c.upper()], True)
                else:
                    raise Reject(f'atom expected at {self.i}')
        self.g.atoms.append(a)
        return len(self.g.atoms) - 1

    def bond_symbol(self):
        c = self.peek()
        if c and c in BONDS:
            self.i += 1
            return c
        return None

    def order(self, sym, i, j):
        if sym is None or BONDS[sym] is None:
            return 4 if self.g.atoms[i].aromatic and self.g.atoms[j].aromatic else 1
        return BONDS[sym]

    def ringbonds(self, a):
        while True:
            save = self.i
            sym = self.bond_symbol()
            c = self.peek()
            if c.isdigit() and c.isascii():
                n = int(c)
                self.i += 1
            elif c == '%':
                d = self.t[self.i + 1:self.i + 3]
                if len(d) != 2 or not (d.isdigit() and d.isascii()):
                    raise Reject('%nn expected')
                n = int(d)
                self.i += 3
            else:
                self.i = save
                return
            self.ring_zero = self.ring_zero or n == 0 or (c == '%' and n < 10)
            if n in self.rings:
                b, bsym = self.rings.pop(n)
                if bsym in ('/', '\\') and sym == bsym:
                    self.g.dir_conflict = True   # X/1 ... Y/1 : the two ends contradict each other
                s1 = bsym if bsym not in ('/', '\\') else None
                s2 = sym if sym not in ('/', '\\') else None
                if bsym in ('/', '\\') and sym not in (None, '/', '\\', '-'):
                    raise Reject('ring bond conflict')
                if sym in ('/', '\\') and bsym not in (None, '/', '\\', '-'):
                    raise Reject('ring bond conflict')
                if s1 and s2 and s1 != s2:
                    raise Reject('ring bond conflict')
                self.g.add_bond(b, a, self.order(s1 or s2, b, a))
            else:
                self.rings[n] = (a, sym)

    def link(self, prev):
        """(bond | dot)? branched_atom, bonded to prev"""
        if self.peek() == '.':
            self.i += 1
            self.g.dots += 1
            a = self.branched_atom()
            return a
        sym = self.bond_symbol()
        a = self.atom()
        self.g.add_bond(prev, a, self.order(sym, prev, a))
        self.tail(a)
        return a

    def branched_atom(self):
        a = self.atom()
        self.tail(a)
        return a

    def tail(self, a):
        # OpenSMILES writes `atom ringbond* branch*`; Daylight toolkits, RDKit and the strings shipped in the repository
        # also put ring bonds after a branch (`C(C)1CC1`), so ring bonds and branches may interleave here.
        self.ringbonds(a)
        while self.peek() == '(':
            self.i += 1
            last = self.link(a)
            self.chain_rest(last)
            if self.peek() != ')':
                raise Reject(') expected')
            self.i += 1
            self.ringbonds(a)

    def chain_rest(self, last):
        while self.peek() not in ('', ')'):
            last = self.link(last)
        return last

    def run(self):
        if not self.t:
            raise Reject('empty')
        last = self.branched_atom()
        self.chain_rest(last)
        if self.i != len(self.t):
            raise Reject(f'unexpected {self.peek()!r} at {self.i}')
        if self.rings:
            raise Reject('unclosed ring')
        self.g.ring_zero = self.ring_zero
        return self.g


def parse(text):
    return Parser(text).run()


def view(g):
    """comparable view: per-atom (Z, isotope, charge, class, bracket hydrogen count) + bond dict"""
    atoms = [(a.z, a.isotope, a.charge, a.cls if a.cls else None, a.hcount if a.bracket else None) for a in g.atoms]
    return atoms, dict(g.bonds)
