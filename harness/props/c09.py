"""C09 — accelerated (compiled, bit-mask) matcher and reference matcher return the same mappings (proof level).

Tie
  G  Gen/BitLayout.lean (every literal of the two encoders of isomorphism.py; statement skeletons, struct formats and the three
     mask conditions of _isomorphism.pyx are pinned), Gen/PeriodicTable.lean (mdl isotopes, isotope keys), Gen/QueryTables.lean
     (element flags of AnyMetal) — regenerated on every run.
  P  Props/C09.lean.
  K  executable Lean model (Model/BitLayout.lean on top of C07's Iso.lean and C08's QueryEq.lean) vs the real code, in-process,
     with the translated extension (`pyx2py`) installed:
       ea  one molecule atom  -> words of `_cython_compiled_structure`      (exhaustive per field, pairwise across fields)
       eq  one query atom (+ query bond) -> masks of `_cython_compiled_query` (exhaustive per field, pairwise across fields)
       es  whole molecules -> decoded structure buffer (atoms, offsets, bond words, indices)
       ec  whole queries   -> decoded component buffers (masks, back, closure counts, closure bonds)
       mt  (query atom [+bond], atom [+bond]) -> model mask test, model pyEq, real 1-/2-atom search through BOTH real paths
       gm  (query, molecule, flags, scope) -> real accelerated path, real reference path, model of each (4-way, sorted multisets)
Search: property-level oracle on the real code only: `q.get_mapping(m)` vs `q.get_mapping(m, _cython=False)` (mappings as sorted
multisets, exception classes) on the pair generators, the single-pair grid and the neighbourhood of disagreeing cases.
"""
import itertools
import math
import struct

from .. import core, molgen
from ..gen import gen_bitlayout, gen_c09alloc, gen_c09cache, gen_periodic, gen_query

LEVEL = 'proof'
LEVEL_TEXT = ('The claim "both matcher configurations return the same mappings" is a theorem about the executable models the driver '
              'runs: for ALL well-formed queries and molecules of the documented domain, all target-component lists, scopes and both '
              'automorphism_filter settings, the model of the accelerated path (both encoders, the .pyx matcher, the shared glue) neither '
              'raises nor differs from the model of the reference path (C07 matcher with C08 comparisons): same mappings, same order '
              '(cython_search_eq_python_search). Its parts: the mask test on the encoded words equals `query_atom == atom` / '
              '`query_bond == bond` for all atoms and bonds, the closure counter equals the closure-set test, the buffer layouts, both '
              'loops are one generic depth-first search. The models are tied to the source by regenerated literals and by differential '
              'execution of every encoder field exhaustively and of both real paths on generated (query, molecule) pairs. Proof is the '
              'right level because the quantifier (all elements x charges x isotope offsets x counts x ring sizes, all pairs) is closed '
              'by the theorems, not sampled; the documented gaps of the layout are excluded by an explicit domain predicate, kept visible '
              'as a false full statement with witnesses, and reported as known findings. Memory safety of the matcher is part of the '
              'model: every access to the five arrays get_mapping allocates is guarded by the element counts regenerated from the '
              'PyMem_Malloc / memset expressions of the .pyx, and compiled_matcher_memory_safe proves that no guard fails on any buffer '
              'the structure encoder can produce (stack pointer <= query atoms x molecule atoms); compiled_matcher_returns_normally adds that '
              'on the encoders\' outputs every buffer read (incl. the reads of the yielded mapping) is in range and the search ends.')
LEVEL_NOTE = ('Lean kernel; hand-written model validated by correspondence (not a proof about the Python/Cython text); gen_bitlayout, '
              'gen_periodic, gen_query translators; the compiled extension cannot be built here: `_isomorphism.pyx` runs through the '
              'pyx2py rendering (C integer semantics emulated; out-of-bounds accesses raise), so memory safety is proved of the model with '
              'the regenerated allocation sizes and tied by the tracked-array stream, not of the compiled artefact itself; the stereo '
              'post-filter of QueryIsomorphism.get_mapping is code shared by both paths and is only compared, not modelled.')
TECHNIQUE = ('Lean 4 theorems over an executable model of the bit layout and both matchers (the compiled one with every array access '
             'guarded by the allocation sizes regenerated from the .pyx) + regenerated literals + differential execution incl. tracked arrays')
HAS_DRIVER = True
EXTRA_MODULES = []
FINDINGS_MODULE = 'ChythonModel.Findings.C09'
RULE = ('ea: every element 1-118 x every tabulated isotope, charge -4..4, radical, H None/0..6, neighbours 0..16, heteroatoms 0..14, '
        'hybridisation 1..4, ring sizes 3..70 and ring-size sets, one field at a time and every pair of fields (all value pairs, sampled '
        'in quick); eq: element / list / any / any-metal heads x isotope window -10..+10 x charge x radical x every tuple shape of '
        'neighbours / hybridisation / ring sizes / H / heteroatoms x 31 order sets x 3 ring marks, per field and pairwise; es/ec: corpus, '
        'handmade, ring assemblies, decorated graphs, SMARTS with every primitive, patterns cut from targets; mt: query grid x atom grid; '
        'gm: SMARTS x molecules, cut patterns (ring closures, random label flags), multi-component patterns, scopes, both '
        'automorphism_filter settings; ga: hypervalent hubs, stars (3..10 leaves), cliques K3..K7, K3,3, a wheel and cages x star / '
        'chain / ring queries without element constraints and patterns cut from the targets, rendered matcher with tracked arrays vs the '
        'guarded model (highest stack pointer, pushes, yields; scratch array all-zero at every yield and at the end); gb: the same pairs with '
        'corrupted buffers (duplicated bond rows, indices / ranges outside the buffers, non-earlier parents, short scope) — the guards of '
        'the model vs the IndexError of the rendering. A case is one encoder call / one pair / one search; non-trivial when it constrains something '
        '(not the default atom) resp. the search has at least one candidate root; distinct by canonical wire form.')
TRUSTED = ['gen_bitlayout translator (AST of isomorphism.py, text of _isomorphism.pyx)', 'gen_periodic / gen_query translators',
           'gen_c09alloc translator (PyMem_Malloc / memset size expressions of _isomorphism.pyx)',
           'pyx2py rendering of _isomorphism.pyx (C unsigned arithmetic, struct views)',
           'C07 model Iso.lean and C08 model QueryEq.lean (validated by their own checks)']
ASSUMPTIONS = ['molecule `_bonds` is symmetric (bonds_count * 2 = number of adjacency entries)',
               'atom labels (neighbors, hybridization, ring sizes, in_ring) are inputs: their computation is C08/C06',
               'structures have fewer than 2^32 atoms and atom numbers below 2^32 (struct field width)']

_state = {}

SIG_HEAVY = 'C09/superheavy-elements-share-one-bit'
SIG_HNONE = 'C09/unknown-hydrogen-count-encoded-as-zero'
SIG_H5 = 'C09/hydrogen-count-above-4-unrepresentable'

SIG_RING = 'C09/ring-size-above-65'
SIG_NB = 'C09/neighbour-count-above-14'


# ------------------------------------------------------------------------------------------------
# regenerate
# ------------------------------------------------------------------------------------------------

def generate(ctx):
    paths = [gen_periodic.generate()[0]]
    try:
        # C08's table (element flags used by C08's `notMetal`); its translator also parses the SMARTS tokenizer, which is not
        # this property's business: when it cannot, the committed table stays and `anyMetal_flags_agree` (Props/C09.lean) ties
        # it to the flags re-extracted here
        paths.append(gen_query.generate())
    except Exception as e:
        _state['gen_query_error'] = f'{type(e).__name__}: {e}'
    p, info = gen_bitlayout.generate()
    _state['layout'] = info
    pc, cinfo = gen_c09cache.generate()
    _state['cache'] = cinfo
    pa, ainfo = gen_c09alloc.generate()
    _state['alloc'] = ainfo
    return paths + [p, pc, pa]


def install():
    from ..gen import pyx2py
    pyx2py.install()


# ------------------------------------------------------------------------------------------------
# wire encoders
# ------------------------------------------------------------------------------------------------

def L(xs):
    xs = list(xs)
    return [len(xs)] + xs


def tri(v):
    return -1 if v is None else int(bool(v))


def enc_matom(a):
    h = a.implicit_hydrogens
    return [a.atomic_number, -1 if a.isotope is None else a.isotope, a.charge, int(a.is_radical), a.neighbors, a.hybridization] \
        + L(sorted(a.ring_sizes)) + [-1 if h is None else h, a.heteroatoms]


def enc_qatom(q):
    from chython.periodictable import AnyElement, AnyMetal, ListElement
    if isinstance(q, AnyMetal):
        return [3, 0, -1, 0, 0, 0] + L(q.neighbors) + L(q.hybridization) + [0, 0, 0, -1, int(q.masked)]
    if isinstance(q, AnyElement):
        head = [1, 0, -1, 0]
    elif isinstance(q, ListElement):
        head = [2, 0, -1] + L(q.atomic_numbers)
    else:
        head = [0, q.atomic_number, -1 if q.isotope is None else q.isotope, 0]
    return head + [q.charge, int(q.is_radical)] + L(q.neighbors) + L(q.hybridization) + L(q.ring_sizes) \
        + L(q.implicit_hydrogens) + L(q.heteroatoms) + [tri(q.stereo), int(q.masked)]


def enc_qbond(b):
    return L(b.order) + [tri(b.in_ring), tri(b.stereo)]


def lmol_ints(mol):
    out = [len(mol._atoms)]
    for n, a in mol._atoms.items():
        ms = mol._bonds[n]
        out += [n] + enc_matom(a) + [len(ms)]
        for m, b in ms.items():
            out += [m, b.order, int(bool(b.in_ring))]
    return out


def lquery_ints(q):
    out = [len(q._atoms)]
    for n, a in q._atoms.items():
        ms = q._bonds[n]
        out += [n] + enc_qatom(a) + [len(ms)]
        for m, b in ms.items():
            out += [m] + enc_qbond(b)
    return out


def line(op, ints):
    return op + ' ' + ' '.join(map(str, ints))


# ------------------------------------------------------------------------------------------------
# rebuilding objects from wire ints (replays, probes, synthetic atoms)
# ------------------------------------------------------------------------------------------------

class _It:
    def __init__(self, xs):
        self.xs, self.i = list(xs), 0

    def one(self):
        v = self.xs[self.i]
        self.i += 1
        return v

    def lst(self):
        k = self.one()
        return [self.one() for _ in range(k)]


def make_atom(z, iso, charge, rad, nb, hyb, rings, h, het):
    from chython.periodictable import Element
    cls = Element.from_atomic_number(z)
    a = cls(None, charge=charge, is_radical=bool(rad), implicit_hydrogens=h)
    a._isotope = iso  # the public setter validates against the isotope table; generators only pass tabulated isotopes
    a._neighbors, a._hybridization, a._heteroatoms = nb, hyb, het
    a._ring_sizes = set(rings)
    a._in_ring = bool(rings)
    a._explicit_hydrogens = 0
    return a


def read_matom(it):
    z, iso, ch, rad, nb, hyb = (it.one() for _ in range(6))
    rs = it.lst()
    h, het = it.one(), it.one()
    return make_atom(z, None if iso < 0 else iso, ch, rad, nb, hyb, rs, None if h < 0 else h, het)


def make_qatom(kind, z=0, iso=None, zs=(), charge=0, rad=False, nb=(), hyb=(), rs=(), ih=(), het=(), stereo=None, masked=False):
    from chython.periodictable import AnyElement, AnyMetal, ListElement, QueryElement, Element
    if kind == 3:
        q = AnyMetal()
    elif kind == 1:
        q = AnyElement()
    elif kind == 2:
        q = ListElement([Element.from_atomic_number(x).__name__ for x in zs])
    else:
        q = QueryElement.from_atomic_number(z)()
        q._isotope = iso
    q._neighbors, q._hybridization, q._masked = tuple(nb), tuple(hyb), bool(masked)
    if kind != 3:
        q._charge, q._is_radical = charge, bool(rad)
        q._ring_sizes, q._implicit_hydrogens, q._heteroatoms = tuple(rs), tuple(ih), tuple(het)
        q._stereo = stereo
    return q


def read_qatom(it):
    kind, z, iso = it.one(), it.one(), it.one()
    zs = it.lst()
    ch, rad = it.one(), it.one()
    nb, hy, rs, ih, he = it.lst(), it.lst(), it.lst(), it.lst(), it.lst()
    st, mk = it.one(), it.one()
    return make_qatom(kind, z, None if iso < 0 else iso, zs, ch, rad, nb, hy, rs, ih, he, None if st < 0 else bool(st), mk)


def make_qbond(orders, in_ring=None, stereo=None):
    from chython.containers.bonds import QueryBond
    b = object.__new__(QueryBond)
    b._order, b._in_ring, b._stereo = tuple(orders), in_ring, stereo
    return b


def read_qbond(it):
    os_ = it.lst()
    ir, st = it.one(), it.one()
    return make_qbond(os_, None if ir < 0 else bool(ir), None if st < 0 else bool(st))


def ints_to_lmol(xs):
    from chython import MoleculeContainer
    from chython.containers.bonds import Bond
    it = _It(xs)
    mol = MoleculeContainer()
    rows = []
    for _ in range(it.one()):
        n = it.one()
        a = read_matom(it)
        nb = [(it.one(), it.one(), it.one()) for _ in range(it.one())]
        mol._atoms[n] = a
        mol._bonds[n] = {}
        rows.append((n, nb))
    for n, nb in rows:
        for m, o, ir in nb:
            if m in mol._bonds and n in mol._bonds[m]:
                mol._bonds[n][m] = mol._bonds[m][n]
            else:
                b = Bond(o)
                b._in_ring = bool(ir)
                mol._bonds[n][m] = b
    return mol


def ints_to_lquery(xs):
    from chython.containers import QueryContainer
    it = _It(xs)
    q = QueryContainer('')
    rows = []
    for _ in range(it.one()):
        n = it.one()
        a = read_qatom(it)
        nb = []
        for _ in range(it.one()):
            m = it.one()
            nb.append((m, read_qbond(it)))
        q._atoms[n] = a
        q._bonds[n] = {}
        rows.append((n, nb))
    for n, nb in rows:
        for m, b in nb:
            if m in q._bonds and n in q._bonds[m]:
                q._bonds[n][m] = q._bonds[m][n]
            else:
                q._bonds[n][m] = b
    return q


# ------------------------------------------------------------------------------------------------
# real side
# ------------------------------------------------------------------------------------------------

HDR, MATOM, QATOM, BOND = struct.Struct('<I'), struct.Struct('<QQQQIII'), struct.Struct('<QQQQIIIII'), struct.Struct('<QI')


def exc_name(e):
    return type(e).__name__


def decode_mol(buf):
    n = HDR.unpack_from(buf, 0)[0]
    atoms = [MATOM.unpack_from(buf, 4 + 44 * i) for i in range(n)]
    rest = len(buf) - 4 - 44 * n
    if rest % 12:
        raise ValueError('structure buffer length')
    bonds = [BOND.unpack_from(buf, 4 + 44 * n + 12 * j) for j in range(rest // 12)]
    return atoms, bonds


def decode_query(buf):
    n = HDR.unpack_from(buf, 0)[0]
    atoms = [QATOM.unpack_from(buf, 4 + 52 * i) for i in range(n)]
    rest = len(buf) - 4 - 52 * n
    if rest % 12:
        raise ValueError('query buffer length')
    bonds = [BOND.unpack_from(buf, 4 + 52 * n + 12 * j) for j in range(rest // 12)]
    return atoms, bonds


def real_structure(mol):
    """('ok', atoms, bonds) | ('err', ExcName) — the cached property is bypassed (fresh evaluation)"""
    from chython.algorithms.isomorphism import MoleculeIsomorphism
    f = MoleculeIsomorphism.__dict__['_cython_compiled_structure']
    f = getattr(f, 'func', None) or getattr(f, 'fget', None) or f
    try:
        buf = f(mol)
    except Exception as e:
        return ('err', exc_name(e))
    a, b = decode_mol(buf)
    return ('ok', a, b)


def real_query(q):
    """fresh `_compiled_query` and `_cython_compiled_query` (no earlier Python-path search has touched the closures dict)"""
    from chython.algorithms.isomorphism import QueryIsomorphism, _compile_query
    q.__dict__.pop('_compiled_query', None)
    q.__dict__.pop('_cython_compiled_query', None)
    f = QueryIsomorphism.__dict__['_cython_compiled_query']
    f = getattr(f, 'func', None) or getattr(f, 'fget', None) or f
    try:
        bufs = f(q)
    except Exception as e:
        q.__dict__.pop('_compiled_query', None)
        return ('err', exc_name(e))
    q.__dict__.pop('_compiled_query', None)
    return ('ok', [decode_query(b) for b in bufs])


def one_atom_mol(a):
    from chython import MoleculeContainer
    m = MoleculeContainer()
    m._atoms[1] = a
    m._bonds[1] = {}
    return m


def two_atom_mol(a1, a2, order, in_ring):
    from chython import MoleculeContainer
    from chython.containers.bonds import Bond
    m = MoleculeContainer()
    b = Bond(order)
    b._in_ring = in_ring
    m._atoms[1], m._atoms[2] = a1, a2
    m._bonds[1], m._bonds[2] = {2: b}, {1: b}
    return m


def one_atom_query(qa):
    from chython.containers import QueryContainer
    q = QueryContainer('')
    q._atoms[1] = qa
    q._bonds[1] = {}
    return q


def two_atom_query(q1, q2, qb):
    from chython.containers import QueryContainer
    q = QueryContainer('')
    q._atoms[1], q._atoms[2] = q1, q2
    q._bonds[1], q._bonds[2] = {2: qb}, {1: qb}
    return q


def canon_maps(it):
    return sorted(tuple(sorted(d.items())) for d in it)


def run_path(q, m, cy, auto=True, scope=None):
    """('ok', sorted multiset of mappings) | ('err', ExcName)"""
    try:
        return ('ok', canon_maps(q.get_mapping(m, automorphism_filter=auto, searching_scope=scope, _cython=cy)))
    except Exception as e:
        return ('err', exc_name(e))


def fresh(q):
    for k in ('_compiled_query', '_cython_compiled_query'):
        q.__dict__.pop(k, None)


def has_dict(o):
    return hasattr(o, '__dict__')


# ------------------------------------------------------------------------------------------------
# documented domain D and the known gaps (features outside D)
# ------------------------------------------------------------------------------------------------

def q_iso_offset(qa):
    from chython.periodictable import QueryElement
    if isinstance(qa, QueryElement) and qa.isotope:
        return qa.isotope - qa.mdl_isotope
    return None


def features(q, m):
    """known gaps of the layout present in this (query, molecule) pair — [] means the pair is inside the documented domain"""
    from chython.periodictable import AnyMetal, ListElement, QueryElement, AnyElement
    out = []
    matoms = [a for _, a in m.atoms()]
    qatoms = [a for _, a in q.atoms()]
    heavy_m = any(a.atomic_number >= 116 for a in matoms)
    heavy_q = any(isinstance(x, AnyMetal) or (isinstance(x, ListElement) and any(z >= 116 for z in x.atomic_numbers))
                  or (isinstance(x, QueryElement) and x.atomic_number >= 116) for x in qatoms)
    if heavy_m and heavy_q:
        out.append(SIG_HEAVY)
    ext = [x for x in qatoms if not isinstance(x, AnyMetal)]
    if any(a.implicit_hydrogens is None for a in matoms) and any(x.implicit_hydrogens for x in ext):
        out.append(SIG_HNONE)
    if any((a.implicit_hydrogens or 0) > 4 for a in matoms) or any(h > 4 for x in ext for h in x.implicit_hydrogens):
        out.append(SIG_H5)
    if any(r > 65 for a in matoms for r in a.ring_sizes) or any(r > 65 for x in ext for r in x.ring_sizes):
        out.append(SIG_RING)
    if any(a.neighbors > 14 or a.heteroatoms > 14 for a in matoms):
        out.append(SIG_NB)
    return out


# ------------------------------------------------------------------------------------------------
# generators
# ------------------------------------------------------------------------------------------------

def isotopes_of(z):
    from chython.periodictable import Element
    cls = Element.from_atomic_number(z)
    return sorted(cls.isotopes_distribution.fget(None))


RING_SETS = [[], [3], [4], [5], [6], [5, 6], [3, 4], [6, 7], [8], [12], [5, 6, 7], [65], [66], [6, 66], [66, 70], [3, 65], [64, 65, 70]]

ATOM_FIELDS = {
    'z': list(range(1, 119)),
    'charge': list(range(-4, 5)),
    'rad': [0, 1],
    'h': [None, 0, 1, 2, 3, 4, 5, 6],
    'nb': list(range(0, 17)),
    'het': list(range(0, 15)),
    'hyb': [1, 2, 3, 4],
    'rings': [[r] for r in range(3, 71)] + RING_SETS,
}
ATOM_DEFAULT = dict(z=6, iso=None, charge=0, rad=0, h=0, nb=0, het=0, hyb=1, rings=[])


def atom_from(d):
    return make_atom(d['z'], d['iso'], d['charge'], d['rad'], d['nb'], d['hyb'], d['rings'], d['h'], d['het'])


def atom_grid(ctx):
    """dicts of atom attributes: one field at a time (exhaustive), isotopes of every element, pairs of fields, random full combos"""
    rng = ctx.rng
    out = []
    for f, vals in ATOM_FIELDS.items():
        for v in vals:
            out.append({**ATOM_DEFAULT, f: v})
    for z in range(1, 119):
        for iso in isotopes_of(z):
            out.append({**ATOM_DEFAULT, 'z': z, 'iso': iso})
            out.append({**ATOM_DEFAULT, 'z': z, 'iso': iso, 'rad': 1})
    fields = sorted(ATOM_FIELDS)
    for f, g in itertools.combinations(fields, 2):
        pairs = list(itertools.product(range(len(ATOM_FIELDS[f])), range(len(ATOM_FIELDS[g]))))
        cap = 500 if ctx.quick else 4000
        if len(pairs) > cap:
            pairs = rng.sample(pairs, cap)
        for i, j in pairs:
            out.append({**ATOM_DEFAULT, f: ATOM_FIELDS[f][i], g: ATOM_FIELDS[g][j]})
    for _ in range(6000 if ctx.quick else 30000):
        d = {f: rng.choice(v) for f, v in ATOM_FIELDS.items()}
        d['iso'] = rng.choice([None, None] + isotopes_of(d['z']))
        out.append(d)
    return out


TUPLES14 = [[]] + [[i] for i in range(15)] + [[0, 1], [1, 2], [2, 3], [3, 4], [0, 4], [1, 2, 3], [0, 14], [13, 14], [0, 1, 2, 3, 4], list(range(15))]
H_TUPLES = TUPLES14 + [[5], [4, 5], [0, 5], [9], [14], [0, 9]]
HYB_TUPLES = [[]] + [list(c) for k in (1, 2, 3, 4) for c in itertools.combinations([1, 2, 3, 4], k)]
QRING_TUPLES = [[], [0]] + [[r] for r in range(3, 71)] + [[5, 6], [3, 4], [6, 7], [5, 6, 7], [3, 65], [65, 66], [66, 70], [6, 66], [3, 4, 5, 6, 7, 8]]
ORDER_SETS = [list(c) for k in (1, 2, 3, 4, 5) for c in itertools.combinations([1, 2, 3, 4, 8], k)]
LISTS = [[6, 7], [7, 8, 16], [9, 17, 35, 53], [6, 57], [57, 71], [1, 56], [56, 57], [116, 6], [117, 118], [6, 118], [26, 29, 30], [3, 11, 19],
         [116], [118], [55, 56, 57, 58], [6]]

QUERY_FIELDS = {
    'head': [('e', z) for z in range(1, 119)] + [('a', 0), ('m', 0)] + [('l', tuple(x)) for x in LISTS],
    'isooff': [None, 0] + list(range(-10, 11)),
    'charge': list(range(-4, 5)),
    'rad': [0, 1],
    'nb': TUPLES14,
    'hyb': HYB_TUPLES,
    'rs': QRING_TUPLES,
    'ih': H_TUPLES,
    'het': TUPLES14,
    'bond': [None] + [(tuple(o), r) for o in ORDER_SETS for r in (None, True, False)],
}
QUERY_DEFAULT = dict(head=('e', 6), isooff=None, charge=0, rad=0, nb=[], hyb=[], rs=[], ih=[], het=[], bond=None)


def qatom_from(d):
    """-> (query atom, query bond | None). `isooff`: None = no isotope, 0 = isotope 0 (falsy), else mdl + offset"""
    kind, v = d['head']
    k = {'e': 0, 'a': 1, 'l': 2, 'm': 3}[kind]
    iso = None
    if kind == 'e' and d['isooff'] is not None:
        from chython.periodictable import QueryElement
        mdl = QueryElement.from_atomic_number(v)().mdl_isotope
        iso = 0 if d.get('isozero') else mdl + d['isooff']
        if iso < 0:
            iso = None
    qa = make_qatom(k, z=v if kind == 'e' else 0, iso=iso, zs=v if kind == 'l' else (), charge=d['charge'], rad=d['rad'],
                    nb=d['nb'], hyb=d['hyb'], rs=d['rs'], ih=d['ih'], het=d['het'])
    qb = None if d['bond'] is None else make_qbond(d['bond'][0], d['bond'][1])
    return qa, qb


def query_grid(ctx):
    rng = ctx.rng
    out = []
    for f, vals in QUERY_FIELDS.items():
        for v in vals:
            out.append({**QUERY_DEFAULT, f: v})
    # isotope window for several elements, isotope 0
    for z in (1, 6, 8, 17, 35, 50, 56, 57, 92, 116, 118):
        for off in range(-10, 11):
            out.append({**QUERY_DEFAULT, 'head': ('e', z), 'isooff': off})
            out.append({**QUERY_DEFAULT, 'head': ('e', z), 'isooff': off, 'rad': 1})
        out.append({**QUERY_DEFAULT, 'head': ('e', z), 'isooff': 0, 'isozero': True})
    fields = sorted(QUERY_FIELDS)
    for f, g in itertools.combinations(fields, 2):
        pairs = list(itertools.product(range(len(QUERY_FIELDS[f])), range(len(QUERY_FIELDS[g]))))
        cap = 400 if ctx.quick else 3000
        if len(pairs) > cap:
            pairs = rng.sample(pairs, cap)
        for i, j in pairs:
            out.append({**QUERY_DEFAULT, f: QUERY_FIELDS[f][i], g: QUERY_FIELDS[g][j]})
    for _ in range(6000 if ctx.quick else 30000):
        out.append({f: rng.choice(v) for f, v in QUERY_FIELDS.items()})
    return out


def molecules(ctx):
    if 'mols' in _state:
        return _state['mols']
    rng = ctx.rng
    mols = list(molgen.handmade())
    mols += molgen.corpus(rng, 150 if ctx.quick else 1500)
    extra = ['[Fe]', 'Cl[Fe](Cl)Cl', 'C[Pd]C', '[He]', 'C[Hg]C', '[13CH3]O', '[2H]C', 'C[N+](=O)[O-]', 'c1ccccc1[CH2] |^1:6|',
             'C1CC1C1CCC1', 'C1CCC2(CC1)CCCC2', 'C12C3C4C1C5C2C3C45', 'O=S(=O)(O)O', 'N#CC#N', 'C=C=C=C', 'c1ccc2[nH]ccc2c1',
             'C1CCCCCCCCCCCCC1', 'OC(=O)c1ccccc1O', '[Na+].[O-]c1ccccc1', 'C1=CC=C1', '[CH2]C=C |^1:0|', 'P(=O)(O)(O)O',
             '[Cu+2].[O-]C(=O)C.[O-]C(=O)C', 'C1CC2CCC1C2', 'c1ccc2cc3ccccc3cc2c1', 'CC(C)(C)(C)C', 'CCO.CCN.CCS', 'CC.CC.CC',
             'CN(C)[O] |^1:3|', '[O]O[O] |^1:0,2|', 'CN(C)O', 'OOO', '[H]C([H])([H])C', '[2H]C([2H])O', 'C[13CH2][O] |^1:3|', 'C[CH]C |^1:1|',
             'C[NH] |^1:1|', '[CH2]CC[CH2] |^1:0,3|', 'CNC', 'C1CC1.C1CC1', 'OCC(O)CO', 'NC(=O)C(N)=O', '[La]', '[Ba]', '[Cs+].[I-]', '[U](F)(F)(F)(F)(F)F', '[Lu]', 'Cl[Hf](Cl)(Cl)Cl',
             '[Mc]', '[Fl]', '[14CH3][14CH3]', '[12CH4]', '[18OH2]', 'C1CCCCCCCCCCCCCCCCCCCCCCCCCCCCCCCCCCCCCCCCCCCCCCCCCCCCCCCCCCCCCCCCCCCC1',
             'C1CCCCCCCCCCCCCCCCCCCCCCCCCCCCCCCCCCCCCCCCCCCCCCCCCCCCCCCCCCCCCCCC1']
    for s in extra:
        m = molgen.parse(s)
        if m is not None:
            mols.append((s, m))
    graphs = []
    for n in (3, 4, 5):
        graphs += list(molgen.small_graphs(n))
    for i in range(30 if ctx.quick else 500):
        e = rng.choice(graphs)
        try:
            mols.append((f'decorated{i}', molgen.decorate(rng, e)))
        except Exception:
            continue
    for i in range(15 if ctx.quick else 200):
        try:
            mols.append((f'rings{i}', molgen.from_edges(molgen.ring_assembly(rng))))
        except Exception:
            continue
    for name, m in list(mols[:60 if ctx.quick else 400]):
        try:
            r, _ = molgen.renumber(rng, m)
            mols.append((name + '/renum', r))
        except Exception:
            continue
    mols += coord_targets(ctx)[:60 if ctx.quick else 400]
    ok = []
    for name, m in mols:
        try:
            for _, a in m.atoms():
                a.neighbors, a.hybridization, a.ring_sizes, a.heteroatoms
            ok.append((name, m))
        except Exception:
            try:
                m.calc_labels()
                ok.append((name, m))
            except Exception:
                continue
    _state['mols'] = ok
    return ok


SMARTS = [
    '[C]', '[N]', '[O]', '[A]', '[M]', '[C,N]', '[N,O,S]', '[#6]', '[#7,#8]', '[Cl]', '[F,Cl,Br,I]', '[C+]', '[N+]', '[O-]', '[13C]', '[2H]',
    '[C;D1]', '[C;D2]', '[C;D3]', '[C;D4]', '[C;D1,D2]', '[N;D2,D3]', '[C;h0]', '[C;h1]', '[C;h2]', '[C;h3]', '[C;h1,h2]', '[N;h0,h1]',
    '[C;r3]', '[C;r5]', '[C;r6]', '[C;r5,r6]', '[C;!R]', '[A;r6]', '[C;x0]', '[C;x1]', '[C;x2]', '[C;x1,x2]', '[C;z1]', '[C;z2]', '[C;z3]',
    '[C;a]', '[N;a]', '[A;a]', '[C;z1,z2]', '[M;D1]', '[M;D2,D3]', '[M;z1]', '[A;D3;r6]', '[C;D3;h1;z1]', '[N;D1;h2]', '[O;D1;x0;z2]',
    'CC', 'C=C', 'C#C', 'C:C', 'C~C', 'C-,=C', 'C-,:C', 'C!-C', 'C-;@C', 'C-;!@C', 'C@C', 'C!@C', 'CO', 'C=O', 'CN', 'C#N', '[C;D2]-[N,O]',
    'CCC', 'CC(C)C', 'CC(C)(C)C', 'C(O)=O', 'C(=O)N', 'C(=O)[O;D1]', 'c1ccccc1', 'C1CC1', 'C1CCC1', 'C1CCCC1', 'C1CCCCC1', 'c1ccncc1',
    'c1cc[nH]c1'.replace('[nH]', '[N;a;h1]'), 'C1CC2CC1CC2', 'C12CC1C2', 'C1CC11CC1', '[C;a]:[C;a]:[N;a]', '[A]1[A][A][A][A][A]1', '[A]~[A]~[A]',
    'C.C', 'C.N', 'CC.O', 'CO.CN', 'C.C.C', 'C1CC1.C', '[Na+].[O-]', '[M].[A]', 'CC.CC', '[C;D1].[C;D1]', 'C(C)(C)(C)C', 'C=CC=C', 'N#CC#N',
    'C[N+](=O)[O-]', '[C;D2;r5]1[C;D2][C][C][C]1', 'C1=CC=CC=C1', '[C;z2]=[C;z2]', '[C,N;D2]-[C,O;D1]', '[A;h1,h2]-[A;h0]', 'C-[M]', '[M]-,=[A]',
    '[C] |^1:0|', '[O;D1][N;D3] |^1:0|', '[C,N;D2] |^1:0|', '[A]C |^1:0|', '[13C] |^1:0|', '[O;D1][O;D2][O;D1] |^1:0,2|', '[A] |^1:0|',
    'C[C] |^1:1|', '[N,O;D1]-[A] |^1:0|', '[2H]C', '[H]C', '[A;h0;D1]', 'C-[H]',
    '[Fe]', '[La]', '[Ba]', '[Lu]', '[Hf]', '[U]', '[Cs,I]', '[La,C]', '[Ba,La]', '[C;r14]', '[C;r66]', '[C;r65]', '[C;h5]', '[21C]', '[4C]',
]


# patterns that embed into the target only non-induced (a bond between matched atoms is absent from the pattern), fused / caged
# targets, symmetric patterns with many automorphisms, hexacoordinated centres (stack depth)
TRICKY_PAIRS = [
    ('C1CCCC1', 'C1CC2CC12'), ('C1CCCCC1', 'C12C3C4C1C5C2C3C45'), ('C1CCC1', 'C12CC1C2'), ('C1CCCC1', 'C12CC1CC2'), ('CCCC', 'C1CCC1'),
    ('CCC', 'C1CC1'), ('C1CCCCC1', 'C1CC2CCC1C2'), ('C1CCCCCC1', 'C1CC2CCC1CC2'), ('C1CCCCC1', 'C1CC2CC1CC2'), ('CC(C)C', 'C1CC1C'),
    ('[A]1[A][A][A][A]1', 'C1CC2CC12'), ('[A]1[A][A][A][A][A]1', 'c1ccc2ccccc2c1'), ('C1CCCCCCCCC1', 'C1CCC2CCCCC2C1'),
    ('c1ccccc1', 'c1ccc2ccccc2c1'), ('C1CC1', 'C12C3C1C23'), ('C1CCC1', 'C12C3C4C1C5C2C3C45'), ('FS(F)(F)(F)F', 'FS(F)(F)(F)(F)F'),
    ('F[P-](F)(F)(F)F', 'F[P-](F)(F)(F)(F)F'), ('C1CC1.C1CC1', 'C1CC1C1CC1'), ('C1CCCC1', 'C1CC2CCC1C2'), ('N1CCCC1', 'C1CN2CC12'),
    ('C1CCCC1', 'C1C2CC1C2'), ('C1CCC1', 'C1C2CC1C2'), ('C1CC1', 'C1C2CC12'),
]


# cage / multiply bridged targets: a candidate for a ring-closing query atom can have MORE matched neighbours than the query
# has closures (rejected by the counter) and a later candidate the right number but the wrong partners — the only situation in
# which the scratch array `closures[]` of the .pyx must really have been zeroed
CAGES = ['C1C2C3CC1C23', 'C1C2C3C1C3C2', 'C1CC2CC3CC1C23', 'C1C2C1C1CC21', 'C1C2C3CC4C1C4C23', 'C1CC2C3CCC3C2C1',
         'C1C2CC3CC1CC(C2)C3', 'C12C3C4C1C5C2C3C45', 'C1CC2CCC1C2', 'C1CC2CCC1CC2', 'C12C3C1C1C2C31', 'C1CCC2CCCCC2C1',
         'C1CC2CC12', 'C12CC1C2', 'C1C2CC1C2', 'C1C2C1C2', 'C1CC2(C1)CC2', 'C1CC2CC1C2', 'C1C2CC3C1C3C2', 'C1CC2C3CC1C23',
         'C1C2C3C4C1C5C2C5C34', 'C1CC2C1C1CC21', 'C1C2C3C2C13', 'C1CC23CC2C13', 'N1C2C3CC1C23', 'O1C2C3CC1C23', 'CC1C2C3CC1C23',
         'C1CC2C3CC(C1)C23', 'C1C2CC3C1CC23',
         # quadricyclane, basketane, prismane, oxa-quadricyclane, homocubane, [1.1.1]propellane, [2.2.2]propellane, twistane-like
         'C1C2C3C2C4C1C34', 'C1CC2C3C4C1C5C2C3C45', 'C12C3C1C4C2C34', 'O1C2C3C2C4C1C34', 'C1C2C3C4C1C5C2C3C45', 'C1C23CC12C3',
         'C1CC23CCC12CC3', 'C1C2C3C2C4C1C34C', 'N1C2C3C2C4C1C34']
RING_QUERIES = ['[#6]1[#6][#6]1', '[#6]1[#6][#6][#6]1', '[#6]1[#6][#6][#6][#6]1', '[#6]1[#6][#6][#6][#6][#6]1',
                '[#6]1[#6][#6][#6][#6][#6][#6]1', '[#6]1[#6][#6]([#6])[#6]1', 'CC1CCC1', 'CC1CCCC1', 'CC1CC1', 'C1CC1C', 'CC1CCCCC1',
                'C1CCC1', 'C1CCCC1', 'C1CCCCC1', '[A]1[A][A][A]1', '[A]1[A][A][A][A]1', 'C1CC(C)CC1C', 'C1C(C)C1C', 'C(C)1CC(C)C1',
                'C1CC2CC12', 'C1CC2CCC12', 'C1CC2CC2C1', 'C1CCC2CC2C1', '[A]1[A][A]2[A][A]12', 'C1CC1C1CC1', 'CC1(C)CC1',
                'C-,=1CCC1', 'C1CCOC1', 'C1CC2C3CC1C23', 'C1C2CC1C2', '[A]1[A][A]2[A][A]2[A]1']


def cage_targets(ctx):
    if 'cages' in _state:
        return _state['cages']
    rng = ctx.rng
    out = []
    for s in CAGES:
        m = molgen.parse(s)
        if m is not None:
            out.append((s, m))
    try:
        for name, m in molgen.test_files():
            if name.startswith('cycle.sdf') and 3 <= len(m) <= 40:
                out.append((name, m))
    except Exception:
        pass
    # bridged / fused / spiro assemblies, keeping the polycyclic ones
    tries = 0
    want = 25 if ctx.quick else 250
    while sum(1 for n, _ in out if n.startswith('assembly')) < want and tries < 40 * want:
        tries += 1
        try:
            m = molgen.from_edges(molgen.ring_assembly(rng, max_rings=4))
        except Exception:
            continue
        if m.rings_count >= 2 and len(m) <= 24:
            out.append((f'assembly{tries}', m))
    for name, m in list(out[:12 if ctx.quick else 40]):
        try:
            r, _ = molgen.renumber(rng, m)
            out.append((name + '/renum', r))
        except Exception:
            continue
    _state['cages'] = out
    return out


def cage_pairs(ctx):
    """every ring query x every cage target (both filter settings on the first pass), and cyclic patterns cut from the cages —
    induced and with one cycle bond dropped — searched in their source and in other cages"""
    rng = ctx.rng
    cages = cage_targets(ctx)
    qs = [(s, parse_smarts(s)) for s in RING_QUERIES]
    qs = [(s, q) for s, q in qs if q is not None]
    for qs_, q in qs:
        for name, m in cages:
            if name.endswith('/renum') and rng.random() < 0.5:
                continue
            yield (f'{qs_} @ {name}', q, m, False, None)
    for name, m in cages:
        if m.rings_count < 2:
            continue
        for k in range(3 if ctx.quick else 12):
            q = cut_pattern(rng, m, rng.randint(3, min(8, len(m))), drop_cycle_bond=(k % 2 == 0), plain=True)
            if not any(len(q._bonds[n]) >= 2 for n in q._bonds):
                continue
            tname, t = (name, m) if k % 3 else rng.choice(cages)
            yield (f'cagecut({name}) @ {tname}', q, t, rng.random() < 0.3, None)


# worst cases for the matcher's bookkeeping arrays: hypervalent hubs and stars (many candidates per depth wait on the stack at the
# same time), cliques (every atom is a candidate at every depth), cages; searched with star / chain / ring queries without
# element or degree constraints and with patterns cut from the targets
HUBS = ['FS(F)(F)(F)(F)F', 'FP(F)(F)(F)F', 'FI(F)(F)(F)(F)(F)F', 'F[Si-2](F)(F)(F)(F)F', 'CC(C)(C)C', 'CC(C)(C)C(C)(C)C', 'ClS(Cl)(Cl)(Cl)(Cl)Cl',
        'F[P-](F)(F)(F)(F)F', 'CC(C)(C)C(C)(C)C(C)(C)C', 'FS(F)(F)(F)(F)S(F)(F)(F)(F)F', 'C[Si](C)(C)O[Si](C)(C)C', 'FB(F)F', 'F[B-](F)(F)F',
        'O=S(=O)(O)O', 'ClC(Cl)(Cl)C(Cl)(Cl)Cl']
STRESS_QUERIES = ['FS(F)(F)(F)F', 'FS(F)(F)(F)(F)F', '[A]([A])([A])[A]', '[A]([A])([A])([A])[A]', '[A]([A])([A])([A])([A])[A]',
                  '[A]([A])([A])([A])([A])([A])[A]', '[A][A]([A])([A])([A])([A])[A]', '[A][A]', '[A][A][A]', '[A][A][A][A]', '[A][A][A][A][A]',
                  '[A]1[A][A]1', '[A]1[A][A][A]1', '[A]1[A][A][A][A]1', '[A]1[A][A][A][A][A]1', '[A]1[A][A]2[A][A]12', '[A]1[A]2[A]1[A]2',
                  '[A]12[A]3[A]1[A]23', '[A]([A])([A])[A]([A])[A]', '[A]([A])[A]([A])[A]([A])[A]', '[A]1[A][A]1[A]', '[A]', 'F[A]F', 'C[A](C)C',
                  '[A]1[A][A]2[A][A]2[A]1', '[A]([A])([A])([A])[A]([A])([A])[A]']


def stress_targets(ctx):
    if 'stress' in _state:
        return _state['stress']
    out = []
    for s in HUBS + ['C12C3C1C23']:
        m = molgen.parse(s)
        if m is not None:
            out.append((s, m))
    # stars: a hub with k leaves
    for k in range(3, 11):
        try:
            out.append((f'star{k}', molgen.from_edges([(1, i) for i in range(2, k + 2)], elements={1: 'Fe', **{i: 'Cl' for i in range(2, k + 2)}})))
        except Exception:
            pass
    # cliques K3 … K6 (carbon up to degree 4, phosphorus / sulfur above)
    for k, el in ((3, 'C'), (4, 'C'), (5, 'C'), (6, 'P'), (7, 'S')):
        if k == 7 and ctx.quick:
            continue
        try:
            out.append((f'K{k}', molgen.from_edges([(i, j) for i in range(1, k + 1) for j in range(i + 1, k + 1)], elements={i: el for i in range(1, k + 1)})))
        except Exception:
            pass
    # complete bipartite K3,3 and a wheel
    try:
        out.append(('K33', molgen.from_edges([(i, j) for i in (1, 2, 3) for j in (4, 5, 6)])))
        out.append(('wheel5', molgen.from_edges([(1, i) for i in range(2, 7)] + [(i, i + 1) for i in range(2, 6)] + [(6, 2)], elements={1: 'P'})))
    except Exception:
        pass
    out += [(n, m) for n, m in cage_targets(ctx) if not n.startswith('assembly') and len(m) <= 14][:48]
    _state['stress'] = out
    return out


def stress_pairs(ctx):
    rng = ctx.rng
    targets = stress_targets(ctx)
    qs = [(s, parse_smarts(s)) for s in STRESS_QUERIES]
    qs = [(s, q) for s, q in qs if q is not None]
    hubs = set(HUBS)
    for name, m in targets:
        worst = name in hubs or name.startswith(('star', 'K', 'wheel'))
        for qs_, q in (qs if worst or not ctx.quick else rng.sample(qs, 8)):
            if len(q) > len(m):
                continue
            if len(m) >= 7 and len(q) >= 6 and name.startswith('K'):
                continue  # 7!/… mappings: too slow for the rendered matcher
            hub = max(len(b) for b in m._bonds.values())
            qhub = max(len(b) for b in q._bonds.values())
            if math.perm(hub, min(hub, qhub)) > (3000 if ctx.quick else 200000):
                continue  # a star query on a star target has hub!/(hub-k)! embeddings
            scope = None
            if rng.random() < 0.15:
                atoms = list(m._atoms)
                scope = sorted(rng.sample(atoms, rng.randint(1, len(atoms))))
            yield (f'{qs_} @ {name}', q, m, False, scope)
        for k in range(2 if ctx.quick else 6):
            if len(m) < 3:
                continue
            q = cut_pattern(rng, m, rng.randint(3, min(7, len(m))), drop_cycle_bond=(k % 2 == 1), plain=True)
            yield (f'stresscut({name}) @ {name}', q, m, False, None)


# coordination (order 8, "special") bonds: ring perception, `in_ring`, `neighbors`, hybridisation ignore them, so a cycle closed
# through them carries NO ring mark on any of its bonds and its atoms have fewer `neighbors` than graph neighbours — the inputs on
# which a matcher that infers topology from label bits (ring bit, degree bits) goes wrong
COORD = ['[Cu]1~NCCO~1', '[Zn]1~OC(C)=CC(C)=O~1', '[Cu]1~O~[Cu]~O~1', 'C1~CC1', 'N~[Pt](~N)(Cl)Cl', '[Fe]1~NCCN~1', '[Ni]12~NCCN~1CCO~2',
         '[Cu]1~OC(=O)CN~1', '[Pd]1~C=C~1', 'C1CC~CC1', 'C1CCCC~1', 'O1~CCC~O~[Mg]~1', '[Co]1~NCCCN~1',
         'C1C~C1C', 'N1~[Cu]2~NCC1CCO~2', '[Fe]1~C=CC=C~1', 'Cl[Pt]1(Cl)~NCCN~1', 'C~C', 'C~C~C', 'O~[Na]', '[Zn]1~OCCO~1.[Zn]1~OCCO~1',
         'C1=CC=CC=C1~[Cr]', 'c1ccccc1~[Cr]', '[Cu]1~N2CCN~1CC2', 'C1CC2~CC1CC2', 'C1C2~C1C2']
COORD_QUERIES = ['[Cu]~N-C-C-O', 'N-C-C-O', '[Zn]~O-C-C-C-O', 'O~[Zn]~O', '[M]~[A]', '[M]~[N]-C', '[A]~[A]~[A]', 'C~C', '[M]~O-C', 'C-C-C', 'C-C',
                 '[A]-,~[A]', '[M]1~[A][A][A][A]~1', '[M]1~NCCN~1', 'N-C-C-N', '[M]~N-C-C-N', 'C1~CC1', 'C~C-C', '[A]~[A]-[A]-[A]', '[A]-[A]~[A]~[A]',
                 'O~[M]~O', '[M]~[A]~[M]', 'N~[M](~N)Cl', '[A]!~[A]', '[A]!-[A]']


def coord_targets(ctx):
    if 'coord' in _state:
        return _state['coord']
    rng = ctx.rng
    out = []
    for s in COORD:
        m = molgen.parse(s)
        if m is not None:
            out.append((s, m))
    # cyclic skeletons (small graphs, ring assemblies) with a random subset of bonds made special, metals at some vertices
    graphs = [e for n in (3, 4, 5) for e in molgen.small_graphs(n) if len(e) >= len({v for x in e for v in x})]
    want = 40 if ctx.quick else 400
    for i in range(want):
        try:
            edges = rng.choice(graphs) if i % 3 else molgen.ring_assembly(rng, max_rings=3)
            verts = sorted({v for x in edges for v in x})
            metals = set(rng.sample(verts, rng.choice([0, 1, 1, 2]))) if len(verts) > 2 else set()
            els = {v: (rng.choice(['Cu', 'Fe', 'Zn', 'Pd', 'Na']) if v in metals else rng.choice(['C', 'C', 'C', 'N', 'O'])) for v in verts}
            orders = {}
            for a, b in edges:
                special = rng.random() < (0.85 if (a in metals or b in metals) else 0.15)
                orders[(a, b)] = 8 if special else rng.choice([1, 1, 1, 2])
            m = molgen.from_edges(edges, els, orders, calc=False)
            m.calc_labels()
            out.append((f'coord{i}', m))
        except Exception:
            continue
    for name, m in list(out[:10 if ctx.quick else 40]):
        try:
            r, _ = molgen.renumber(rng, m)
            out.append((name + '/renum', r))
        except Exception:
            continue
    _state['coord'] = out
    return out


def coord_pairs(ctx):
    rng = ctx.rng
    targets = coord_targets(ctx)
    qs = [(s, parse_smarts(s)) for s in COORD_QUERIES]
    qs = [(s, q) for s, q in qs if q is not None]
    for qs_, q in qs:
        for name, m in targets:
            if not name.startswith('coord') or rng.random() < 0.35:
                yield (f'{qs_} @ {name}', q, m, False, None)
    for name, m in targets:
        if len(m) < 3:
            continue
        for k in range(4 if ctx.quick else 12):
            q = cut_pattern(rng, m, rng.randint(2, min(7, len(m))), drop_cycle_bond=(k % 2 == 0), plain=(k % 4 < 2))
            tname, t = (name, m) if k % 3 else rng.choice(targets)
            yield (f'coordcut({name}) @ {tname}', q, t, rng.random() < 0.3, None)


def parse_smarts(text):
    from chython import smarts
    try:
        return smarts(text)
    except Exception:
        return None


def cut_pattern(rng, mol, size, flags=None, drop_cycle_bond=False, plain=False):
    """connected sub-pattern of `mol` as a QueryContainer (random label flags, ring marks on bonds at random)"""
    from chython.containers import QueryContainer
    from chython.containers.bonds import QueryBond
    from chython.periodictable import QueryElement, AnyElement, ListElement
    start = rng.choice(list(mol._atoms))
    chosen = [start]
    frontier = [start]
    while frontier and len(chosen) < size:
        n = rng.choice(frontier)
        cand = [k for k in mol._bonds[n] if k not in chosen]
        if not cand:
            frontier.remove(n)
            continue
        k = rng.choice(cand)
        chosen.append(k)
        frontier.append(k)
    q = QueryContainer('')
    order = chosen[:]
    rng.shuffle(order)
    for n in order:
        a = mol._atoms[n]
        fl = {k: (not plain) and rng.random() < 0.3 for k in ('neighbors', 'hybridization', 'heteroatoms', 'hydrogens', 'ring_sizes')}
        r = 1.0 if plain else rng.random()
        if r < 0.12:
            qa = AnyElement(charge=a.charge, is_radical=a.is_radical)
            if fl['neighbors']:
                qa._neighbors = (a.neighbors,)
        elif r < 0.22:
            others = rng.sample(['C', 'N', 'O', 'S', 'Cl'], 2)
            qa = ListElement(sorted({a.atomic_symbol, *others}), charge=a.charge, is_radical=a.is_radical)
            if fl['hybridization']:
                qa._hybridization = (a.hybridization,)
        else:
            qa = QueryElement.from_atom(a, **fl)
            if rng.random() < 0.7:
                qa._isotope = None if rng.random() < 0.9 else a.isotope
        q._atoms[n] = qa
        q._bonds[n] = {}
    done = set()
    for n in order:
        for k, b in mol._bonds[n].items():
            if k in q._atoms and (k, n) not in done:
                done.add((n, k))
                r = 1.0 if plain else rng.random()
                if r < 0.15:
                    qb = QueryBond(sorted({b.order, rng.choice([1, 2, 4])}), in_ring=None)
                else:
                    qb = QueryBond.from_bond(b, in_ring=(not plain) and rng.random() < 0.4)
                q._bonds[n][k] = q._bonds[k][n] = qb
    # non-induced patterns: drop a bond that lies on a cycle of the pattern (the pattern stays connected); the target then has a
    # bond between matched atoms that the pattern does not have, which both matchers must refuse (closure set / closure counter)
    if drop_cycle_bond:
        edges = sorted({tuple(sorted((n, k))) for n in q._bonds for k in q._bonds[n]})
        rng.shuffle(edges)
        for n, k in edges:
            # still connected without (n, k)?
            seen, todo = {n}, [n]
            while todo:
                x = todo.pop()
                for y in q._bonds[x]:
                    if (x, y) in ((n, k), (k, n)) or y in seen:
                        continue
                    seen.add(y)
                    todo.append(y)
            if k in seen:
                del q._bonds[n][k]
                del q._bonds[k][n]
                break
    # random insertion order of the neighbour dicts
    for n in q._bonds:
        items = list(q._bonds[n].items())
        rng.shuffle(items)
        q._bonds[n] = dict(items)
    return q


def union_queries(a, b):
    from chython.containers import QueryContainer
    q = QueryContainer('')
    shift = max(a._atoms) if a._atoms else 0
    for n, x in a._atoms.items():
        q._atoms[n] = x
        q._bonds[n] = dict(a._bonds[n])
    for n, x in b._atoms.items():
        q._atoms[n + shift] = x
    for n in b._atoms:
        q._bonds[n + shift] = {k + shift: v for k, v in b._bonds[n].items()}
    return q


def pair_stream(ctx, n_smarts_pairs, n_cut, n_multi):
    """yields (name, query, molecule, auto, scope)"""
    rng = ctx.rng
    mols = molecules(ctx)
    qs = [(s, parse_smarts(s)) for s in SMARTS]
    qs = [(s, q) for s, q in qs if q is not None]
    _state['smarts_ok'] = len(qs)
    small = [(n, m) for n, m in mols if len(m) <= 40]
    for _ in range(n_smarts_pairs):
        s, q = rng.choice(qs)
        name, m = rng.choice(small)
        auto = rng.random() < 0.5
        scope = None
        if rng.random() < 0.2:
            atoms = list(m._atoms)
            scope = sorted(rng.sample(atoms, rng.randint(0, len(atoms))))
        yield (f'{s} @ {name}', q, m, auto, scope)
    yield from cage_pairs(ctx)
    yield from coord_pairs(ctx)
    for qs_, ms_ in TRICKY_PAIRS:
        q, m = parse_smarts(qs_), molgen.parse(ms_)
        if q is not None and m is not None:
            for auto in (True, False):
                yield (f'{qs_} @ {ms_}', q, m, auto, None)
    cyclic = [(n, m) for n, m in small if m.rings_count >= 2] or small
    for i in range(n_cut):
        name, m = rng.choice(cyclic if i % 3 == 0 else small)
        if len(m) < 2:
            continue
        q = cut_pattern(rng, m, rng.randint(2, min(9, len(m))), drop_cycle_bond=(i % 3 == 0))
        # search in the source molecule or in another one
        tname, t = (name, m) if rng.random() < 0.7 else rng.choice(small)
        auto = rng.random() < 0.5
        scope = None
        if rng.random() < 0.15:
            atoms = list(t._atoms)
            scope = sorted(rng.sample(atoms, rng.randint(1, len(atoms))))
        yield (f'cut({name}) @ {tname}', q, t, auto, scope)
    multi = [(n, m) for n, m in small if len(m.connected_components) >= 2]
    for _ in range(n_multi):
        if not multi:
            break
        name, m = rng.choice(multi)
        a = cut_pattern(rng, m, rng.randint(1, 4))
        b = cut_pattern(rng, m, rng.randint(1, 3))
        q = union_queries(a, b)
        if rng.random() < 0.3:
            q = union_queries(q, cut_pattern(rng, m, 1))
        scope = None
        if rng.random() < 0.3:
            atoms = list(m._atoms)
            scope = sorted(rng.sample(atoms, rng.randint(1, len(atoms))))
        yield (f'multi({name})', q, m, rng.random() < 0.5, scope)


# ------------------------------------------------------------------------------------------------
# correspondence
# ------------------------------------------------------------------------------------------------

def _words(resp):
    if resp.startswith('ok '):
        return ('ok', tuple(int(w) for w in resp.split()[1:]))
    if resp.startswith('err '):
        return ('err', resp.split()[1])
    return ('other', resp)


def stream_ea(ctx):
    grid = atom_grid(ctx)
    lines, real, keys = [], [], []
    for d in grid:
        try:
            a = atom_from(d)
        except Exception:
            continue
        r = real_structure(one_atom_mol(a))
        ints = enc_matom(a)
        lines.append(line('ea', ints))
        keys.append(tuple(ints))
        real.append(('ok', r[1][0][:4]) if r[0] == 'ok' else r)
    resp = core.run_driver('C09', lines) if ctx.build_ok else []
    bad = 0
    for k, rl, rs in zip(keys, real, resp):
        ctx.count(('ea', k), nontrivial=k != tuple(enc_matom(atom_from(ATOM_DEFAULT))))
        ctx.dist('ea:' + rl[0])
        mod = _words(rs)
        if mod != rl:
            bad += 1
            ctx.cov['disagreements_checked'] += 1
            if bad <= 3:
                ctx.broke('correspondence', 'ea:_cython_compiled_structure(atom words)', f'atom {k}: real {rl} model {mod}')
                _state.setdefault('seeds', []).append(('atom', list(k)))
    ctx.sample({'stream': 'ea', 'request': lines[0], 'model': resp[0] if resp else None, 'real': str(real[0])})


def stream_eq(ctx):
    grid = query_grid(ctx)
    lines, real, keys = [], [], []
    for d in grid:
        try:
            qa, qb = qatom_from(d)
        except Exception:
            continue
        if qb is None:
            q = one_atom_query(qa)
            idx = 0
        else:
            q = two_atom_query(make_qatom(0, z=6), qa, qb)
            idx = 1
        r = real_query(q)
        ints = ([1] + enc_qbond(qb) if qb is not None else [0]) + enc_qatom(qa)
        lines.append(line('eq', ints))
        keys.append(tuple(ints))
        real.append(('ok', r[1][0][0][idx][:4]) if r[0] == 'ok' else r)
    resp = core.run_driver('C09', lines) if ctx.build_ok else []
    bad = 0
    for k, rl, rs in zip(keys, real, resp):
        ctx.count(('eq', k))
        ctx.dist('eq:' + (rl[0] if rl[0] == 'ok' else 'err:' + rl[1]))
        mod = _words(rs)
        if mod != rl:
            bad += 1
            ctx.cov['disagreements_checked'] += 1
            if bad <= 3:
                ctx.broke('correspondence', 'eq:_cython_compiled_query(atom masks)', f'query atom {k}: real {rl} model {mod}')
                _state.setdefault('seeds', []).append(('qatom', list(k)))
    ctx.sample({'stream': 'eq', 'request': lines[5] if len(lines) > 5 else None, 'model': resp[5] if len(resp) > 5 else None,
                'real': str(real[5]) if len(real) > 5 else None})


def canon_cquery(atoms, bonds):
    """q_from/q_to of closure-free atoms are never read by the matcher and depend on whether a Python-path search has touched
    the closures defaultdict before: drop them"""
    return [a[:6] + ((a[6], a[7]) if a[5] else (0, 0)) + a[8:] for a in atoms], list(bonds)


def parse_flat_mol(ws):
    n = int(ws[0])
    atoms = [tuple(int(x) for x in ws[1 + 7 * i: 8 + 7 * i]) for i in range(n)]
    p = 1 + 7 * n
    k = int(ws[p])
    bonds = [tuple(int(x) for x in ws[p + 1 + 2 * j: p + 3 + 2 * j]) for j in range(k)]
    return atoms, bonds


def parse_flat_query(ws):
    n = int(ws[0])
    atoms = [tuple(int(x) for x in ws[1 + 9 * i: 10 + 9 * i]) for i in range(n)]
    p = 1 + 9 * n
    k = int(ws[p])
    bonds = [tuple(int(x) for x in ws[p + 1 + 2 * j: p + 3 + 2 * j]) for j in range(k)]
    return atoms, bonds


def stream_es(ctx):
    mols = molecules(ctx)
    lines, real, names = [], [], []
    for name, m in mols:
        r = real_structure(m)
        lines.append(line('es', lmol_ints(m)))
        real.append(r)
        names.append(name)
    resp = core.run_driver('C09', lines) if ctx.build_ok else []
    bad = 0
    for name, ln, rl, rs in zip(names, lines, real, resp):
        ctx.count(('es', ln), nontrivial=ln.count(' ') > 20)
        ctx.dist('es:' + rl[0])
        if rs.startswith('ok '):
            a, b = parse_flat_mol(rs.split()[1:])
            mod = ('ok', a, b)
        elif rs.startswith('err '):
            mod = ('err', rs.split()[1])
        else:
            mod = ('other', rs)
        if mod != rl:
            bad += 1
            ctx.cov['disagreements_checked'] += 1
            if bad <= 3:
                ctx.broke('correspondence', 'es:_cython_compiled_structure(buffer)', f'{name}: real {str(rl)[:600]} model {str(mod)[:600]}')
                _state.setdefault('seeds', []).append(('mol', name))


def stream_ec(ctx, queries):
    lines, real, names = [], [], []
    for name, q in queries:
        r = real_query(q)
        lines.append(line('ec', lquery_ints(q)))
        real.append(('ok', [canon_cquery(*c) for c in r[1]]) if r[0] == 'ok' else r)
        names.append(name)
    resp = core.run_driver('C09', lines) if ctx.build_ok else []
    bad = 0
    for name, ln, rl, rs in zip(names, lines, real, resp):
        ctx.count(('ec', ln), nontrivial=ln.count(' ') > 30)
        ctx.dist('ec:' + rl[0])
        if rs.startswith('ok '):
            parts = rs[3:].split(' ; ')
            mod = ('ok', [canon_cquery(*parse_flat_query(p.split())) for p in parts[1:]])
        elif rs.startswith('err '):
            mod = ('err', rs.split()[1])
        else:
            mod = ('other', rs)
        if mod != rl:
            bad += 1
            ctx.cov['disagreements_checked'] += 1
            if bad <= 3:
                ctx.broke('correspondence', 'ec:_cython_compiled_query(buffers)', f'{name}: real {str(rl)[:600]} model {str(mod)[:600]}')


def parse_outcome(s):
    s = s.strip()
    if s.startswith('ok '):
        body = s[3:]
        k, _, rest = body.partition(' |')
        ms = []
        if int(k):
            for part in rest.split(' | '):
                ws = [int(w) for w in part.split()]
                ms.append(tuple(sorted(zip(ws[0::2], ws[1::2]))))
        return ('ok', sorted(ms))
    if s.startswith('err '):
        return ('err', s.split()[1])
    return ('other', s)


def gm_request(q, m, auto, scope):
    comps = [sorted(c) for c in m.connected_components]
    ints = [int(auto), int(scope is not None)] + L(scope or []) + lquery_ints(q) + lmol_ints(m) + [len(comps)]
    for c in comps:
        ints += L(c)
    return line('gm', ints)


def has_stereo(q):
    return any(getattr(a, 'stereo', None) is not None for _, a in q.atoms()) or any(b.stereo is not None for _, _, b in q.bonds())


def stream_gm(ctx, pairs):
    lines, reals, names, inputs = [], [], [], []
    for name, q, m, auto, scope in pairs:
        fresh(q)
        rc = run_path(q, m, True, auto, scope)
        fresh(q)
        rp = run_path(q, m, False, auto, scope)
        fresh(q)
        feats = features(q, m)
        inp = {'kind': 'pair', 'lquery': lquery_ints(q), 'lmol': lmol_ints(m), 'auto': auto, 'scope': scope, 'name': name}
        # the property itself, on the real code
        if rc != rp:
            if feats:
                ctx.dist('gm:known-gap:' + feats[0])
            else:
                ctx.fail('C09/paths-differ/' + describe(rc, rp), f'{name}: accelerated {str(rc)[:300]} reference {str(rp)[:300]}', inp)
        if has_stereo(q):
            ctx.count(('gm-real', name, auto, tuple(scope or ())), nontrivial=rc[0] == 'ok' and bool(rc[1]))
            continue
        lines.append(gm_request(q, m, auto, scope))
        reals.append((rc, rp))
        names.append(name)
        inputs.append(inp)
    resp = core.run_driver('C09', lines) if ctx.build_ok else []
    bad = 0
    for name, ln, (rc, rp), rs, inp in zip(names, lines, reals, resp, inputs):
        nontrivial = (rc[0] == 'ok' and bool(rc[1])) or (rp[0] == 'ok' and bool(rp[1]))
        ctx.count(('gm', ln), nontrivial=True)
        ctx.dist('gm:matches' if nontrivial else 'gm:no-match')
        ctx.dist('gm:size:%d' % min(9, inp['lquery'][0]))
        try:
            c_part, p_part = rs.split(' ; P ')
            mc, mp = parse_outcome(c_part[2:]), parse_outcome(p_part)
        except Exception:
            mc = mp = ('other', rs[:200])
        if mc != rc or mp != rp:
            bad += 1
            ctx.cov['disagreements_checked'] += 1
            if bad <= 3:
                which = ('accelerated path vs model' if mc != rc else '') + (' reference path vs model' if mp != rp else '')
                ctx.broke('correspondence', 'gm:get_mapping', f'{name} [{which}]: real C {str(rc)[:300]} model C {str(mc)[:300]} '
                          f'real P {str(rp)[:300]} model P {str(mp)[:300]}')
                _state.setdefault('seeds', []).append(('pair', inp))
    if lines:
        ctx.sample({'stream': 'gm', 'request': lines[0][:400], 'model': resp[0][:300] if resp else None, 'real': str(reals[0])[:300]})


def _tracking(mod):
    """CArray of the rendered extension that remembers the highest index written and the number of writes"""
    base = mod.CArray
    made = []

    class Track(base):
        def __init__(self, t, n):
            base.__init__(self, t, n)
            self.hi, self.writes = -1, 0
            made.append(self)

        def __setitem__(self, i, x):
            base.__setitem__(self, i, x)
            if not isinstance(i, slice):
                self.writes += 1
                if i > self.hi:
                    self.hi = i
    return Track, made


def tracked_run(qbuf, sbuf, flags, cap=200000):
    """one call of the rendered `get_mapping` with tracked arrays -> (result, hygiene remarks);
    result = ('ok', max stack pointer, pushes, yields) | ('oob',) | ('fault', Exc) | ('shape', n) | ('cap',)"""
    import sys
    from array import array
    mod = sys.modules['chython.algorithms._isomorphism']
    remarks = []
    orig = mod.CArray
    Track, made = _tracking(mod)
    mod.CArray = Track
    n = 0
    res = None
    try:
        for _ in mod.get_mapping(qbuf, sbuf, array('I', flags)):
            n += 1
            if len(made) == 5 and any(made[4].v):
                remarks.append('scratch array `closures` not all-zero at a yield')
            if n >= cap:
                res = ('cap',)
                break
    except IndexError:
        res = ('oob',)
    except Exception as e:
        res = ('fault', exc_name(e))
    finally:
        mod.CArray = orig
    if len(made) != 5:
        return res if res is not None and res[0] in ('oob', 'fault') else ('shape', len(made)), remarks
    path, s_index, s_depth, matched, closures = made
    if res is None:
        res = ('ok', s_index.hi + 1, s_index.writes, n)
        if any(closures.v):
            remarks.append('scratch array `closures` not all-zero when the search ended')
        if s_depth.hi != s_index.hi or s_depth.writes != s_index.writes:
            remarks.append('stack_index / stack_depth written differently')
    return res, remarks


def real_ga(q, m, flags):
    """run the rendered `get_mapping` on the real encoders' buffers with tracked arrays ->
    [per query component: ('ok', max stack pointer, pushes, mappings) | ('oob',) | ('err', Exc)], [hygiene remarks]"""
    fresh(q)
    try:
        qbufs = q._cython_compiled_query
        sbuf = m._cython_compiled_structure
    except Exception as e:
        fresh(q)
        return [('err', exc_name(e))], []
    out, remarks = [], []
    for qbuf in qbufs:
        res, rem = tracked_run(qbuf, sbuf, flags)
        if res[0] == 'fault':
            res = ('err', res[1])
        out.append(res)
        remarks += rem
    fresh(q)
    return out, remarks


def pack_mol(atoms, bonds):
    return HDR.pack(len(atoms)) + b''.join(MATOM.pack(*a) for a in atoms) + b''.join(BOND.pack(*b) for b in bonds)


def pack_query(atoms, bonds):
    return HDR.pack(len(atoms)) + b''.join(QATOM.pack(*a) for a in atoms) + b''.join(BOND.pack(*b) for b in bonds)


CORRUPTIONS = ['none', 'dup-row', 'dup-hub', 'dup-hub', 'bad-index', 'long-to', 'q-back', 'q-closure-range', 'q-closure-index', 'short-scope', 'dup-row+bad-index']


def corrupt(rng, kind, qa, qb, ma, mb, flags):
    """buffers no encoder produces: duplicated bond rows (multi-edges: more candidates per batch than atoms), indices outside
    the buffers, ranges beyond the bond arrays, parents / closure partners that are not earlier steps, a short scope array"""
    qa, qb, ma, mb, flags = [list(x) for x in qa], [list(x) for x in qb], [list(x) for x in ma], [list(x) for x in mb], list(flags)
    for k in kind.split('+'):
        if k == 'dup-row':
            rows = [i for i, a in enumerate(ma) if a[5] > a[4]]
            if rows:
                i = rng.choice(rows)
                row = mb[ma[i][4]:ma[i][5]] * rng.randint(2, 6)
                ma[i][4], ma[i][5] = len(mb), len(mb) + len(row)
                mb += [list(b) for b in row]
        elif k == 'dup-hub':
            rows = [i for i, a in enumerate(ma) if a[5] > a[4]]
            if rows:
                i = max(rows, key=lambda r: ma[r][5] - ma[r][4])
                row = mb[ma[i][4]:ma[i][5]]
                row = row * ((len(qa) * len(ma)) // len(row) + rng.randint(0, 2))  # about as many entries as the stack holds
                ma[i][4], ma[i][5] = len(mb), len(mb) + len(row)
                mb += [list(b) for b in row]
        elif k == 'bad-index' and mb:
            mb[rng.randrange(len(mb))][1] = len(ma) + rng.randint(0, 3)
        elif k == 'long-to' and ma:
            ma[rng.randrange(len(ma))][5] = len(mb) + rng.randint(1, 5)
        elif k == 'q-back' and len(qa) > 1:
            j = rng.randrange(1, len(qa))
            qa[j][4] = j + rng.randint(0, 2)
        elif k == 'q-closure-range' and qa:
            j = rng.randrange(len(qa))
            qa[j][5] = max(1, qa[j][5])
            qa[j][7] = len(qb) + rng.randint(1, 3)
        elif k == 'q-closure-index' and qb:
            qb[rng.randrange(len(qb))][1] = len(qa) + rng.randint(0, 2)
        elif k == 'short-scope' and flags:
            flags = flags[:-1]
    return qa, qb, ma, mb, flags


def stream_gb(ctx, pairs):
    """the guards themselves: the guarded model vs the rendered `.pyx` (which raises on every access outside an array) on buffers
    no encoder produces. The rendering reads one contiguous buffer (an index past the atoms reads bond bytes) where the model
    stops, so the comparison is one-sided where it has to be: model ok => rendering ok with the same stack pointer / pushes /
    yields; rendering raises => model stops with a fault"""
    rng = ctx.rng
    lines, reals, kinds = [], [], []
    for name, q, m, auto, scope in pairs:
        if has_stereo(q):
            continue
        fresh(q)
        try:
            qbufs = q._cython_compiled_query
            sbuf = m._cython_compiled_structure
        except Exception:
            fresh(q)
            continue
        fresh(q)
        ma, mb = decode_mol(sbuf)
        qa, qb = decode_query(qbufs[0])
        kind = rng.choice(CORRUPTIONS)
        qa2, qb2, ma2, mb2, flags = corrupt(rng, kind, qa, qb, ma, mb, [1] * len(ma))
        got, remarks = tracked_run(pack_query(qa2, qb2), pack_mol(ma2, mb2), flags, cap=20000)
        if got[0] in ('cap', 'shape'):
            ctx.dist('gb:skipped:' + got[0])
            continue
        ints = [0] + L(flags) + [len(qa2)] + [x for a in qa2 for x in a] + [len(qb2)] + [x for b in qb2 for x in b] \
            + [len(ma2)] + [x for a in ma2 for x in a] + [len(mb2)] + [x for b in mb2 for x in b]
        lines.append(line('gb', ints))
        reals.append((got, name, kind))
    resp = core.run_driver('C09', lines) if ctx.build_ok else []
    bad = 0
    for ln, (got, name, kind), rs in zip(lines, reals, resp):
        model = parse_ga(rs)[0]
        ws = rs.split()
        mfault = ws[0] in ('oob', 'uninit', 'range') if ws else False
        ctx.count(('gb', ln), nontrivial=kind != 'none')
        if model[0] == 'ok':
            agree = got == model
        elif mfault:
            agree = True  # the rendering may read on through the contiguous buffer where the model stops
        else:
            agree = False  # fuel / parse error
        if got[0] in ('oob', 'fault') and not mfault:
            agree = False
        ctx.dist(f'gb:{kind}:real-{got[0]}/model-{ws[0] if ws else "?"}')
        if not agree:
            bad += 1
            ctx.cov['disagreements_checked'] += 1
            if bad <= 3:
                ctx.broke('correspondence', 'gb:guards', f'{name} [{kind}]: rendered .pyx {got} model {rs[:120]}')


def parse_ga(resp):
    out = []
    for part in resp.split(' ; '):
        ws = part.split()
        if not ws:
            out.append(('other', resp[:100]))
        elif ws[0] == 'ok':
            out.append(('ok',) + tuple(int(w) for w in ws[1:4]))
        elif ws[0] in ('oob', 'uninit'):
            out.append(('oob',))
        elif ws[0] == 'err':
            out.append(('err', ws[1]))
        else:
            out.append(('other', part[:100]))
    return out


def stream_ga(ctx, pairs):
    """bookkeeping of the compiled matcher: model (arrays at the regenerated sizes, every access guarded) vs the rendered `.pyx`
    with tracked arrays — highest stack pointer, number of pushes, number of yields per query component; plus the hygiene the
    model proves (`scratch_array_is_clean`): `closures[]` is all-zero at every yield and at the end"""
    lines, reals, names, inputs = [], [], [], []
    for name, q, m, auto, scope in pairs:
        if has_stereo(q):
            continue
        atoms = list(m._atoms)
        flags = [1] * len(atoms) if scope is None else [int(n in scope) for n in atoms]
        got, remarks = real_ga(q, m, flags)
        inp = {'kind': 'pair', 'lquery': lquery_ints(q), 'lmol': lmol_ints(m), 'auto': False, 'scope': scope, 'name': name}
        for r in sorted(set(remarks)):
            ctx.cov['disagreements_checked'] += 1
            if _state.setdefault('ga_remarks', 0) < 3:
                ctx.broke('correspondence', 'ga:scratch-array', f'{name}: {r} (the model proves it clean: scratch_array_is_clean)')
                _state.setdefault('seeds', []).append(('pair', inp))
            _state['ga_remarks'] += 1
        lines.append(line('ga', [0] + L(flags) + lquery_ints(q) + lmol_ints(m)))
        reals.append(got)
        names.append(name)
        inputs.append(inp)
    resp = core.run_driver('C09', lines) if ctx.build_ok else []
    bad = 0
    top = 0
    for name, ln, got, rs, inp in zip(names, lines, reals, resp, inputs):
        model = parse_ga(rs)
        ctx.count(('ga', ln), nontrivial=any(g[0] == 'ok' and g[2] > 0 for g in got))
        for g in got:
            if g[0] == 'ok':
                top = max(top, g[1])
                ctx.dist('ga:stack:%s' % ('0' if g[1] == 0 else '1-7' if g[1] < 8 else '8-15' if g[1] < 16 else '16-31' if g[1] < 32 else '32+'))
                n_atoms = inp['lmol'][0]
                if g[1] > 2 * n_atoms:
                    ctx.dist('ga:stack-above-2*atoms')
            else:
                ctx.dist('ga:' + g[0])
        if model != got:
            bad += 1
            ctx.cov['disagreements_checked'] += 1
            if bad <= 3:
                ctx.broke('correspondence', 'ga:stack', f'{name}: rendered .pyx (max stack pointer, pushes, yields) {got} model {model}')
                _state.setdefault('seeds', []).append(('pair', inp))
    ctx.dist('ga:highest-stack-pointer:%d' % top)
    # the stack of before repo commit e44243a (2 * atoms entries): the model with those sizes must stop out of bounds exactly on the
    # inputs whose observed stack pointer exceeds them, and agree everywhere else
    lines2, expect = [], []
    for ln, got, inp in zip(lines, reals, inputs):
        if len(got) == 1 and got[0][0] == 'ok' and (got[0][1] > 2 * inp['lmol'][0] or len(lines2) < 200):
            lines2.append('ga 1' + ln[4:])
            expect.append([('oob',)] if got[0][1] > 2 * inp['lmol'][0] else got)
    resp2 = core.run_driver('C09', lines2) if ctx.build_ok and lines2 else []
    for ln, ex, rs in zip(lines2, expect, resp2):
        ctx.count(('ga-old', ln), nontrivial=True)
        if parse_ga(rs) != ex:
            ctx.cov['disagreements_checked'] += 1
            ctx.broke('correspondence', 'ga:old-stack-size', f'model with the 2*atoms stack: {rs[:100]}, observed stack pointer implies {ex}')
            break
        ctx.dist('ga:old-size:' + ('overrun' if ex == [('oob',)] else 'fits'))
    if lines:
        ctx.sample({'stream': 'ga', 'request': lines[0][:300], 'model': resp[0][:200] if resp else None, 'real': str(reals[0])[:200]})


def describe(rc, rp):
    if rc[0] != rp[0]:
        return f'{rc[0]}:{rc[1] if rc[0] == "err" else "mappings"}-vs-{rp[0]}:{rp[1] if rp[0] == "err" else "mappings"}'
    if rc[0] == 'ok':
        c, p = set(rc[1]), set(rp[1])
        if c - p and p - c:
            return 'different-mappings'
        if c - p:
            return 'accelerated-has-extra-mappings'
        if p - c:
            return 'accelerated-misses-mappings'
        return 'different-multiplicity'
    return 'different-exception'


def mt_grids(ctx):
    """(query dict, atom dict, bond | None) triples: query grid x atoms chosen to hit and to miss each constraint"""
    rng = ctx.rng
    qg = query_grid(ctx)
    if ctx.quick:
        qg = rng.sample(qg, min(len(qg), 9000))
    out = []
    # element part: any-metal and any-element against every element; every element query against itself and its neighbours
    for z in range(1, 119):
        ad = {**ATOM_DEFAULT, 'z': z}
        out.append(({**QUERY_DEFAULT, 'head': ('m', 0)}, ad, None))
        out.append(({**QUERY_DEFAULT, 'head': ('a', 0)}, ad, None))
        for zq in sorted({z, max(1, z - 1), min(118, z + 1), 57 if z <= 56 else 56, 116, 118} if not ctx.quick or z % 4 == 0 or z > 110
                         else {z, min(118, z + 1)}):
            out.append(({**QUERY_DEFAULT, 'head': ('e', zq)}, ad, None))
        for lst in (LISTS if not ctx.quick else LISTS[::3]):
            out.append(({**QUERY_DEFAULT, 'head': ('l', tuple(lst))}, ad, None))
    for d in qg:
        # an atom built to satisfy the query, then single-field perturbations of it
        kind, v = d['head']
        z = v if kind == 'e' else (rng.choice(v) if kind == 'l' else rng.choice([6, 7, 26, 29, 57, 92, 116, 117, 118, 2]))
        iso = None
        if kind == 'e' and d['isooff'] is not None and not d.get('isozero'):
            isos = isotopes_of(z)
            from chython.periodictable import Element
            want = Element.from_atomic_number(z)().mdl_isotope + d['isooff']
            iso = want if want in isos else (rng.choice(isos) if rng.random() < 0.5 else None)
        base = dict(z=z, iso=iso, charge=d['charge'], rad=d['rad'],
                    h=rng.choice(d['ih']) if d['ih'] else rng.choice([0, 1, 2, 3, None]),
                    nb=rng.choice(d['nb']) if d['nb'] else rng.choice([0, 1, 2, 3, 4]),
                    het=rng.choice(d['het']) if d['het'] else rng.choice([0, 1, 2]),
                    hyb=rng.choice(d['hyb']) if d['hyb'] else rng.choice([1, 2, 3, 4]),
                    rings=([] if d['rs'] == [0] else [rng.choice(d['rs'])]) if d['rs'] else rng.choice([[], [5], [6], [5, 6]]))
        bond = None
        if d['bond'] is not None:
            o = rng.choice(d['bond'][0]) if rng.random() < 0.7 else rng.choice([1, 2, 3, 4, 8])
            r = d['bond'][1] if d['bond'][1] is not None and rng.random() < 0.7 else rng.random() < 0.5
            bond = (o, bool(r))
        out.append((d, base, bond))
        f = rng.choice(['z', 'charge', 'rad', 'h', 'nb', 'het', 'hyb', 'rings', 'iso'])
        pert = dict(base)
        if f == 'iso':
            pert['iso'] = rng.choice([None] + isotopes_of(z))
        else:
            pert[f] = rng.choice(ATOM_FIELDS[f])
            if f == 'z':
                pert['iso'] = None
        out.append((d, pert, bond))
    return out


def stream_mt(ctx):
    triples = mt_grids(ctx)
    lines, reals, inputs = [], [], []
    for d, ad, bond in triples:
        try:
            qa, qb = qatom_from(d)
            a = atom_from(ad)
        except Exception:
            continue
        if qb is None:
            q, m = one_atom_query(qa), one_atom_mol(a)
            ints = [0] + enc_qatom(qa) + enc_matom(a)
        else:
            q = two_atom_query(make_qatom(0, z=6), qa, qb)
            m = two_atom_mol(make_atom(6, None, 0, 0, 1, 1, [], 3, 0), a, bond[0], bond[1])
            ints = [1] + enc_qbond(qb) + enc_qatom(qa) + enc_matom(a) + [bond[0], int(bond[1])]
        rc = run_path(q, m, True, False)
        fresh(q)
        rp = run_path(q, m, False, False)
        feats = features(q, m)
        inp = {'kind': 'pair', 'lquery': lquery_ints(q), 'lmol': lmol_ints(m), 'auto': False, 'scope': None, 'name': 'grid'}
        if rc != rp:
            if feats:
                ctx.dist('mt:known-gap:' + feats[0])
            else:
                ctx.fail('C09/paths-differ/' + describe(rc, rp), f'single pair: accelerated {str(rc)[:200]} reference {str(rp)[:200]}', inp)
        lines.append(line('mt', ints))
        want = ((1, 1),) if qb is None else ((1, 1), (2, 2))   # the identity embedding: anchor on anchor, tested atom on tested atom
        reals.append((rc, rp, want))
        inputs.append(inp)
    resp = core.run_driver('C09', lines) if ctx.build_ok else []
    bad = 0
    for ln, (rc, rp, want), rs, inp in zip(lines, reals, resp, inputs):
        ctx.count(('mt', ln))
        ws = rs.split()
        if len(ws) != 2 or ws[0] not in '01':
            if rs.startswith('err') and rc[0] == 'err':
                ctx.dist('mt:encoder-error')
                continue
            mask = pe = None
        else:
            mask, pe = ws[0] == '1', ws[1] == '1'
        ctx.dist('mt:' + ('match' if pe else 'no-match'))
        real_c = rc[0] == 'ok' and want in rc[1]
        real_p = rp[0] == 'ok' and want in rp[1]
        if rc[0] == 'err':
            ctx.dist('mt:accelerated-raises')
            mask = real_c  # the mask test is undefined when an encoder raises
        if mask != real_c or pe != real_p:
            bad += 1
            ctx.cov['disagreements_checked'] += 1
            if bad <= 3:
                ctx.broke('correspondence', 'mt:single-pair', f'{ln[:300]}: real C {rc} P {rp} model mask {mask} pyEq {pe}')
                _state.setdefault('seeds', []).append(('pair', inp))
    if lines:
        ctx.sample({'stream': 'mt', 'request': lines[0][:300], 'model': resp[0] if resp else None, 'real': str(reals[0])[:200]})


# ------------------------------------------------------------------------------------------------
# history: the packed buffers are cached on the objects; derived / edited objects must never search in stale bits
# ------------------------------------------------------------------------------------------------

HIST_SMILES = ['CC(=O)CC(C)=O', 'O=C1CCCCC1', 'CCOC(=O)CC(C)=O', 'CC(=O)CN', 'O=C1CC(=O)CC(=O)C1', 'CC(=O)CC', 'OC1=CC=CC=C1', 'Oc1ccccc1',
               'O=C1C=CC=CN1', 'Oc1ccccn1', 'NC(=O)C', 'CC(O)=N', 'C[N+](=O)[O-]', 'CN(=O)=O', 'CC(=O)[O-].[Na+]', 'CC(=O)O', 'C[NH3+].[Cl-]',
               'C1=CC=CC=C1', 'c1ccccc1', 'C1=CC=C2C=CC=CC2=C1', 'c1ccc2[nH]ccc2c1', 'C1=CNC=C1', 'CC=O', 'C=CO', 'N=C(N)N', 'NC(N)=O',
               'CS(=O)C', 'C[S+](C)[O-]', 'O=C(O)CC(=O)O', 'NCC(=O)O', '[NH3+]CC(=O)[O-]', 'CC(=O)C1CC1', 'O=C1CC2CCC1C2', 'CC(C)=NO',
               'Cc1cc(=O)[nH]c(=O)[nH]1', 'Oc1ncnc2[nH]cnc12', 'CC(=N)O', 'OC=CC=O', 'CC(=O)C=C(C)O', 'C#CC(C)=O', 'N#CCC(C)=O']
HIST_QUERIES = ['[C]=[O]', '[C]=[C]-[O;h1]', '[C;z2]', '[C;z1]', '[O;D1;h1]', '[C;h2]', '[C;h1]', '[C;h3]', '[N;h1]', '[N;h0]', '[N;h2]', '[A;a]',
                '[C;a]:[C;a]', 'C=C', 'C-C', 'C:C', '[O-]', '[N+]', '[O;h0;D1]', '[C;D3]', '[C;z3]', 'C=N', 'C-[O;h1]', '[A;h0]', '[A;h1,h2]']
HIST_OPS = ['copy', 'copy_keep', 'kekule', 'thiele', 'standardize', 'canonicalize', 'neutralize', 'explicify_hydrogens',
            'implicify_hydrogens', 'fix_resonance', 'remove_acids', 'standardize_charges', 'clean_stereo', 'tautomers', 'kekule_forms',
            'charged_tautomers', 'substructure', 'union', 'transaction_charge', 'delete_atom', 'add_bond']


def hist_queries():
    if 'hq' not in _state:
        qs = [(s, parse_smarts(s)) for s in HIST_QUERIES]
        _state['hq'] = [(s, q) for s, q in qs if q is not None]
    return _state['hq']


def prime(m):
    """run accelerated searches so that the packed structure is cached on the object"""
    for _, q in hist_queries()[:3]:
        fresh(q)
        try:
            list(q.get_mapping(m))
        except Exception:
            pass


def derive(m0, op, rng):
    """objects derived from / edited after the primed `m0`: list of (label, molecule)"""
    out = []
    if op == 'copy':
        out.append((op, m0.copy()))
    elif op == 'copy_keep':
        out.append((op, m0.copy(keep_sssr=True, keep_components=True)))
        out.append((op + '/sssr', m0.copy(keep_sssr=True)))
    elif op in ('kekule', 'thiele', 'standardize', 'canonicalize', 'neutralize', 'explicify_hydrogens', 'implicify_hydrogens',
                'fix_resonance', 'remove_acids', 'standardize_charges', 'clean_stereo'):
        for keep in (False, True):
            c = m0.copy(keep_sssr=keep, keep_components=keep)
            if keep:
                prime(c)
            getattr(c, op)()
            out.append((op + ('/on-kept-copy' if keep else '/on-copy'), c))
        getattr(m0, op)()        # and in place, on the primed object itself
        out.append((op + '/in-place', m0))
    elif op == 'tautomers':
        for i, t in enumerate(m0.enumerate_tautomers(limit=12)):
            out.append((f'{op}[{i}]', t))
            if i >= 11:
                break
    elif op == 'charged_tautomers':
        for i, t in enumerate(m0.enumerate_charged_tautomers()):
            out.append((f'{op}[{i}]', t))
            if i >= 7:
                break
    elif op == 'kekule_forms':
        for i, t in enumerate(m0.enumerate_kekule()):
            out.append((f'{op}[{i}]', t))
            if i >= 5:
                break
    elif op == 'substructure':
        atoms = list(m0)
        sub = rng.sample(atoms, max(1, len(atoms) - 1))
        out.append((op, m0.substructure(sub)))
        out.append((op + '/and', m0 & sub))
    elif op == 'union':
        out.append((op, m0 | molgen.parse('CO').copy() if False else m0.union(molgen.parse('CO'), remap=True)))
    elif op == 'transaction_charge':
        n = rng.choice(list(m0))
        with m0:
            m0.atom(n).charge = 1 if m0.atom(n).charge == 0 else 0
        out.append((op, m0))
    elif op == 'delete_atom':
        n = rng.choice(list(m0))
        m0.delete_atom(n)
        out.append((op, m0))
    elif op == 'add_bond':
        n = m0.add_atom('O')
        m0.add_bond(n, rng.choice([x for x in m0 if x != n]), 1)
        out.append((op, m0))
    return out


def hist_case(smi, op, rng):
    """-> list of (label, derived molecule); the parent is parsed afresh and primed"""
    m0 = molgen.parse(smi)
    if m0 is None:
        return []
    prime(m0)
    try:
        return derive(m0, op, rng)
    except Exception:
        return []


def hist_compare(ctx, smi, op, seed, label, d):
    """the property on a derived object; returns number of failures"""
    bad = 0
    for qs_, q in hist_queries():
        fresh(q)
        rc = run_path(q, d, True, False)
        fresh(q)
        rp = run_path(q, d, False, False)
        ctx.count(('hist', smi, label, qs_), nontrivial=rp[0] == 'ok' and bool(rp[1]))
        if rc != rp:
            try:
                feats = features(q, d)
            except Exception:
                feats = []
            if feats:
                ctx.dist('hist:known-gap:' + feats[0])
                continue
            bad += 1
            ctx.fail('C09/paths-differ-after-history/' + op.split('/')[0] + '/' + describe(rc, rp),
                     f'{smi} -> {label}, query {qs_}: accelerated {str(rc)[:200]} reference {str(rp)[:200]}',
                     {'kind': 'history', 'smiles': smi, 'op': op, 'label': label, 'smarts': qs_, 'seed': seed})
        else:
            # informational: an independent object re-read from the derived molecule's own SMILES
            try:
                fresh(q)
                rr = run_path(q, molgen.parse(str(d)), False, False)
                ctx.dist('hist:reparsed-same-count' if rr[0] == rp[0] == 'ok' and len(rr[1]) == len(rp[1]) else 'hist:reparsed-differs')
            except Exception:
                pass
    return bad


def stream_hist(ctx):
    import random
    smis = list(HIST_SMILES)
    extra = molgen.corpus_smiles()
    smis += ctx.rng.sample(extra, 12 if ctx.quick else 60)
    ops = HIST_OPS
    n = 0
    for smi in smis:
        for op in (ops if smi in HIST_SMILES[:14] or not ctx.quick else ctx.rng.sample(ops, 5)):
            seed = ctx.rng.randrange(1 << 30)
            for label, d in hist_case(smi, op, random.Random(seed)):
                ctx.dist('hist:' + op)
                n += 1
                hist_compare(ctx, smi, op, seed, label, d)
    ctx.sample({'stream': 'hist', 'objects': n, 'ops': ops})


def correspond(ctx):
    install()
    ctx.cov['programs'] = 8  # + MoleculeContainer.copy/flush_cache hand-over, enumerate_tautomers & in-place normalisers after a primed search; _cython_compiled_structure, _cython_compiled_query, _isomorphism.get_mapping (translated), QueryIsomorphism.get_mapping x2 settings, _get_mapping, Query.__eq__/QueryBond.__eq__
    stream_ea(ctx)
    stream_eq(ctx)
    stream_es(ctx)
    rng = ctx.rng
    qs = [(s, parse_smarts(s)) for s in SMARTS]
    qs = [(s, q) for s, q in qs if q is not None]
    mols = molecules(ctx)
    small = [(n, m) for n, m in mols if 2 <= len(m) <= 40]
    for i in range(600 if ctx.quick else 4000):
        n, m = rng.choice(small)
        qs.append((f'cut{i}({n})', cut_pattern(rng, m, rng.randint(2, min(10, len(m))))))
    stream_ec(ctx, qs)
    stream_mt(ctx)
    if ctx.quick:
        pairs = pair_stream(ctx, 3000, 2400, 500)
    else:
        pairs = pair_stream(ctx, 20000, 16000, 3000)
    spairs = list(stress_pairs(ctx))
    cp = []

    def keep(it):
        for x in it:
            if '@' in x[0] and x[0].startswith(('[#6]', 'C', '[A]', 'cagecut')) and len(cp) < 100000:
                cp.append(x)
            yield x
    stream_gm(ctx, itertools.chain(keep(pairs), ctx.rng.sample(spairs, min(len(spairs), 400)) if ctx.quick else spairs))
    cp = [x for x in cp if x[2].rings_count >= 2 and x[4] is None and len(x[2]) <= 24]
    stream_ga(ctx, spairs + (ctx.rng.sample(cp, min(len(cp), 300)) if ctx.quick else cp))
    stream_gb(ctx, ctx.rng.sample(spairs, min(len(spairs), 400 if ctx.quick else 3000)) + ctx.rng.sample(cp, min(len(cp), 200 if ctx.quick else 2000)))
    stream_hist(ctx)
    ctx.exhaustive = False
    if _state.get('gen_query_error'):
        ctx.notes.append('gen_query (C08 translator) could not run: ' + _state['gen_query_error'][:300] +
                         ' — Gen/QueryTables.lean left as committed; theorem anyMetal_flags_agree ties its element flags to the '
                         'flags re-extracted by gen_bitlayout')
    shape = _state.get('layout', {}).get('shape_changed')
    if shape:
        # the translator could not re-extract the literals because the shape of the source changed; the model still carries
        # the last extracted ones. If every stream above agreed, the model still mirrors the code (a harmless rewrite).
        if any(b.kind == 'correspondence' for b in ctx.broken):
            ctx.broke('translator', 'gen_bitlayout', shape)
        else:
            ctx.notes.append('gen_bitlayout: ' + shape + ' — literals not re-extracted; all correspondence streams agree with the '
                             'model built on the previous literals')


# ------------------------------------------------------------------------------------------------
# search: property-level oracle on the real code only
# ------------------------------------------------------------------------------------------------

def check_pair(ctx, name, q, m, auto=True, scope=None):
    fresh(q)
    rc = run_path(q, m, True, auto, scope)
    fresh(q)
    rp = run_path(q, m, False, auto, scope)
    fresh(q)
    if rc != rp:
        feats = features(q, m)
        if feats:
            return False
        ctx.fail('C09/paths-differ/' + describe(rc, rp), f'{name}: accelerated {str(rc)[:300]} reference {str(rp)[:300]}',
                 {'kind': 'pair', 'lquery': lquery_ints(q), 'lmol': lmol_ints(m), 'auto': auto, 'scope': scope, 'name': name})
        return True
    return False


def search(ctx):
    install()
    import time
    budget = 60 if ctx.quick else 600
    t0 = time.time()
    found = 0
    # 1. neighbourhood of disagreeing cases
    for kind, seed in _state.get('seeds', []):
        if kind == 'pair':
            q, m = ints_to_lquery(seed['lquery']), ints_to_lmol(seed['lmol'])
            found += check_pair(ctx, 'seed:' + str(seed.get('name')), q, m, seed['auto'], seed['scope'])
    # 1b. worst cases of the bookkeeping arrays and the cage pairs (stale scratch entries only show on cages)
    for name, q, m, auto, scope in itertools.chain(stress_pairs(ctx), cage_pairs(ctx)):
        if time.time() - t0 > budget * 0.4 or found >= 5:
            break
        found += check_pair(ctx, name, q, m, auto, scope)
    # 2. single-pair grid (every query field value against matching / perturbed atoms)
    for d, ad, bond in mt_grids(ctx):
        if time.time() - t0 > budget * 0.5 or found >= 5:
            break
        try:
            qa, qb = qatom_from(d)
            a = atom_from(ad)
        except Exception:
            continue
        if qb is None:
            q, m = one_atom_query(qa), one_atom_mol(a)
        else:
            q = two_atom_query(make_qatom(0, z=6), qa, qb)
            m = two_atom_mol(make_atom(6, None, 0, 0, 1, 1, [], 3, 0), a, bond[0], bond[1])
        found += check_pair(ctx, 'grid', q, m, False)
    # 3. generated (query, molecule) pairs
    for name, q, m, auto, scope in pair_stream(ctx, 4000, 4000, 800):
        if time.time() - t0 > budget or found >= 8:
            break
        found += check_pair(ctx, name, q, m, auto, scope)
    # 4. histories (derived / edited objects after an accelerated search primed the packed structure)
    before = len(ctx.failures)
    try:
        stream_hist(ctx)
    except Exception:
        pass
    found += len(ctx.failures) - before
    ctx.notes.append(f'search: {found} failing inputs in {time.time() - t0:.1f}s')


# ------------------------------------------------------------------------------------------------
# probe
# ------------------------------------------------------------------------------------------------

def probe(inp):
    """does the PROPERTY fail on this input on the real code? (both paths, same flags; mappings as sorted multisets)"""
    install()
    if inp.get('kind') == 'history':
        import random
        q = parse_smarts(inp['smarts'])
        for label, d in hist_case(inp['smiles'], inp['op'], random.Random(inp['seed'])):
            if label != inp['label']:
                continue
            fresh(q)
            rc = run_path(q, d, True, False)
            fresh(q)
            rp = run_path(q, d, False, False)
            return rc != rp, f'{inp["smiles"]} -> {label}: accelerated path: {str(rc)[:300]}; reference path: {str(rp)[:300]}'
        return False, 'derived object not reproduced'
    if inp.get('kind') == 'smarts-smiles':
        from chython import smarts, smiles
        q, m = smarts(inp['smarts']), smiles(inp['smiles'])
        auto, scope = inp.get('auto', True), inp.get('scope')
    else:
        q, m = ints_to_lquery(inp['lquery']), ints_to_lmol(inp['lmol'])
        auto, scope = inp.get('auto', True), inp.get('scope')
    rc = run_path(q, m, True, auto, scope)
    fresh(q)
    rp = run_path(q, m, False, auto, scope)
    return rc != rp, f'accelerated path: {str(rc)[:400]}; reference path: {str(rp)[:400]}'
