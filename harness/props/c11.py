"""C11 — MDL (V2000/V3000) and MRV files: write then read preserves the record  (translation_validation, partial proofs).

Lean model (Model/C11*.lean): Python text primitives (`{:3d}`, `{:10.4f}`, `int()`, `float()` on plain decimals,
`strip`, `lstrip(chars)` as a character set, `replace`), `MOLWrite._write_molecule`, `parse_mol_v2000`,
`postprocess_parsed_molecule`, `SDFWrite.write`, `SDFRead._read_block/_read_mol/read_metadata`, `MDLRead.__iter__`,
`reset_index`+`seek`+`__getitem__`; V3000 and RDF counterparts (Model/C11Mol3000.lean, C11Rdf.lean).
Streams (model vs real chython, in-process):
  prim   text primitives vs CPython
  W      real writers' text vs model text, molecule by molecule (exactly representable coordinates)
  P      parse_mol_v2000 / parse_mol_v3000 on written blocks, corrupted blocks, the repo's test files
  F      multi-record files with a corrupted record at every position: blocks, m_end, metadata, iteration, index
  M      metadata blocks over printable text
  RT     property-level write->read oracle on the real code (all five writers incl. MRV) inside the stated domain
"""
import io
import os
import re
import tempfile
from decimal import Decimal

from .. import core, molgen
from ..gen import gen_mdl, gen_mdl_options

LEVEL = 'translation_validation'
LEVEL_TEXT = ('The text layer of the MDL formats (fixed-width formatting, int()/float() of column slices, charge codes, '
              'M  CHG/ISO/RAD, V3000 tokenisation, SDF/RDF record framing, metadata blocks, skip-on-error iteration, index '
              'seek) is an executable Lean model mirrored statement by statement from the readers and writers; round-trip '
              'theorems are proved about exactly these model functions for all field values / all well-formed records, and '
              'the model is tied to today\'s source by regenerated tables and by differential testing of writers, parsers and '
              'framing on generated and corrupted files. The data-item domain and normalisation are written from the CTfile '
              'specification (decidable predicates) and the proved read(write(meta)) = normalise(meta) is additionally evaluated on '
              'the real writers/readers for every generated dictionary inside that domain; the forwarding of every documented '
              'reader option to every helper call site is a table regenerated from the source with obligations from the '
              'docstrings, backed by a behavioural oracle per reader x option x record kind. Atom/bond construction (create_molecule), wedge geometry and the '
              'lxml-based MRV path are not modelled: they are validated by a write->read oracle on the real code. That is '
              'translation validation with partial proofs, not a proof about the Python text.')
LEVEL_NOTE = ('Lean kernel; gen_mdl translator (literal tables via AST); gen_mdl_options translator (AST walk: reader options, '
              'helper call sites, forwarded keywords / guards); Spec/CtfileData.lean and Spec/MdlOptions.lean transcribe the CTfile '
              'specification and the readers\' docstrings; hand transcription of the text layer validated by correspondence; ASCII text domain; coordinates restricted to exact multiples of 1/10000; create_molecule, '
              'stereo post-processing, lxml and grep are outside the model.')
TECHNIQUE = ('Lean 4 round-trip theorems over an executable model of the MDL text layer + regenerated tables (literal tables, '
             'option-forwarding table) + differential testing')
HAS_DRIVER = True
EXTRA_MODULES = []
FINDINGS_MODULE = 'ChythonModel.Findings.C11'
RULE = ('structured: molecules from the repo corpus / handmade set / repo test files / decorated skeletons, renumbered, with '
        'random charges -4..4, isotopes, radicals, names and metadata over printable ASCII, coordinates k/10000; every '
        'writer output is re-read; corrupted variants by single edits (character, field, line, record) at every record '
        'position; a case is non-trivial when the model executed a writer or parser on it; distinct by (stream, text hash)')
TRUSTED = ['gen_mdl translator (AST literal tables of mol.py / write.py / SDFrw.py)',
           'gen_mdl_options translator (AST walk over chython/files/*.py: reader options, helper call sites, forwarded keywords and guards)',
           'Spec/CtfileData.lean, Spec/MdlOptions.lean: transcription of the CTfile specification / the readers\' docstrings',
           'hand transcription of the text layer in Model/C11*.lean (validated by correspondence, not proved against Python)',
           'harness canonicalisers (Decimal(repr(float)) for coordinates)']
ASSUMPTIONS = ['text is ASCII (Python str.strip()/int()/float() Unicode behaviour is outside the model)',
               'coordinates are exact multiples of 1/10000 with |x| < 10^5 (float formatting/parsing is then exact)',
               'files use "\\n" line ends; the grep-built index is modelled as "lines containing $$$$"',
               'create_molecule / calc_labels / stereo post-processing / lxml are exercised, not modelled']

_state = {}
PRINTABLE = ''.join(chr(i) for i in range(32, 127))


def generate(ctx):
    path, t = gen_mdl.generate()
    _state['tables'] = t
    from ..gen import gen_periodic
    ppath = gen_periodic.generate()[0]     # `symbols_fit` is proved over the regenerated element table
    opath, ot = gen_mdl_options.generate()  # option forwarding table (AST walk over chython/files/*.py)
    _state['options_table'] = ot
    return [path, ppath, opath]


# ------------------------------------------------------------------------------------------------
# encoding helpers (wire)
# ------------------------------------------------------------------------------------------------

def enc(s):
    return [len(s)] + [ord(c) for c in s]


def raw(s):
    return ' '.join(str(ord(c)) for c in s)


def cps(s):
    return '[' + '.'.join(str(ord(c)) for c in s) + ']'


def optstr(s):
    return '-' if s is None else cps(s)


def optint(i):
    return '-' if i is None else str(i)


def dec(x):
    """float -> 'mant e scale' of its shortest repr (equals the decimal text for <= 15 significant digits)."""
    d = Decimal(repr(float(x)))
    if not d.is_finite():
        return 'nonfinite'
    sign, digits, exp = d.as_tuple()
    mant = int(''.join(map(str, digits)))
    if exp > 0:
        mant *= 10 ** exp
        exp = 0
    scale = -exp
    while scale > 0 and mant % 10 == 0:
        mant //= 10
        scale -= 1
    if mant == 0:
        scale = 0
    return f'{-mant if sign else mant}e{scale}'


def show_pmol(tmp):
    atoms = []
    for a in tmp['atoms']:
        atoms.append(f"{cps(a['element'])} {a['charge']} {optint(a['isotope'])} {optint(a.get('delta_isotope'))} "
                     f"{a['parsed_mapping']} {dec(a['x'])} {dec(a['y'])} {dec(a['z'])} {1 if a.get('is_radical') else 0} "
                     f"{optint(a.get('implicit_hydrogens'))}")
    tr = lambda t: f'{t[0]} {t[1]} {t[2]}'
    return (f"T {optstr(tmp['title'])} A {len(atoms)} " + ' '.join(atoms) + f" B {len(tmp['bonds'])} " +
            ' '.join(map(tr, tmp['bonds'])) + f" S {len(tmp['stereo'])} " + ' '.join(map(tr, tmp['stereo'])))


def show_meta(md):
    return f'M {len(md)} ' + ' '.join(cps(k) + '=' + cps(v) for k, v in md.items())


def exc_name(e):
    return 'err:' + type(e).__name__


def wmol_ints(mol, name=None):
    out = enc(mol.name if name is None else name)
    out.append(len(mol._atoms))
    for n, a in mol._atoms.items():
        out.append(n)
        out += enc(a.atomic_symbol)
        out += [kcoord(a.x), kcoord(a.y), a.charge, a.isotope or 0, int(a.is_radical)]
        nb = mol._bonds[n]
        out.append(len(nb))
        for m, b in nb.items():
            out += [m, b.order]
    wm = mol._wedge_map
    out.append(len(wm))
    for n, m, s in wm:
        out += [n, m, s]
    return out


def kcoord(x):
    return int(round(x * 10000))


def meta_ints(md):
    out = [len(md)]
    for k, v in md.items():
        out += enc(k) + enc(v)
    return out


# ------------------------------------------------------------------------------------------------
# generators
# ------------------------------------------------------------------------------------------------

def snap(mol):
    """coordinates -> exact multiples of 1/10000 (k/10000 formats and parses exactly). MOL files carry cis/trans only as
    geometry, so the cis/trans labels are re-derived from the drawing (the drawing is the record being written)."""
    for _, a in mol.atoms():
        a.x = kcoord(a.x) / 10000
        a.y = kcoord(a.y) / 10000
    for *_, b in mol.bonds():
        b._stereo = None
    mol.flush_cache()
    mol.calculate_cis_trans_from_2d()
    mol.flush_cache()
    return mol


def layout(rng, mol):
    try:
        mol.clean2d()
    except Exception:
        for i, (_, a) in enumerate(mol.atoms()):
            a.x, a.y = (i % 7) * 0.825, (i // 7) * 0.825
    return snap(mol)


def rand_text(rng, lo=1, hi=12, alphabet=PRINTABLE):
    return ''.join(rng.choice(alphabet) for _ in range(rng.randint(lo, hi)))


SAFE = ''.join(c for c in PRINTABLE if c not in '$><&')


def rand_meta(rng, wf=True):
    """metadata dict; wf=True stays inside the domain where the SDF/RDF formats can represent the value."""
    md = {}
    for _ in range(rng.choice([0, 1, 1, 2, 3])):
        if wf:
            k = rand_text(rng, 1, 10, SAFE.replace(' ', '')) if rng.random() < 0.7 else \
                (rand_text(rng, 1, 4, SAFE.replace(' ', '')) + rng.choice('<> ') + rand_text(rng, 1, 4, SAFE.replace(' ', '')))
            lines = []
            for _ in range(rng.choice([1, 1, 1, 2, 3])):
                l = rand_text(rng, 1, 20, SAFE).strip() or 'x'
                if rng.random() < 0.2:
                    l = rng.choice(['DATUM 5', 'AT5 MUD', 'M  END', 'MUD', 'a$b', 'x > y', 'a<b>c']) + l
                lines.append(l)
            md[k] = '\n'.join(lines)
        else:
            md[rand_text(rng, 0, 8)] = '\n'.join(rand_text(rng, 0, 14) for _ in range(rng.choice([1, 2, 3])))
    return md


def rich_meta(rng, nkeys=None):
    """metadata inside the formats' domain that exercises the documented per-line normalisation: blank and whitespace-only
    lines between, before and after text lines, padded lines, padded keys, many keys"""
    md = {}
    for _ in range(nkeys if nkeys is not None else rng.choice([1, 1, 2, 3, 12])):
        k = rand_text(rng, 1, 8, SAFE.replace(' ', ''))
        if rng.random() < 0.3:
            k = rng.choice(['', ' ', '  ']) + k + ' ' + rand_text(rng, 1, 4, SAFE.replace(' ', '')) + rng.choice(['', ' '])
        lines = []
        for _ in range(rng.choice([1, 2, 3, 4, 6])):
            r = rng.random()
            if r < 0.25 and lines:
                lines.append(rng.choice(['', '', ' ', '   ', '\t']))
            else:
                l = rand_text(rng, 1, 16, SAFE).strip() or 'x'
                if rng.random() < 0.3:
                    l = rng.choice([' ', '   ', '\t']) + l + rng.choice(['', ' ', '  '])
                lines.append(l)
        if rng.random() < 0.3:
            lines.append('')
        if rng.random() < 0.15:
            lines.insert(0, '')
        md[k] = '\n'.join(lines)
    return md


META_SPECIAL = [{'k': 'a\n\nb'}, {'k': 'a\n   \nb\n\n\nc'}, {'k': '  padded  \n\tx\t'}, {'k': 'x\n'}, {'k': '\nx'}, {' k ': 'v', 'k2': ' v2 '},
                {'para': 'first paragraph\nstill first\n\nsecond paragraph\n \nthird'}, {f'key{i}': f'value {i}\n\nmore {i}' for i in range(12)},
                {'a b': 'x', 'a  c': 'y'}, {'k': 'M  END\n\n$DATUM x\n\n> <'}]


def decorate_fields(rng, mol):
    """random charges (incl. +-4), isotopes, radicals directly on the atom slots (text-layer stress; valence not kept)."""
    for n, a in mol.atoms():
        r = rng.random()
        if r < 0.12:
            a._charge = rng.choice([-4, -3, -2, -1, 1, 2, 3, 4])
        if rng.random() < 0.08:
            a._isotope = rng.choice(sorted(a.isotopes_distribution))
        if rng.random() < 0.05:
            a._is_radical = True
    mol.flush_cache()
    return mol


# molecules whose stereo elements DEPEND on each other (a centre is chiral only once others are labelled): meso polyols,
# inositols, 1,3-/1,4-disubstituted rings, stereo double bond + centre, allene + centre
DEPENDENT_STEREO = [
    'C[C@H](O)[C@H](O)[C@H](O)C', 'C[C@H](O)[C@@H](O)[C@H](O)C', 'C[C@@H](O)[C@H](O)[C@H](O)C', 'C[C@H](O)[C@H](O)[C@@H](O)C',
    'C[C@@H](O)[C@@H](O)[C@H](O)C', 'OC(=O)[C@H](O)[C@@H](O)[C@H](O)C(O)=O', 'OC(=O)[C@@H](O)[C@@H](O)[C@H](O)C(O)=O',
    'O[C@H]([C@@H](O)C(O)=O)C(O)=O', 'O[C@H]([C@H](O)C(O)=O)C(O)=O',
    'O[C@H]1[C@H](O)[C@@H](O)[C@H](O)[C@@H](O)[C@@H]1O', 'O[C@@H]1[C@@H](O)[C@H](O)[C@@H](O)[C@H](O)[C@H]1O',
    'O[C@H]1[C@@H](O)[C@H](O)[C@@H](O)[C@H](O)[C@@H]1O',
    'C[C@H]1CC[C@@H](C)CC1', 'C[C@H]1CC[C@H](C)CC1', 'O[C@H]1CC[C@@H](O)CC1', 'C[C@H]1C[C@@H](C)C1', 'C[C@H]1C[C@H](C)C1',
    'C[C@H]1CC[C@@H](O)CC1', 'C[C@@H]1C[C@H](O)C[C@H](C)C1', 'C[C@H]1C[C@@H](C)C[C@@H](C)C1',
    'C/C=C/[C@H](O)/C=C\\C', 'C/C=C/[C@@H](O)/C=C\\C', 'C/C=C/[C@H](O)C', 'C/C=C\\[C@H](C)O',
    'CC=[C@]=C[C@H](O)C', 'C[C@H](O)C=[C@@]=C[C@H](C)O',
    'C[C@H](N)[C@H](C)[C@H](N)C', 'C[C@H](Cl)[C@@H](Br)[C@H](Cl)C', 'F[C@H](Cl)[C@H](O)[C@@H](F)Cl',
]

# allenes (and a cumulene) in every substitution pattern: 1 or 2 substituents per terminal, the heavy / acyclic one listed
# first or second, on the first or the second terminal, ring-fused terminals, both configurations
ALLENES = [x.replace('@', a) for a in ('@', '@@') for x in (
    'CC=[C@]=CC', 'CC(Cl)=[C@]=CC', 'CC=[C@]=C(C)Cl', 'CC(Cl)=[C@]=C(C)Br', 'CC(Cl)=[C@]=C(Br)C', 'C(Cl)(C)=[C@]=C(C)Br',
    'ClC(C)=[C@]=C(Br)C', 'CC(I)=[C@]=C1CCC(Br)CC1', 'CC(I)=[C@]=C(C)CCl', 'CC(CC)=[C@]=C(C)CCC', 'OC(C)=[C@]=C(N)C(F)(F)F',
    'FC(Cl)=[C@]=C(Br)I', 'BrC(I)=[C@]=C(Cl)F', 'CC1CCC(CC1)=[C@]=C(C)Br', 'CC(Br)=[C@]=C1CCCC(C)C1', 'CC(Cl)=[C@]=C(CC)c1ccccc1',
    'N[C@H](C)C(C)=[C@]=C(C)Br')]

# records mixing a +-4 atom with other charged atoms, isotopes of both small and large mass difference, radicals + charges
FIELD_MIX = [
    '[Ti+4].[Cl-].[Cl-].[Cl-].[Cl-]', '[Zr+4].[O-2].[O-2]', '[Th+4].[F-].[F-].[F-].[F-]', '[C-4].[Na+].[Na+].[Na+].[Na+]',
    '[Sn+4].[O-2].[O-2]', '[Si-4].[K+].[K+].[K+].[K+]', '[Pb+4].[CH3-].[CH3-].[CH3-].[CH3-]', '[Fe+3].[Cl-].[Cl-].[Cl-]',
    '[N-3].[Li+].[Li+].[Li+]', '[Ti+4].[13CH3-].[Cl-].[Cl-].[Cl-]', '[U+4].[235U+4].[O-2].[O-2].[O-2].[O-2]',
    '[13CH4].[14CH4].[11CH4].[12CH4]', '[2H]O[2H].[3H]O[3H].[1H]O[1H]', '[18OH2].[15OH2].[17OH2]', '[Ce+4].[O-][N+](=O)[O-]',
    '[CH3].[CH3-].[CH3+]', 'C[CH2].[Na+].[Cl-]', '[O-][N+](=O)c1ccccc1[O]', '[Ti+4].[CH2-][CH2].[Cl-].[Cl-].[Cl-]', '[NH4+].[13C-]#[15N]',
    '[Hf+4].[2H-].[2H-].[H-].[H-]', '[Pt+4].[Cl-].[Cl-].[Cl-].[Cl-].[Cl-].[Cl-].[K+].[K+]',
]


def _chain(n, head, mid):
    return head + mid * (n - 2) + head


# quantity-dependent behaviour: MORE THAN 8 (and other than a multiple of 8) labelled atoms of each kind, many wedges, >99 atoms
MANY_LABELS = (
    [_chain(n, '[13CH3]', '[13CH2]') for n in (8, 9, 12, 16, 17, 23)] +
    ['.'.join(['[CH3]'] * n) for n in (9, 17)] + ['.'.join(['[Ti+4]'] * n + ['[Cl-]'] * (4 * n)) for n in (9,)] +
    ['.'.join(['[C-4]'] * 10 + ['[Na+]'] * 40), '.'.join(['[13CH3]'] * 9 + ['[CH3]'] * 9 + ['[Zr+4]'] * 9 + ['[F-]'] * 36),
     '[2H]C1=C([2H])C([2H])=C([2H])C([2H])=C1C([2H])([2H])C([2H])([2H])[2H]',
     'OC[C@H](O)[C@@H](O)[C@H](O)[C@H](O)[C@@H](O)[C@H](O)[C@@H](O)[C@@H](O)[C@H](O)[C@H](O)CO', 'C' * 120,
     '[13CH3][13CH]([13CH3])[13CH2][13C]([13CH3])([13CH3])[13CH2][13CH]([13CH3])[13CH3]'])


def saturate(rng, m):
    """variants of a record with EVERY atom labelled (isotope / radical) and with many +-4 atoms: the quantity-dependent
    neighbourhood of a molecule (property lines holding more than one line's worth of entries)"""
    out = []
    c = m.copy()
    for _, a in c.atoms():
        a._isotope = sorted(a.isotopes_distribution)[-1]
    c.flush_cache()
    out.append(c)
    c = m.copy()
    for _, a in c.atoms():
        a._is_radical = True
    c.flush_cache()
    out.append(c)
    c = m.copy()
    for i, (_, a) in enumerate(c.atoms()):
        a._charge = 4 if i % 2 else -4
    c.flush_cache()
    out.append(c)
    return out


def special_molecules(rng):
    """(tag, molecule) for the deterministic part of the write->read oracle: laid out with the library's clean2d, coordinates
    snapped to 1/10000, cis/trans labels taken from the drawing, stereo labels that are not valid for it dropped (fix_stereo)"""
    out = []
    for smi in DEPENDENT_STEREO + ALLENES + FIELD_MIX + MANY_LABELS:
        m = molgen.parse(smi)
        if m is None:
            continue
        try:
            m.kekule()
        except Exception:
            pass
        layout(rng, m)
        try:
            m.fix_stereo()
        except Exception:
            pass
        out.append((smi, m))
        if smi in DEPENDENT_STEREO or smi in ALLENES:
            # the same structure with other atom numbers and another neighbour (dict) order: the writers' choice among
            # the candidate wedge bonds of a stereo element depends on it
            for k in range(2):
                try:
                    c, _ = molgen.renumber(rng, m, hi=max(len(m) * 2, 12))
                    snap(c)
                    c.fix_stereo()
                    out.append((f'{smi} renumbered#{k}', c))
                except Exception:
                    continue
    return out


def molecules(ctx, k_corpus):
    """(tag, molecule) with layout and exact coordinates"""
    rng = ctx.rng
    out = []
    for tag, m in molgen.handmade():
        out.append((tag, layout(rng, m)))
    for tag, m in molgen.corpus(rng, k_corpus):
        try:
            m.kekule()
        except Exception:
            pass
        out.append((tag, layout(rng, m)))
    for tag, m in molgen.test_files()[:: (7 if ctx.quick else 1)]:
        out.append((tag, snap(m)))
    return out


# ------------------------------------------------------------------------------------------------
# real-code adapters
# ------------------------------------------------------------------------------------------------

def real_sdf_text(mol, mapping=True, cls=None):
    from chython import SDFWrite
    f = io.StringIO()
    w = (cls or SDFWrite)(f, mapping=mapping)
    w.write(mol)
    return f.getvalue()


def real_parse3000(lines):
    from chython.files.mdl import parse_mol_v3000
    try:
        tmp = parse_mol_v3000(list(lines))
        return 'ok ' + show_pmol(tmp) + ' X ' + show_meta(tmp['meta'])
    except Exception as e:
        return exc_name(e)


def real_rdf_text(obj, v3=False, mapping=True):
    """text written by RDFWrite/ERDFWrite *after* the time-stamped two-line header (checked separately)"""
    from chython import RDFWrite, ERDFWrite
    f = io.StringIO()
    w = (ERDFWrite if v3 else RDFWrite)(f, mapping=mapping)
    w.write(obj)
    t = f.getvalue()
    l = t.split('\n', 2)
    if l[0] != '$RDFILE 1' or not l[1].startswith('$DATM    '):
        raise AssertionError('RDF header changed: ' + repr(t[:60]))
    return l[2]


def real_parse2000(lines):
    from chython.files.mdl import parse_mol_v2000
    try:
        return 'ok ' + show_pmol(parse_mol_v2000(list(lines)))
    except Exception as e:
        return exc_name(e)


class _Stub:
    def __init__(self, tmp):
        self.tmp = tmp
        self.meta = {}


class patched_sdf:
    """run the real SDFRead.read_structure with create_molecule / postprocess_molecule replaced by recorders
    (they are outside the model); everything else — block splitting, m_end, parse, mapping, metadata — is the real code."""

    def __enter__(self):
        import chython.files.SDFrw as S
        self.S = S
        self.saved = (S.create_molecule, S.postprocess_molecule)
        S.create_molecule = lambda tmp, **kw: _Stub(tmp)
        S.postprocess_molecule = lambda mol, tmp, **kw: None
        return self

    def __exit__(self, *a):
        self.S.create_molecule, self.S.postprocess_molecule = self.saved


def show_any(tmp):
    if 'meta' in tmp:   # only parse_mol_v3000 returns a 'meta' entry
        return 'v3 ' + show_pmol(tmp) + ' X ' + show_meta(tmp['meta'])
    return 'v2 ' + show_pmol(tmp)


def show_rec(stub):
    return (show_any(stub.tmp) + ' MAP ' + ' '.join(map(str, stub.tmp['mapping'])) + ' ' + show_meta(stub.meta))


def show_rxn(tmp):
    grp = lambda t, ms: f' {t} {len(ms)} ' + ' ; '.join(show_pmol(m) + (' X ' + show_meta(m['meta']) if 'meta' in m else '') for m in ms)
    return f"T {optstr(tmp['title'])}" + grp('R', tmp['reactants']) + grp('P', tmp['products']) + grp('G', tmp['reagents'])


class _RStub(_Stub):
    def molecules(self):
        return []


class patched_rdf:
    def __enter__(self):
        import chython.files.RDFrw as S
        self.S = S
        self.saved = (S.create_molecule, S.postprocess_molecule, S.create_reaction, S.postprocess_parsed_reaction)
        S.create_molecule = lambda tmp, **kw: _Stub(tmp)
        S.postprocess_molecule = lambda mol, tmp, **kw: None
        S.create_reaction = lambda tmp, **kw: _RStub(tmp)
        S.postprocess_parsed_reaction = lambda tmp, **kw: None
        return self

    def __exit__(self, *a):
        S = self.S
        S.create_molecule, S.postprocess_molecule, S.create_reaction, S.postprocess_parsed_reaction = self.saved


def show_rrec(stub, buf):
    if isinstance(stub, _RStub):
        kind = 'rxn3' if buf[4].startswith('M  V30 COUNTS') else 'rxn2'
        return f'{kind} ' + show_rxn(stub.tmp) + ' ' + show_meta(stub.meta)
    return 'mol ' + show_any(stub.tmp) + ' MAP ' + ' '.join(map(str, stub.tmp['mapping'])) + ' ' + show_meta(stub.meta)


def real_rdfread(text, bufsize):
    """mirror of the driver's `rdfread`"""
    from chython import RDFRead
    out = []
    with patched_rdf():
        r = RDFRead(io.StringIO(text), buffer_size=bufsize)
        for _ in range(text.count('\n') + 3):
            try:
                r._read_block(current=False)
            except Exception as e:
                out.append(exc_name(e))
                break
            buf, ms = r._buffer, r._RDFRead__m_start
            head = f'blk {len(buf)} {ms or 0} '
            try:
                stub = r.read_structure(current=True)
                out.append(head + 'ok ' + show_rrec(stub, buf))
            except Exception as e:
                out.append(head + exc_name(e))
        r = RDFRead(io.StringIO(text), buffer_size=bufsize)
        n, crash = 0, '-'
        try:
            for _ in r:
                n += 1
        except Exception as e:
            crash = type(e).__name__
        out.append(f'iter {n} {crash}')
        # index + random access on a real file
        d = tempfile.mkdtemp(prefix='c11_')
        p = os.path.join(d, 'f.rdf')
        try:
            with open(p, 'w', newline='') as f:
                f.write(text)
            try:
                r = RDFRead(p, indexable=True, buffer_size=bufsize)
            except Exception as e:  # no $RFMT/$MFMT line at all: grep exits 1
                out.append('noindex')
                return out
            try:
                shifts = list(r._shifts or [])
                out.append('idx ' + ' '.join(map(str, shifts)))
                for i in range(len(shifts)):
                    try:
                        stub = r[i]
                        out.append(f'get {i} ok ' + show_rrec(stub, r._buffer))
                    except Exception as e:
                        out.append(f'get {i} ' + exc_name(e))
            finally:
                r.close()
                try:
                    os.remove(r._cache_path)
                except OSError:
                    pass
        finally:
            try:
                os.remove(p)
                os.rmdir(d)
            except OSError:
                pass
    return out


def real_sdfread(text, bufsize):
    """mirror of the driver's `sdfread`: step blocks with the real reader, then the real __iter__, then (if possible) the index"""
    from chython import SDFRead
    out = []
    with patched_sdf():
        r = SDFRead(io.StringIO(text), buffer_size=bufsize)
        for _ in range(text.count('\n') + 3):
            try:
                r._read_block(current=False)
            except Exception as e:
                out.append(exc_name(e))
                break
            buf, m_end = r._buffer, r._SDFRead__m_end
            head = f'blk {len(buf)} {m_end if m_end else "-"} '
            try:
                stub = r.read_structure(current=True)
                out.append(head + 'ok ' + show_rec(stub))
            except Exception as e:
                out.append(head + exc_name(e))
        r = SDFRead(io.StringIO(text), buffer_size=bufsize)
        n, crash = 0, '-'
        try:
            for _ in r:
                n += 1
        except Exception as e:
            crash = type(e).__name__
        out.append(f'iter {n} {crash}')
    return out


def real_index(text):
    """`_shifts` built by the real reset_index (grep) on a real file"""
    from chython import SDFRead
    d = tempfile.mkdtemp(prefix='c11_')
    p = os.path.join(d, 'f.sdf')
    try:
        with open(p, 'w', newline='') as f:
            f.write(text)
        r = SDFRead(p, indexable=True)
        try:
            return list(r._shifts or [])
        finally:
            r.close()
            try:
                os.remove(r._cache_path)
            except OSError:
                pass
    finally:
        try:
            os.remove(p)
            os.rmdir(d)
        except OSError:
            pass


# ------------------------------------------------------------------------------------------------
# corruption
# ------------------------------------------------------------------------------------------------

EDIT_ALPHABET = '0123456789 -+._$><MENDCHGISORAVLD\t' + 'abxyz&;='


def corrupt_lines(rng, lines):
    """one structured single edit of a list of lines (each with its '\\n'); returns (kind, new_lines)"""
    lines = list(lines)
    kind = rng.choice(['char', 'char', 'char', 'del-char', 'ins-char', 'del-line', 'dup-line', 'swap', 'field', 'field',
                       'trunc-line', 'prop-line', 'counts', 'sgroup'])
    if not lines:
        return 'empty', lines
    i = rng.randrange(len(lines))
    body = lines[i][:-1] if lines[i].endswith('\n') else lines[i]
    if kind == 'char' and body:
        j = rng.randrange(len(body))
        body = body[:j] + rng.choice(EDIT_ALPHABET) + body[j + 1:]
        lines[i] = body + '\n'
    elif kind == 'del-char' and body:
        j = rng.randrange(len(body))
        lines[i] = body[:j] + body[j + 1:] + '\n'
    elif kind == 'ins-char':
        j = rng.randrange(len(body) + 1)
        lines[i] = body[:j] + rng.choice(EDIT_ALPHABET) + body[j:] + '\n'
    elif kind == 'del-line':
        del lines[i]
    elif kind == 'dup-line':
        lines.insert(i, lines[i])
    elif kind == 'swap' and len(lines) > 1:
        j = rng.randrange(len(lines))
        lines[i], lines[j] = lines[j], lines[i]
    elif kind == 'field' and len(lines) > 4:
        i = rng.randrange(4, len(lines))
        body = lines[i].rstrip('\n')
        a, b = rng.choice([(0, 10), (31, 34), (34, 36), (36, 39), (60, 63), (0, 3), (3, 6), (6, 9), (9, 12), (10, 13), (14, 17)])
        new = rng.choice(['  0', '  1', '  4', '  7', '  8', '  9', ' -1', '   ', '', ' D ', ' A ', ' L ', 'AL ', ' 13', '999', '1e1', '1_0',
                          ' +2', '0x1', ' 1 ', '- 1', '  6', ' 10'])
        lines[i] = body[:a] + new + body[b:] + '\n'
    elif kind == 'trunc-line':
        j = rng.randrange(len(body) + 1)
        lines[i] = body[:j] + '\n'
    elif kind == 'prop-line':
        n = rng.choice([0, 1, 2, 3, 8, -1])
        ent = ''.join(f' {rng.choice([0, 1, 2, 3, 50, -1, 999]):3d} {rng.choice([-4, -1, 0, 2, 4, 13, 15]):3d}' for _ in range(max(n, 0) + rng.choice([0, 0, 1])))
        l = f"M  {rng.choice(['CHG', 'ISO', 'RAD', 'ALS', 'STY', 'XYZ', 'SDD'])}{n:3d}{ent}\n"
        j = max(0, len(lines) - 1 - rng.choice([0, 0, 1, 2]))
        lines.insert(j, l)
    elif kind == 'sgroup':
        # Marvin's implicit-H annotation (as in the repo's arenes.sdf / implicit.sdf), intact or damaged
        k = rng.choice([1, 1, 2, 7])
        a = rng.choice([1, 1, 2, 0, 50, -3])
        blk = [f'M  STY  1 {k:3d} {rng.choice(["DAT", "DAT", "DAT", "SUP", "GEN"])}\n',
               f'M  SAL {k:3d}{rng.choice([1, 1, 1, 2, 0]):3d} {a:3d}\n',
               f'M  SDT {k:3d} {rng.choice(["MRV_IMPLICIT_H", "MRV_IMPLICIT_H", "mrv_implicit_h", "OTHER", "A B"])}\n',
               f'M  SDD {k:3d}     0.0000    0.0000    DR    ALL  0       0\n',
               rng.choice([f'M  SED {k:3d} IMPL_H{rng.choice([0, 1, 2, 3])}\n', f'M  SED {k:3d} IMPL_H/1/\n', f'M  SMT {k:3d} IMPL_Hx\n',
                           f'M  SED {k:3d}\n', f'M  SED {k + 1:3d} IMPL_H1\n'])]
        if rng.random() < 0.4:
            del blk[rng.randrange(len(blk))]
        if rng.random() < 0.2:
            blk.append(blk[0].replace('  1 ', '  2 ').rstrip('\n') + f' {k + 1:3d} DAT\n')
        j = max(0, len(lines) - 1)
        lines[j:j] = blk
    elif kind == 'counts' and len(lines) > 3:
        body = lines[3].rstrip('\n')
        a = rng.choice([0, 3])
        new = rng.choice(['  0', '  1', '  2', ' -1', ' -2', '999', '   ', ' 50', 'abc'])
        lines[3] = body[:a] + new + body[a + 3:] + '\n'
    return kind, lines


def mol_block_lines(text):
    """the MOL block of a written record exactly as SDFRead._read_mol cuts it: up to the first line starting with M  END"""
    lines = text.splitlines(keepends=True)
    for i, l in enumerate(lines):
        if l.startswith('M  END'):
            return lines[:i + 1]
    return lines


def splitkeep(text):
    return text.splitlines(keepends=True) if '\r' not in text else None


# ------------------------------------------------------------------------------------------------
# correspondence
# ------------------------------------------------------------------------------------------------

class Batch:
    """collects (request line, expected response from the real code, case descriptor) and runs the driver once"""

    def __init__(self, ctx, stream):
        self.ctx, self.stream = ctx, stream
        self.req, self.exp, self.case = [], [], []

    def add(self, req, expected, case, key=None):
        self.req.append(req)
        self.exp.append(expected)
        self.case.append(case)
        self.ctx.count((self.stream, key if key is not None else req))

    def run(self):
        ctx = self.ctx
        if not self.req or not ctx.build_ok:
            return
        got = core.run_driver('C11', self.req)
        if len(got) != len(self.req):
            ctx.broke('correspondence', self.stream, f'driver answered {len(got)} lines for {len(self.req)} requests')
            return
        bad = 0
        for g, e, c, rq in zip(got, self.exp, self.case, self.req):
            ctx.cov['comparisons'] = ctx.cov.get('comparisons', 0) + 1
            if 'err:unsupported' in g:
                ctx.dist(self.stream + ':out-of-model')
                continue
            if callable(e):
                ok = e(g)
            else:
                ok = g == e
            if not ok:
                bad += 1
                ctx.cov['disagreements_checked'] += 1
                _state.setdefault('disagreement_requests', []).append((self.stream, rq))
                if bad <= 3:
                    ctx.broke('correspondence', self.stream,
                              f'case {c}\n model: {g[:1200]}\n real : {(e if isinstance(e, str) else "<predicate>")[:1200]}'
                              f'\n request: {rq[:1500]}')
                    _state.setdefault('disagreements', []).append((self.stream, c))
        ctx.dist(self.stream, len(self.req))


def stream_prim(ctx):
    rng = ctx.rng
    b = Batch(ctx, 'prim')
    ns = list(range(-120, 1100)) if not ctx.quick else list(range(-30, 130)) + [rng.randint(-99999, 99999) for _ in range(200)] + [999, 1000, -99, -100]
    for n in ns:
        for w in (3, 2):
            b.add(f'fmtd {w} {n}', cps(f'{n:{w}d}'), ('fmtd', w, n))
    ks = [0, 1, -1, 9999, 10000, -10000, 99999999, -99999999, 999999999, -999999999, 1000000000, 12345, -7145] + \
         [rng.randint(-10 ** rng.randint(1, 10), 10 ** rng.randint(1, 10)) for _ in range(300 if ctx.quick else 3000)]
    for k in ks:
        x = k / 10000
        if kcoord(x) != k:
            continue
        b.add(f'f4 10 {k}', cps(f'{x:10.4f}'), ('f4', k))
        s = f'{x:10.4f}'
        b.add('float ' + raw(s), 'ok ' + dec(float(s)), ('float-of-f4', k))
    alpha = '0123456789 +-._\t\n'
    for _ in range(600 if ctx.quick else 6000):
        s = ''.join(rng.choice(alpha if rng.random() < 0.9 else alpha + 'eExnNiaf') for _ in range(rng.randint(0, 6)))
        try:
            e = f'some {int(s)}'
        except ValueError:
            e = 'none'
        b.add('int ' + raw(s), e, ('int', s))
        try:
            x = float(s)
            e = 'ok ' + dec(x)
        except ValueError:
            e = 'err:ValueError'
        b.add('float ' + raw(s), e, ('float', s))
    b.run()


def stream_writer(ctx, mols):
    """W: real SDFWrite text vs model text; P: parse of that text; both on the same molecules."""
    rng = ctx.rng
    bw = Batch(ctx, 'W:sdf-v2000')
    bp = Batch(ctx, 'P:v2000-written')
    texts = []
    for tag, m in mols:
        m = m.copy()
        if rng.random() < 0.5:
            m, _ = molgen.renumber(rng, m, hi=rng.choice([None, 300, 999, 1200]))
            snap(m)
        if rng.random() < 0.35:
            decorate_fields(rng, m)
        m.name = rng.choice(['', '', rand_text(rng, 1, 30), ' padded ', rand_text(rng, 1, 10, SAFE), 'see M  END', 'x $$$$', 'a >  <b>', 'p $MFMT $DTYPE'])
        m.meta.clear()
        m.meta.update(rand_meta(rng, wf=rng.random() < 0.7))
        mapping = rng.random() < 0.85
        try:
            real = 'ok ' + cps(real_sdf_text(m, mapping))
        except Exception as e:
            real = exc_name(e)
        bw.add(f'sdfwrite {int(mapping)} ' + ' '.join(map(str, wmol_ints(m) + meta_ints(m.meta))), real,
               (tag, 'sdfwrite'), key=(tag, real))
        ctx.dist('W:atoms<=%d' % (10 * (len(m) // 10 + 1)))
        _state.setdefault('case_mols', {})[tag] = m
        if real.startswith('ok'):
            text = real_sdf_text(m, mapping)
            texts.append((tag, m, text))
            lines = mol_block_lines(text)
            if '\r' not in text and '\n' not in m.name:
                bp.add('pmol2000 ' + raw(''.join(lines)), real_parse2000(lines), (tag, 'parse-written'), key=''.join(lines))
    if ctx.cov['samples'] == [] and texts:
        ctx.sample({'stream': 'W', 'case': texts[0][0], 'text_head': texts[0][2][:200]})
    bw.run()
    bp.run()
    # V3000 dialect on the same molecules
    from chython import ESDFWrite
    bw3 = Batch(ctx, 'W:sdf-v3000')
    bp3 = Batch(ctx, 'P:v3000-written')
    texts3 = []
    for tag, m, _ in texts:
        mapping = rng.random() < 0.85
        try:
            t3 = real_sdf_text(m, mapping, ESDFWrite)
            real = 'ok ' + cps(t3)
        except Exception as e:
            t3, real = None, exc_name(e)
        bw3.add(f'esdfwrite {int(mapping)} ' + ' '.join(map(str, wmol_ints(m) + meta_ints(m.meta))), real,
                (tag, 'esdfwrite'), key=(tag, real))
        if t3 is not None and '\r' not in t3 and '\n' not in m.name:
            texts3.append((tag, m, t3))
            lines = mol_block_lines(t3)
            bp3.add('pmol3000 ' + raw(''.join(lines)), real_parse3000(lines), (tag, 'parse-written-v3'), key=''.join(lines))
    bw3.run()
    bp3.run()
    _state['texts3'] = texts3
    return texts


def stream_parse_corrupt(ctx, texts, n):
    rng = ctx.rng
    b = Batch(ctx, 'P:v2000-corrupted')
    for _ in range(n):
        tag, m, text = rng.choice(texts)
        if '\r' in text or '\n' in m.name:
            continue
        lines = mol_block_lines(text)
        kinds = []
        for _ in range(rng.choice([1, 1, 1, 2])):
            k, lines = corrupt_lines(rng, lines)
            kinds.append(k)
        if any('\r' in l for l in lines):
            continue
        real = real_parse2000(lines)
        ctx.dist('P:outcome:' + real.split(' ')[0])
        b.add('pmol2000 ' + raw(''.join(lines)), real, (tag, 'corrupt', kinds), key=''.join(lines))
    b.run()


V3_EDITS = [' CHG=2', ' CHG=-1', ' CHG=x', ' MASS=13', ' MASS=', ' RAD=2', ' RAD', ' CFG=1', ' CFG=3', ' CFG=2', ' CFG=1=1', ' FOO=(1 2 3)',
            ' "a b"', ' (1 2', ' -', '-', ' ENDPTS=(2 1 2)', ' ATTCHORD=(2 1 Al)', ' HCOUNT=1']


def corrupt_v3(rng, lines):
    lines = list(lines)
    kind = rng.choice(['generic', 'generic', 'kv', 'kv', 'cont', 'token', 'counts', 'sgroup'])
    cand = [i for i, l in enumerate(lines) if l.startswith('M  V30 ') and l[7:8].isdigit()]
    if kind == 'generic' or not cand:
        return corrupt_lines(rng, lines)
    i = rng.choice(cand)
    body = lines[i].rstrip('\n')
    if kind == 'kv':
        lines[i] = body + rng.choice(V3_EDITS) + '\n'
    elif kind == 'cont':   # split the line with a continuation mark
        j = rng.randrange(8, len(body) + 1)
        lines[i:i + 1] = [body[:j] + '-\n', 'M  V30 ' + rng.choice(['', ' ', '  ']) + body[j:] + rng.choice(['\n', '  \n'])]
    elif kind == 'token':
        toks = body.split(' ')
        j = rng.randrange(len(toks))
        toks[j] = rng.choice(['D', 'R#', '[C,N]', 'NOT[C]', '*', '9', '10', '0', '-1', 'x', '1.5', '', '  ', 'H', '1e1'])
        lines[i] = ' '.join(toks) + '\n'
    elif kind == 'counts':
        for k, l in enumerate(lines):
            if l.startswith('M  V30 COUNTS'):
                lines[k] = rng.choice(['M  V30 COUNTS 0 0 0 0 0\n', 'M  V30 COUNTS 1\n', 'M  V30 COUNTS -1 2 0 0 0\n', 'M  V30 COUNTS 2 1 0 0 0 A=b C= =d A=e\n',
                                       'M  V30 COUNTS x y\n', l.rstrip('\n') + ' K=v\n'])
    elif kind == 'sgroup':
        for k, l in enumerate(lines):
            if l.startswith('M  V30 END CTAB'):
                a = rng.choice(['(1 1)', '(1 1)', '(2 1 2)', '(1 99)', '(0)', '()', '(1 x)'])
                fn = rng.choice(['MRV_IMPLICIT_H', 'MRV_IMPLICIT_H', '"MRV_IMPLICIT_H"', 'OTHER', '""'])
                fd = rng.choice(['IMPL_H1', 'IMPL_H2', '"IMPL_H0"', 'IMPL_Hx', 'IMPL_H', '""'])
                if rng.random() < 0.5:
                    blk = [f'M  V30 1 DAT 0 ATOMS={a} FIELDNAME={fn} -\n',
                           'M  V30 FIELDDISP="    0.0000    0.0000    DR    ALL  0       0" -\n', f'M  V30 FIELDDATA={fd}\n']
                else:
                    blk = [f'M  V30 1 {rng.choice(["DAT", "DAT", "SRU", "SUP", "DATA"])} 0 ATOMS={a} FIELDNAME={fn} FIELDDATA={fd}{rng.choice(["", " NOEQ", " X=1"])}\n']
                lines[k:k] = [rng.choice(['M  V30 BEGIN SGROUP\n', 'M  V30 BEGIN SGROUP\n', 'M  V30 BEGIN COLLECTION\n'])] + blk + \
                    rng.choice([['M  V30 END SGROUP\n'], ['M  V30 END SGROUP\n'], []])
                break
    return kind, lines


def stream_parse_corrupt_v3(ctx, n):
    rng = ctx.rng
    texts3 = _state.get('texts3') or []
    if not texts3:
        return
    b = Batch(ctx, 'P:v3000-corrupted')
    bs = Batch(ctx, 'P:v3000-split')
    for _ in range(n):
        tag, m, text = rng.choice(texts3)
        lines = mol_block_lines(text)
        kinds = []
        for _ in range(rng.choice([1, 1, 2])):
            k, lines = corrupt_v3(rng, lines)
            kinds.append(k)
        if any('\r' in l for l in lines):
            continue
        real = real_parse3000(lines)
        ctx.dist('P3:outcome:' + real.split(' ')[0])
        b.add('pmol3000 ' + raw(''.join(lines)), real, (tag, 'corrupt-v3', kinds), key=''.join(lines))
    from chython.files.mdl.emol import split
    alpha = 'ab1 ()"=-  '
    for _ in range(n // 2):
        t = ''.join(rng.choice(alpha) for _ in range(rng.randint(0, 14)))
        bs.add('v3split ' + raw(t), ' '.join(cps(x) for x in split(t)), ('split', t))
    b.run()
    bs.run()


def rand_reaction(rng, texts):
    from chython import ReactionContainer
    pick = lambda k: [rng.choice(texts)[1].copy() for _ in range(k)]
    a, b, c = pick(rng.choice([0, 1, 1, 2, 3])), pick(rng.choice([0, 1, 1, 2])), pick(rng.choice([0, 0, 0, 1, 2]))
    if not (a or b or c):
        a = pick(1)
    r = ReactionContainer(a, b, c)
    r.name = rng.choice(['', rand_text(rng, 1, 20), ' x '])
    r.meta.update(rand_meta(rng, wf=rng.random() < 0.7))
    return r


def wrxn_ints(r):
    out = enc(r.name)
    for grp in (r.reactants, r.products, r.reagents):
        out.append(len(grp))
        for m in grp:
            out += wmol_ints(m)
    return out


def stream_rdf(ctx, texts, n):
    """RDF writers (molecule + reaction, both dialects), then framing/parse/iteration/index on the written and corrupted files"""
    rng = ctx.rng
    bw = Batch(ctx, 'W:rdf')
    bf = Batch(ctx, 'F:rdf-multi-record')
    pieces = []
    for _ in range(n):
        v3 = rng.random() < 0.5
        mapping = rng.random() < 0.85
        if rng.random() < 0.5:
            tag, m, _t = rng.choice(texts)
            m = m.copy()
            m.meta.clear()
            m.meta.update(rand_meta(rng, wf=rng.random() < 0.7))
            try:
                t = real_rdf_text(m, v3, mapping)
                real = 'ok ' + cps(t)
            except AssertionError:
                raise
            except Exception as e:
                t, real = None, exc_name(e)
            bw.add(f'rdfwmol {int(v3)} {int(mapping)} ' + ' '.join(map(str, wmol_ints(m) + meta_ints(m.meta))), real,
                   (tag, 'rdfwmol', v3), key=real)
        else:
            r = rand_reaction(rng, texts)
            try:
                t = real_rdf_text(r, v3, mapping)
                real = 'ok ' + cps(t)
            except AssertionError:
                raise
            except Exception as e:
                t, real = None, exc_name(e)
            bw.add(f'rdfwrxn {int(v3)} {int(mapping)} ' + ' '.join(map(str, wrxn_ints(r) + meta_ints(r.meta))), real,
                   ('rxn', 'rdfwrxn', v3, len(r.reactants), len(r.products), len(r.reagents)), key=real)
            ctx.dist(f'W:rxn:{len(r.reactants)}>{len(r.reagents)}>{len(r.products)}')
        if t is not None and '\r' not in t:
            pieces.append(t)
    bw.run()
    if not pieces:
        return
    for _ in range(n):
        k = rng.randint(1, 4)
        recs = [rng.choice(pieces) for _ in range(k)]
        for pos in range(k):
            rs = list(recs)
            lines = rs[pos].splitlines(keepends=True)
            mode = rng.choice(['edit', 'edit', 'edit', 'v3edit', 'empty', 'garbage', 'short', 'fmt-in-meta', 'dtype-first', 'intact', 'del-mol'])
            if mode == 'edit':
                _, lines = corrupt_lines(rng, lines)
                rs[pos] = ''.join(lines)
            elif mode == 'v3edit':
                _, lines = corrupt_v3(rng, lines)
                rs[pos] = ''.join(lines)
            elif mode == 'empty':
                rs[pos] = lines[0]
            elif mode == 'garbage':
                rs[pos] = lines[0] + ''.join(rand_text(rng, 0, 30) + '\n' for _ in range(rng.randint(1, 6)))
            elif mode == 'short':
                rs[pos] = ''.join(lines[:rng.randint(1, 5)])
            elif mode == 'fmt-in-meta':
                rs[pos] = ''.join(lines) + '$DTYPE k\n$DATUM a\n' + rng.choice(['$MFMT', '$RFMT x', ' $RFMT', '$DTYPE', '$DTYPE  ', '$RXN']) + '\nrest\n'
            elif mode == 'dtype-first':
                rs[pos] = lines[0] + '$DTYPE k\n$DATUM v\n' + ''.join(lines[1:])
            elif mode == 'del-mol':
                idx = [i for i, l in enumerate(lines) if l.startswith('$MOL') or l.startswith('M  V30 BEGIN CTAB')]
                if idx:
                    i = rng.choice(idx)
                    del lines[i:i + rng.randint(1, 8)]
                    rs[pos] = ''.join(lines)
            text = rng.choice(['$RDFILE 1\n$DATM    01/01/26 00:00\n', '', 'junk\n']) + ''.join(rs)
            if '\r' in text:
                continue
            bsz = rng.choice([10000, 10000, 10000, rng.randint(5, 60)])
            exp = real_rdfread(text, bsz)
            ctx.dist('FR:mode:' + mode)
            if exp and exp[-1] == 'noindex':
                e = ' | '.join(exp[:-1])
                bf.add(f'rdfread {bsz} ' + raw(text), (lambda g, e=e: g.split(' | idx')[0] == e), (mode, pos, k), key=text)
            else:
                bf.add(f'rdfread {bsz} ' + raw(text), ' | '.join(exp), (mode, pos, k), key=text)
    bf.run()
    # the repository's own RDF test files
    bt = Batch(ctx, 'F:repo-test-files-rdf')
    for p in sorted((core.REPO / 'test').glob('*.rdf')):
        text = p.read_text()
        if '\r' in text or not text.isascii():
            ctx.dist('F:skipped-non-ascii-or-cr')
            continue
        if ctx.quick:
            parts = re.split(r'(?m)^(?=\$[RM]FMT)', text)
            text = ''.join(parts[:6])
        exp = real_rdfread(text, 10000)
        bt.add('rdfread 10000 ' + raw(text), ' | '.join(exp), (p.name,), key=p.name)
    bt.run()
    # metadata blocks
    bm = Batch(ctx, 'M:rdf-metadata')
    from chython import RDFRead
    alpha = PRINTABLE + '$$DATUMDTYPE  '
    for _ in range(n * 4):
        lines = []
        for _ in range(rng.randint(0, 6)):
            r = rng.random()
            if r < 0.3:
                lines.append('$DTYPE' + rng.choice([' ', '', '  ', 'x']) + rand_text(rng, 0, 8, alpha))
            elif r < 0.6:
                lines.append(rng.choice(['$DATUM ', '$DATUM', '$DATU', 'DATUM ', '$DATUM $DATUM ']) + rand_text(rng, 0, 12, alpha))
            else:
                lines.append(rand_text(rng, 0, 12, alpha))
        text = ''.join(l + '\n' for l in lines)
        r = RDFRead(io.StringIO(''))
        r._buffer = ['x\n'] + text.splitlines(keepends=True)
        r._RDFRead__m_start = 1
        bm.add('rdfmeta ' + raw(text), show_meta(r.read_metadata()), ('rdfmeta',), key=text)
    bm.run()


def stream_testfiles(ctx):
    """the repository's own SDF test files through the real framing + parsers vs the model"""
    b = Batch(ctx, 'F:repo-test-files')
    for p in sorted((core.REPO / 'test').glob('*.sdf')):
        text = p.read_text()
        if '\r' in text or not text.isascii():
            ctx.dist('F:skipped-non-ascii-or-cr')
            continue
        if ctx.quick:
            text = ''.join(text.split('$$$$\n')[i] + '$$$$\n' for i in range(min(6, text.count('$$$$\n'))))
        exp = real_sdfread(text, 10000)
        try:
            idx = real_index(text)
        except Exception:
            idx = None
        if not idx:  # no `$$$$` line at all: grep exits 1 / `_shifts` empty — indexing unavailable, compare the rest
            e = ' | '.join(exp)
            b.add('sdfread 10000 ' + raw(text), (lambda g, e=e: g.rsplit(' | idx', 1)[0] == e), (p.name,), key=p.name)
        else:
            b.add('sdfread 10000 ' + raw(text), ' | '.join(exp + ['idx ' + ' '.join(map(str, idx))]), (p.name,), key=p.name)
    b.run()


def stream_framing(ctx, texts, n):
    """multi-record files, one record corrupted (or replaced / emptied / truncated) at every position"""
    rng = ctx.rng
    b = Batch(ctx, 'F:multi-record')
    for _ in range(n):
        k = rng.randint(1, 4)
        recs = [rng.choice(texts)[2] for _ in range(k)]
        if any('\r' in r for r in recs):
            continue
        for pos in range(k):
            rs = list(recs)
            lines = rs[pos].splitlines(keepends=True)
            mode = rng.choice(['edit', 'edit', 'edit', 'empty', 'garbage', 'no-end', 'short', 'dollar-in-meta', 'no-sep', 'intact'])
            if mode == 'edit':
                _, lines = corrupt_lines(rng, lines)
                rs[pos] = ''.join(lines)
            elif mode == 'empty':
                rs[pos] = '$$$$\n'
            elif mode == 'garbage':
                rs[pos] = ''.join(rand_text(rng, 0, 30) + '\n' for _ in range(rng.randint(1, 6))) + '$$$$\n'
            elif mode == 'no-end':
                rs[pos] = ''.join(l for l in lines if not l.startswith('M  END'))
            elif mode == 'short':
                rs[pos] = ''.join(lines[:rng.randint(0, 3)]) + 'M  END\n$$$$\n'
            elif mode == 'dollar-in-meta':
                rs[pos] = ''.join(lines[:-1]) + '>  <k>\n' + rng.choice(['a$$$$', '$$$$x', ' $$$$', '$$$']) + '\n\n$$$$\n'
            elif mode == 'no-sep':
                rs[pos] = ''.join(lines[:-1])
            text = ''.join(rs)
            if rng.random() < 0.1 and text.endswith('\n'):
                text = text[:-1]
            if '\r' in text:
                continue
            bs = rng.choice([10000, 10000, 10000, rng.randint(3, 40)])
            exp = real_sdfread(text, bs)
            try:
                idx = real_index(text)
            except Exception as e:
                idx = None
            ctx.dist('F:mode:' + mode)
            if idx is None or not idx:
                # no separator line at all: reset_index leaves `_shifts` empty (indexing unavailable) — compare the rest
                e = ' | '.join(exp)
                b.add(f'sdfread {bs} ' + raw(text), (lambda g, e=e: g.rsplit(' | idx', 1)[0] == e), (mode, pos, k), key=text)
            else:
                b.add(f'sdfread {bs} ' + raw(text), ' | '.join(exp + ['idx ' + ' '.join(map(str, idx))]), (mode, pos, k), key=text)
    b.run()


def stream_meta(ctx, n):
    rng = ctx.rng
    from chython import SDFRead
    b = Batch(ctx, 'M:sdf-metadata')
    alpha = PRINTABLE + '><<>>  &gt;&lt;'
    for _ in range(n):
        lines = []
        for _ in range(rng.randint(0, 6)):
            r = rng.random()
            if r < 0.4:
                lines.append(rng.choice(['>  <', '> <', '><', '>  a <', '> 1 <']) + rand_text(rng, 0, 8, alpha) + rng.choice(['>', '> ', '>(1)', '', '>x>']))
            elif r < 0.5:
                lines.append('')
            else:
                lines.append(rand_text(rng, 0, 16, alpha))
        text = ''.join(l + '\n' for l in lines)
        if rng.random() < 0.1:
            text = text[:-1] if text else text
        r = SDFRead(io.StringIO(''))
        r._buffer = ['M  END\n'] + text.splitlines(keepends=True)
        r._SDFRead__m_end = 1
        md = r.read_metadata()
        b.add('meta ' + raw(text), show_meta(md), ('meta',), key=text)
    b.run()


# ------------------------------------------------------------------------------------------------
# property-level oracle on the real code (used by RT stream, search and probe)
# ------------------------------------------------------------------------------------------------

def stereo_record(mol):
    """configuration labels made independent of neighbour (dict) order: every sign is translated to the order given by
    sorted atom numbers (the stored sign is relative to the molecule's own neighbour order)."""
    tet, allene, ct = [], [], []
    for n, env in mol.stereogenic_tetrahedrons.items():
        if mol._atoms[n].stereo is not None:
            tet.append((n, bool(mol._translate_tetrahedron_sign(n, sorted(env)))))
    for c, (n0, n1, n2, n3) in mol.stereogenic_allenes.items():
        if mol._atoms[c].stereo is not None:
            nn = min(x for x in (n0, n2) if x is not None)
            nm = min(x for x in (n1, n3) if x is not None)
            allene.append((c, nn, nm, bool(mol._translate_allene_sign(c, nn, nm))))
    for (n, m), (n0, n1, n2, n3) in mol.stereogenic_cis_trans.items():
        nn = min(x for x in (n0, n2) if x is not None)
        nm = min(x for x in (n1, n3) if x is not None)
        try:
            sgn = bool(mol._translate_cis_trans_sign(n, m, nn, nm))
        except KeyError:
            continue
        if n > m:
            n, m, nn, nm = m, n, nm, nn
        ct.append((n, m, nn, nm, sgn))
    return sorted(tet), sorted(allene), sorted(ct)


def record(mol):
    """what the property says must be preserved"""
    atoms = [(n, a.atomic_symbol, a.isotope, a.charge, bool(a.is_radical)) for n, a in mol.atoms()]
    bonds = sorted((min(n, m), max(n, m), b.order) for n, m, b in mol.bonds())
    tet, allene, ct = stereo_record(mol)
    return {'atoms': atoms, 'bonds': bonds, 'tetrahedral': tet, 'allene': allene, 'cis_trans': ct, 'name': mol.name.strip()}


def norm_value(v):
    """the readers' documented per-line whitespace normalisation"""
    return '\n'.join(l.strip() for l in v.split('\n') if l.strip())


def norm_meta(md):
    return {k.strip(): norm_value(v) for k, v in md.items() if norm_value(v)}


WRITERS = ('SDFWrite', 'ESDFWrite', 'RDFWrite', 'ERDFWrite', 'MRVWrite')


def io_classes(fmt):
    import chython.files as F
    rd = {'SDFWrite': F.SDFRead, 'ESDFWrite': F.SDFRead, 'RDFWrite': F.RDFRead, 'ERDFWrite': F.RDFRead, 'MRVWrite': F.MRVRead}[fmt]
    return getattr(F, fmt), rd


def write_text(fmt, objs):
    W, _ = io_classes(fmt)
    f = io.StringIO()
    w = W(f)
    for o in objs:
        w.write(o)
    w.close()
    return f.getvalue()


def read_text(fmt, text, **kw):
    _, Rd = io_classes(fmt)
    f = io.BytesIO(text.encode()) if fmt == 'MRVWrite' else io.StringIO(text)
    kw.setdefault('calc_cis_trans', True)
    return list(Rd(f, **kw))


def in_meta_domain(md, fmt):
    """WFmeta: the metadata the format can represent (everything else is a recorded limitation, see known findings)"""
    ks = list(md)
    if len(set(k.strip() for k in ks)) != len(ks):
        return False
    for k, v in md.items():
        if not k.strip() or '\n' in k or k.strip().startswith('chython_'):
            return False
        if not norm_value(v):
            return False
        if fmt in ('SDFWrite', 'ESDFWrite'):
            if '&gt;' in k or '&lt;' in k:
                return False
            for l in v.split('\n'):
                if l.startswith('$$$$') or re.match(r'^>([^<]+)<([^>]+)>([^><]*)$', l):
                    return False
        elif fmt in ('RDFWrite', 'ERDFWrite'):
            for l in v.split('\n'):
                if l.startswith(('$DTYPE', '$DATUM', '$RFMT', '$MFMT')):
                    return False
            # the first value line follows `$DATUM ` on the same line; continuation lines are separate lines
    return True


def in_stereo_domain(mol):
    """the property's recorded writer/reader asymmetry: explicit hydrogens on stereocentres are outside the domain"""
    centres = {n for n, a in mol.atoms() if a.stereo is not None}
    for n, m, b in mol.bonds():
        if b.stereo is not None:
            centres.update((n, m))
    for (n, m) in mol.stereogenic_cis_trans:
        centres.update((n, m))
    for c in mol.stereogenic_allenes:
        centres.update(mol._stereo_allenes_terminals[c])
    for n in centres:
        if any(mol._atoms[x].atomic_number == 1 for x in mol._bonds[n]):
            return False
    return True


def _meta_of(o):
    # the readers' own bookkeeping keys (parsing log, …) are not record content; text the reader could not attach to a
    # key (`chython_unparsed_metadata`) IS: nothing of that kind was written
    return {k: (v if isinstance(v, str) else repr(v)) for k, v in o.meta.items()
            if not k.startswith('chython_') or k == 'chython_unparsed_metadata'}


def obj_record(o):
    from chython import ReactionContainer
    if isinstance(o, ReactionContainer):
        return {'rxn': {'reactants': [record(m) for m in o.reactants], 'products': [record(m) for m in o.products],
                        'reagents': [record(m) for m in o.reagents], 'name': o.name.strip()},
                'meta': _meta_of(o)}
    return {'mol': record(o), 'meta': _meta_of(o)}


def expected_record(o):
    r = obj_record(o)
    r['meta'] = norm_meta(r['meta'])
    return _jsonish(r)


def diff_records(exp, got):
    """names of the fields of `exp` that differ in `got` (both JSON-normalised)"""
    if set(exp) != set(got):
        return ['kind']
    out = []
    if norm_meta(exp['meta']) != norm_meta(got['meta']):
        out.append('meta')
    if 'mol' in exp:
        out += [f for f in exp['mol'] if exp['mol'][f] != got['mol'].get(f)]
    else:
        for role in ('reactants', 'products', 'reagents'):
            a, b = exp['rxn'][role], got['rxn'][role]
            if len(a) != len(b):
                out.append(f'{role}-count')
            else:
                for x, y in zip(a, b):
                    out += [f'{role}.{f}' for f in x if x[f] != y.get(f)]
        if exp['rxn']['name'] != got['rxn']['name']:
            out.append('name')
    return sorted(set(out))


def roundtrip_check(fmt, objs):
    """property oracle on the real code: returns None or (signature, what, replay-input)"""
    exp = [expected_record(o) for o in objs]
    try:
        text = write_text(fmt, objs)
    except Exception as e:
        return (f'C11/roundtrip/{fmt}/write-crash/{type(e).__name__}', f'{fmt}.write raised {e!r}',
                {'kind': 'roundtrip-objs', 'fmt': fmt, 'smiles': [str(o) for o in objs]})
    inp = {'kind': 'roundtrip-text', 'fmt': fmt, 'text': text, 'expect': exp}
    return check_text(inp)


def string_api_check(fmt, obj, text):
    """the string entry points `mdl_mol(text)` / `mdl_rxn(text)` on the block of ONE written record"""
    from chython import ReactionContainer
    from chython.files import mdl_mol, mdl_rxn
    exp = expected_record(obj)
    lines = text.splitlines(keepends=True)
    try:
        if isinstance(obj, ReactionContainer):
            if fmt not in ('RDFWrite', 'ERDFWrite'):
                return None
            i = next(k for k, l in enumerate(lines) if l.startswith('$RXN'))
            j = next((k for k, l in enumerate(lines) if l.startswith('$DTYPE')), len(lines))
            got = mdl_rxn(''.join(lines[i:j]), calc_cis_trans=True)
            g = _jsonish(obj_record(got))
            g['meta'], e = {}, dict(exp, meta={})
        else:
            if fmt == 'MRVWrite':
                return None
            i = next((k + 1 for k, l in enumerate(lines) if l.startswith(('$MFMT',))), 0)
            j = next(k for k, l in enumerate(lines) if l.startswith('M  END'))
            got = mdl_mol(''.join(lines[i:j + 1]), calc_cis_trans=True)
            g = _jsonish(obj_record(got))
            g['meta'], e = {}, dict(exp, meta={})
    except Exception as ex:
        return (f'C11/string-api/{fmt}/crash/{type(ex).__name__}', f'mdl_mol/mdl_rxn on the written block raised {ex!r}',
                {'kind': 'roundtrip-text', 'fmt': fmt, 'text': text, 'expect': [exp]})
    d = diff_records(e, g)
    if d:
        return (f'C11/string-api/{fmt}/' + '+'.join(x.split('.')[-1] for x in d)[:80],
                f'mdl_mol/mdl_rxn on the written block changed {d}', {'kind': 'string-api', 'fmt': fmt, 'text': text, 'expect': exp,
                                                                      'reaction': isinstance(obj, ReactionContainer)})
    return None


def check_text(inp):
    """read the text back twice — with the reader's default options (cis/trans is then not derived, everything else must be
    preserved) and with calc_cis_trans=True (everything incl. cis/trans) — and compare with the expected records"""
    fmt, text, exp = inp['fmt'], inp['text'], inp['expect']
    for mode, kw in (('default-options', {'calc_cis_trans': False}), ('calc_cis_trans', {'calc_cis_trans': True})):
        try:
            back = read_text(fmt, text, **kw)
        except Exception as e:
            return (f'C11/roundtrip/{fmt}/read-crash/{type(e).__name__}', f'reading back ({mode}) raised {e!r}', inp)
        if len(back) != len(exp):
            return (f'C11/roundtrip/{fmt}/record-lost', f'{len(back)} records read back ({mode}), {len(exp)} written', inp)
        for i, (e, b) in enumerate(zip(exp, back)):
            d = diff_records(e, _jsonish(obj_record(b)))
            if mode == 'default-options':
                d = [x for x in d if not x.endswith('cis_trans')]
            if d:
                return (f'C11/roundtrip/{fmt}/' + '+'.join(x.split('.')[-1] for x in d)[:80],
                        f'record {i}: fields changed after write->read ({mode}): {d}', inp)
    return None


# every kind of subscription: forward, stepped, from the end, reversed, empty
SLICES = [slice(None, None, None), slice(None, None, 2), slice(1, None, None), slice(None, -1, None), slice(1, None, 3),
          slice(None, None, -1), slice(None, None, -2), slice(-1, 0, -1), slice(-1, None, -3), slice(-2, -1, None),
          slice(1, 1, None), slice(0, 0, None), slice(-1, -1, -1), slice(0, 1, None), slice(-3, None, None), slice(5, 1, None)]


def index_check(fmt, text, suffix, expect=None, how=None):
    """random access by index == sequential reading (real file, real grep index); with `expect`, sequential reading
    must also give exactly these records (the file is a re-spelling of a written file)"""
    _, Rd = io_classes(fmt)
    d = tempfile.mkdtemp(prefix='c11_')
    p = os.path.join(d, 'f' + suffix)
    inp = {'kind': 'index', 'fmt': fmt, 'text': text, 'suffix': suffix}
    if expect is not None:
        inp['expect'] = expect
        inp['how'] = how
    try:
        with open(p, 'w', newline='') as f:
            f.write(text)
        seq = [_jsonish(obj_record(o)) for o in Rd(p, calc_cis_trans=True)]
        if expect is not None:
            if len(seq) != len(expect):
                return (f'C11/foreign/{Rd.__name__}/record-count', f'{how}: {len(seq)} records read sequentially, {len(expect)} expected', inp)
            for i, (e, b) in enumerate(zip(expect, seq)):
                dd = diff_records(e, b)
                if dd:
                    return (f'C11/foreign/{Rd.__name__}/' + '+'.join(dd)[:60], f'{how}: record {i} differs from the same record in the original file: {dd}', inp)
        try:
            r = Rd(p, indexable=True, calc_cis_trans=True)
        except Exception as e:
            if not seq:
                return None
            return (f'C11/index/{Rd.__name__}/cannot-index/{type(e).__name__}',
                    f'indexable reader cannot be built ({type(e).__name__}) for a file that reads sequentially as {len(seq)} records' + (f' [{how}]' if how else ''), inp)
        try:
            if len(r) != len(seq):
                return (f'C11/index/{Rd.__name__}/length', f'len(indexed)={len(r)} but {len(seq)} records are read sequentially', inp)
            for i in range(len(seq)):
                try:
                    o = r[i]
                except Exception as e:
                    return (f'C11/index/{Rd.__name__}/{type(e).__name__}', f'reader[{i}] raised {type(e).__name__} (sequential reading returns {len(seq)} records)', inp)
                if _jsonish(obj_record(o)) != seq[i]:
                    return (f'C11/index/{Rd.__name__}/record-differs', f'reader[{i}] differs from the {i}-th record read sequentially', inp)
            if seq:
                if _jsonish(obj_record(r[-1])) != seq[-1]:
                    return (f'C11/index/{Rd.__name__}/record-differs', 'reader[-1] differs from the last record read sequentially', inp)
                if [_jsonish(obj_record(o)) for o in r[0:len(seq)]] != seq:
                    return (f'C11/index/{Rd.__name__}/slice-differs', 'reader[0:n] differs from sequential reading', inp)
                n = len(seq)
                for i in range(-n, n):
                    if _jsonish(obj_record(r[i])) != seq[i]:
                        return (f'C11/index/{Rd.__name__}/record-differs', f'reader[{i}] differs from list(reader)[{i}]', inp)
                for sl in SLICES:
                    start, stop, step = sl.indices(n)
                    if step > 0 and start >= n and start != stop:
                        continue        # known finding C11/index/slice-past-end-raises
                    try:
                        got = [_jsonish(obj_record(o)) for o in r[sl]]
                    except Exception as e:
                        return (f'C11/index/{Rd.__name__}/slice-raises/{type(e).__name__}',
                                f'reader[{sl.start}:{sl.stop}:{sl.step}] raised {type(e).__name__} (n={n})', inp)
                    if got != seq[sl]:
                        return (f'C11/index/{Rd.__name__}/slice-differs',
                                f'reader[{sl.start}:{sl.stop}:{sl.step}] gives {len(got)} records, list(reader)[same slice] gives {len(seq[sl])} (n={n})', inp)
        finally:
            r.close()
            try:
                os.remove(r._cache_path)
            except OSError:
                pass
    finally:
        try:
            os.remove(p)
            os.rmdir(d)
        except OSError:
            pass
    return None


SESSION_SMILES = ['CCO', 'CC(=O)[O-]', 'C=O', '[NH4+]', 'C1CC1', 'CC(C)=O', 'N#N', '[13CH4]', 'C[CH2]', 'OO']


def _spec_objs(specs):
    from chython import smiles, ReactionContainer
    objs = []
    for sp in specs:
        def mk(smi, off=0):
            m = smiles(smi)
            for j, (_, a) in enumerate(m.atoms()):
                a.x, a.y = j * 0.825, (j % 2) * 0.5
            if off:
                m.remap({n: n + off for n in m})
            m.flush_cache()
            return m
        if 'rxn' in sp:
            r, p_ = sp['rxn']
            rs, off = [], 0
            for x in r:                      # disjoint atom numbers within a side (duplicates are renumbered by the reader)
                rs.append(mk(x, off))
                off += len(rs[-1])
            ps, off = [], 100
            for x in p_:
                ps.append(mk(x, off))
                off += len(ps[-1])
            o = ReactionContainer(rs, ps)
        else:
            o = mk(sp['smiles'])
        o.name = sp.get('name', '')
        o.meta.update(sp.get('meta', {}))
        objs.append(o)
    return objs


def sessions_check(inp):
    """records written to a REAL file in several writer sessions (`append=True` from the second one on, or from the
    first), through str / pathlib.Path / open-file targets and `with`, then read back sequentially and by index"""
    from pathlib import Path
    fmt = inp['fmt']
    W, Rd = io_classes(fmt)
    d = tempfile.mkdtemp(prefix='c11_')
    p = os.path.join(d, 'f' + ('.sdf' if 'SDF' in fmt else '.rdf' if 'RDF' in fmt else '.mrv'))
    sessions = [_spec_objs(sp) for sp in inp['sessions']]
    exp = [expected_record(o) for ss in sessions for o in ss]
    try:
        for k, objs in enumerate(sessions):
            kw = {}
            if fmt != 'MRVWrite':
                kw['append'] = bool(k) or bool(inp.get('first_append'))
            target = inp.get('target', 'str')
            if target == 'file':
                f = open(p, 'a' if kw.get('append') else 'w')
                w = W(f, **kw)
            else:
                w = W(Path(p) if target == 'path' else p, **kw)
            if inp.get('with'):
                with w:
                    for o in objs:
                        w.write(o)
            else:
                for o in objs:
                    w.write(o)
                w.close()
            if target == 'file':
                f.close()
        try:
            back = [_jsonish(obj_record(o)) for o in Rd(p, calc_cis_trans=True)]
        except Exception as e:
            return (f'C11/sessions/{fmt}/read-crash/{type(e).__name__}', f'reading the file written in {len(sessions)} sessions raised {e!r}', inp)
        if len(back) != len(exp):
            return (f'C11/sessions/{fmt}/record-count', f'{len(back)} records read, {len(exp)} written in {len(sessions)} sessions', inp)
        for i, (e, b) in enumerate(zip(exp, back)):
            dd = diff_records(e, b)
            if dd:
                return (f'C11/sessions/{fmt}/' + '+'.join(x.split('.')[-1] for x in dd)[:60],
                        f'record {i} of a file written in {len(sessions)} sessions (append mode, target {inp.get("target", "str")}): fields changed {dd}', inp)
        if fmt != 'MRVWrite':
            r = Rd(p, indexable=True, calc_cis_trans=True)
            try:
                if len(r) != len(exp):
                    return (f'C11/sessions/{fmt}/index-length', f'len(indexed reader) = {len(r)}, {len(exp)} records written', inp)
                for i in range(len(exp)):
                    if diff_records(exp[i], _jsonish(obj_record(r[i]))):
                        return (f'C11/sessions/{fmt}/index-record-differs', f'reader[{i}] differs from the record written', inp)
            finally:
                r.close()
                try:
                    os.remove(r._cache_path)
                except OSError:
                    pass
    finally:
        import shutil
        shutil.rmtree(d, ignore_errors=True)
    return None


def rand_sessions(rng, fmt):
    def spec():
        if fmt in ('RDFWrite', 'ERDFWrite', 'MRVWrite') and rng.random() < 0.3:
            sp = {'rxn': [[rng.choice(SESSION_SMILES)], [rng.choice(SESSION_SMILES)]]}
        else:
            sp = {'smiles': rng.choice(SESSION_SMILES)}
        sp['name'] = rng.choice(['', 't ' + rand_text(rng, 1, 8, SAFE.replace(' ', ''))])
        md = rich_meta(rng, nkeys=rng.choice([1, 1, 2]))      # every record carries metadata: stray lines must show
        sp['meta'] = md if in_meta_domain(md, fmt) else {'k': 'v'}
        return sp
    ns = 1 if fmt == 'MRVWrite' else rng.choice([2, 2, 3])
    return {'kind': 'sessions', 'fmt': fmt, 'sessions': [[spec() for _ in range(rng.choice([1, 2, 3]))] for _ in range(ns)],
            'first_append': rng.random() < 0.3, 'target': rng.choice(['str', 'str', 'path', 'file']), 'with': rng.random() < 0.5}


def sessions_stream(ctx, n):
    rng = ctx.rng
    for fmt in WRITERS:
        for _ in range(n if fmt != 'MRVWrite' else max(2, n // 3)):
            inp = rand_sessions(rng, fmt)
            ctx.count(('RT-sessions', fmt, repr(inp)))
            ctx.dist('RT:sessions:' + fmt)
            r = sessions_check(inp)
            if r:
                ctx.fail(*r)


def foreign_spellings(rng, fmt, text):
    """the same records as other programs spell them: delimiter / marker lines with trailing blanks or text, CRLF line
    ends, no final line end, blank lines after the last record"""
    sdf = fmt in ('SDFWrite', 'ESDFWrite')
    lines = text.split('\n')
    out = []
    if sdf:
        idx = [i for i, l in enumerate(lines) if l == '$$$$']
        for pad in ('  ', ' ', '\t'):
            ls = list(lines)
            for i in idx:
                if rng.random() < 0.6:
                    ls[i] = '$$$$' + pad
            if ls != lines:
                out.append((f'delimiter lines with trailing {pad!r}', '\n'.join(ls)))
        if idx:
            ls = list(lines)
            ls[rng.choice(idx)] = '$$$$ '
            out.append(('one delimiter line with a trailing blank', '\n'.join(ls)))
    else:
        idx = [i for i, l in enumerate(lines) if l in ('$RFMT', '$MFMT')]
        ls = list(lines)
        for n, i in enumerate(idx):
            ls[i] = lines[i] + (f' $RIREG {n + 1}' if lines[i] == '$RFMT' else f' $MIREG {n + 1}')
        out.append(('registry numbers on the marker lines', '\n'.join(ls)))
        ls = list(lines)
        for i in idx:
            if rng.random() < 0.6:
                ls[i] = lines[i] + '  '
        if ls != lines:
            out.append(('marker lines with trailing blanks', '\n'.join(ls)))
    out.append(('CRLF line ends', text.replace('\n', '\r\n')))
    if text.endswith('\n'):
        out.append(('no line end after the last line', text[:-1]))
        out.append(('CRLF line ends, none after the last line', text[:-1].replace('\n', '\r\n')))
    out.append(('blank lines after the last record', text + '\n\n'))
    return out


def foreign_stream(ctx, mols, n):
    rng = ctx.rng
    for fmt, suffix in (('SDFWrite', '.sdf'), ('ESDFWrite', '.sdf'), ('RDFWrite', '.rdf'), ('ERDFWrite', '.rdf')):
        for _ in range(n):
            objs = make_objects(rng, mols, fmt, rng.choice([2, 3, 5, 8]))
            text = write_text(fmt, objs)
            good = [_jsonish(obj_record(o)) for o in read_text(fmt, text)]
            if len(good) != len(objs):
                continue
            for how, t in foreign_spellings(rng, fmt, text):
                ctx.count(('RT-foreign', fmt, t))
                ctx.dist('RT:foreign:' + fmt)
                r = index_check(fmt, t, suffix, expect=good, how=how)
                if r:
                    ctx.fail(*r)


def history_specs(rng, fmt, k):
    """record orders that make a reader's per-record state visible: with / without metadata, short / long, molecule /
    reaction, one-sided reactions — every permutation of four such records is a history"""
    import itertools
    rx = fmt in ('RDFWrite', 'ERDFWrite', 'MRVWrite')
    a = {'rxn': [['CCO'], ['CC=O']], 'name': 'small with data', 'meta': {'yield': '95', 'note': 'line 1\nline 2'}} if rx else \
        {'smiles': 'CO', 'name': 'small with data', 'meta': {'yield': '95', 'note': 'line 1\nline 2'}}
    b = {'rxn': [['CC(=O)O', 'OCC', 'CCCCCCCC'], ['CC(=O)OCC', 'O']], 'name': 'big without data'} if rx else \
        {'smiles': 'CCCCCCCCCCCCCCCCCCCC', 'name': 'big without data'}
    c = {'smiles': 'CC(C)CC(C)CC(C)C', 'name': 'molecule without data'}
    d = {'rxn': [['C=C'], []], 'name': 'one-sided with data', 'meta': {'k': 'v'}} if rx else {'smiles': 'N', 'name': 'other with data', 'meta': {'k': 'v'}}
    perms = list(itertools.permutations([a, b, c, d]))
    rng.shuffle(perms)
    return [{'kind': 'sessions', 'fmt': fmt, 'sessions': [list(p)], 'first_append': False, 'target': 'str', 'with': True} for p in perms[:k]]


def history_stream(ctx, k):
    for fmt in WRITERS:
        for inp in history_specs(ctx.rng, fmt, k):
            ctx.count(('RT-history', fmt, tuple(sp['name'] for sp in inp['sessions'][0])))
            ctx.dist('RT:history:' + fmt)
            r = sessions_check(inp)
            if r:
                ctx.fail(r[0].replace('/sessions/', '/history/'), r[1], inp)


def damage_check(inp):
    """a damaged record is skipped without losing the others: records before/after position k must be read unchanged"""
    fmt = inp['fmt']
    _, Rd = io_classes(fmt)
    try:
        back = [_jsonish(obj_record(o)) for o in read_text(fmt, inp['text'])]
    except Exception as e:
        return (f'C11/damage/{Rd.__name__}/crash/{type(e).__name__}',
                f'reading a file whose record {inp["k"]} is damaged ({inp["how"]}) raised {type(e).__name__}: {e}', inp)
    before, after = inp['before'], inp['after']
    sep = ('$$$$',) if Rd.__name__ == 'SDFRead' else ('$RFMT', '$MFMT')
    ls = inp['text'].split('\n')
    empty_record = any(a.startswith(sep) and b.startswith(sep) for a, b in zip(ls, ls[1:])) or \
        (Rd.__name__ == 'SDFRead' and ls[0].startswith(sep))
    if empty_record and len(back) == len(before):
        return (f'C11/damage/{Rd.__name__}/empty-record-ends-iteration',
                f'record {inp["k"]} is empty (two consecutive separator lines): reading stops there, {len(after)} following record(s) lost', inp)
    if back[:len(before)] != before or (after and back[-len(after):] != after) or len(back) < len(before) + len(after):
        return (f'C11/damage/{Rd.__name__}/other-records-lost',
                f'record {inp["k"]} damaged ({inp["how"]}): {len(back)} records read, expected the {len(before)} before and {len(after)} after it unchanged', inp)
    return None


def damage_variants(rng, fmt, piece):
    """damaged versions of ONE written record that keep its separator and introduce no separator-like line"""
    lines = piece.splitlines(keepends=True)
    sdf = fmt in ('SDFWrite', 'ESDFWrite')
    body = lines[:-1] if sdf else lines[1:]          # without `$$$$` / without `$MFMT|$RFMT`
    wrap = (lambda b: ''.join(b) + lines[-1]) if sdf else (lambda b: lines[0] + ''.join(b))
    out = [('emptied', wrap([])), ('only M  END', wrap(['M  END\n'])), ('first 2 lines', wrap(body[:2])),
           ('garbage', wrap([rand_text(rng, 1, 20, SAFE) + '\n' for _ in range(3)])),
           ('no M  END', wrap([l for l in body if not l.startswith('M  END')]))]
    for _ in range(4):
        k, b = corrupt_lines(rng, body)
        if any(l.startswith(('$$$$', '$RFMT', '$MFMT')) for l in b):
            continue
        out.append(('edit:' + k, wrap(b)))
    return out


def make_objects(rng, mols, fmt, k):
    """k records inside the property's domain for writer `fmt` (molecules; reactions for the RDF/MRV writers)"""
    from chython import ReactionContainer
    objs = []
    for _ in range(k):
        if fmt in ('RDFWrite', 'ERDFWrite', 'MRVWrite') and rng.random() < 0.5:
            nr, npr, ng = rng.choice([(1, 1, 0), (2, 1, 0), (1, 2, 1), (1, 1, 2), (2, 2, 0), (1, 0, 0), (0, 1, 0)])
            ms, nxt = [], 1
            for _ in range(nr + npr + ng):
                m = rng.choice(mols)[1].copy()
                m.remap({n: i for i, n in enumerate(m, nxt)})
                nxt += len(m)
                m.meta.clear()
                m.name = ''
                ms.append(m)
            o = ReactionContainer(ms[:nr], ms[nr:nr + npr], ms[nr + npr:])
        else:
            o = rng.choice(mols)[1].copy()
            o.meta.clear()
        o.name = rng.choice(['', rand_text(rng, 1, 20, SAFE).strip(), 'see M  END', 'x $$$$ y', 'a >  <b>', 'p $MFMT $DTYPE $DATUM'])
        md = rich_meta(rng) if rng.random() < 0.6 else rand_meta(rng, wf=True)
        if in_meta_domain(md, fmt):
            o.meta.update(md)
        objs.append(o)
    return objs


MARKER_LINES = ['$MOL', '$RXN', '$RXN V3000', 'M  END', 'M  V30 BEGIN CTAB', 'M  V30 END CTAB', 'M  V30 BEGIN PRODUCT', 'M  V30 END REACTANT',
                'M  V30 COUNTS 1 1', 'M  V30 BEGIN ATOM', 'M  CHG  1   1   1', 'M  V30 1 C 0 0 0 0 -', '$$$$', '$MFMT', '$RFMT', '$DTYPE x', '$DATUM y',
                '>  <z>', '> <z>', '$RDFILE 1', '  1  0  0  0  0  0            999 V2000', '<cml>', '</molecule>', '<MChemicalStruct>']


def marker_lines_stream(ctx):
    """RT-marker-lines: data items whose value lines look like structure / framing lines of the same or another format, on
    molecule and reaction records, first and in the middle of a three-record file, through every writer (only values the
    format can carry: in_meta_domain). The structure part and the other records must not notice."""
    from chython import smiles, ReactionContainer

    def mk(smi):
        m = smiles(smi)
        for j, (_, a) in enumerate(m.atoms()):
            a.x, a.y = j * 0.825, (j % 2) * 0.5
        m.flush_cache()
        return m
    for fmt in WRITERS:
        kinds = ('mol', 'rxn') if fmt in ('RDFWrite', 'ERDFWrite', 'MRVWrite') else ('mol',)
        for line in MARKER_LINES:
            for v in (f'a\n{line}\nb', line, f'{line}\n{line}'):
                md = {'k': v, 'k2': 'after'}
                if not in_meta_domain(md, fmt):
                    continue
                for kind in kinds:
                    for pos in (0, 1):
                        objs = [mk('CC'), mk('CCC'), mk('C=O')]
                        if kind == 'rxn':
                            objs = [ReactionContainer([o], [o.copy()]) for o in objs]
                        objs[pos].meta.update(md)
                        ctx.count(('RT-marker-lines', fmt, kind, v, pos))
                        ctx.dist('RT:marker-lines:' + fmt)
                        r = roundtrip_check(fmt, objs)
                        if r:
                            ctx.fail(*r)



def stream_roundtrip(ctx, mols, n):
    """RT: property-level oracles on the real code inside the stated domain"""
    rng = ctx.rng
    mols = [(t, m) for t, m in mols if in_stereo_domain(m) and max(m) <= 999]
    ctx.dist('RT:molecules-in-domain', len(mols))
    if not mols:
        return
    special = [(t, m) for t, m in special_molecules(rng) if in_stereo_domain(m)]
    _state['special'] = special
    ctx.dist('RT:special-molecules', len(special))
    ctx.dist('RT:special-labelled-centres', sum(len(stereo_record(m)[0]) for _, m in special))
    for fmt in WRITERS:
        for tag, m in special:
            o = m.copy()
            o.meta.clear()
            ctx.count(('RT-special', fmt, tag))
            ctx.dist('RT:special:' + fmt)
            r = roundtrip_check(fmt, [o])
            if r:
                ctx.fail(*r)
            elif '\n' not in o.name:
                r = string_api_check(fmt, o, write_text(fmt, [o]))
                if r:
                    ctx.fail(*r)
    for fmt in WRITERS:
        for md in META_SPECIAL:
            if not in_meta_domain(md, fmt):
                continue
            ctx.count(('RT-meta-special', fmt, tuple(md.items())))
            ctx.dist('RT:meta-special:' + fmt)
            r = meta_probe({'kind': 'meta', 'fmt': fmt, 'meta': md, 'neighbours': True})
            if r:
                ctx.fail(*r)
    marker_lines_stream(ctx)
    sessions_stream(ctx, 6 if ctx.quick else 60)
    history_stream(ctx, 6 if ctx.quick else 24)
    foreign_stream(ctx, mols, 2 if ctx.quick else 20)
    for fmt in WRITERS:
        for _ in range(n):
            objs = make_objects(rng, mols, fmt, rng.choice([1, 1, 2, 3]))
            if len(objs) == 1 and rng.random() < 0.5:
                ctx.dist('RT:string-api:' + fmt)
                r = string_api_check(fmt, objs[0], write_text(fmt, objs))
                if r:
                    ctx.fail(*r)
            ctx.count(('RT', fmt, tuple(str(o) for o in objs), tuple(tuple(sorted(o.meta.items())) for o in objs)))
            ctx.dist('RT:' + fmt)
            r = roundtrip_check(fmt, objs)
            if r:
                ctx.fail(*r)
    for fmt, suffix in (('SDFWrite', '.sdf'), ('ESDFWrite', '.sdf'), ('RDFWrite', '.rdf'), ('ERDFWrite', '.rdf')):
        for _ in range(max(2, n // 4)):
            objs = make_objects(rng, mols, fmt, rng.choice([1, 2, 3, 4]))
            text = write_text(fmt, objs)
            ctx.count(('RT-index', fmt, text))
            ctx.dist('RT:index:' + fmt)
            r = index_check(fmt, text, suffix)
            if r:
                ctx.fail(*r)
        for _ in range(max(2, n // 4)):
            k = rng.randint(1, 3)
            objs = make_objects(rng, mols, fmt, k)
            pieces = [write_text(fmt, [o]) for o in objs]
            if fmt in ('RDFWrite', 'ERDFWrite'):
                head = pieces[0].split('\n', 2)
                pieces = [p.split('\n', 2)[2] for p in pieces]
                head = head[0] + '\n' + head[1] + '\n'
            else:
                head = ''
            good = [_jsonish(obj_record(o)) for o in read_text(fmt, head + ''.join(pieces))]
            if len(good) != k:
                continue
            pos = rng.randrange(k)
            for how, dmg in damage_variants(rng, fmt, pieces[pos]):
                text = head + ''.join(pieces[:pos] + [dmg] + pieces[pos + 1:])
                ctx.count(('RT-damage', fmt, text))
                ctx.dist('RT:damage:' + fmt)
                r = damage_check({'kind': 'damage', 'fmt': fmt, 'text': text, 'k': pos, 'how': how,
                                  'before': good[:pos], 'after': good[pos + 1:]})
                if r:
                    ctx.fail(*r)


# ------------------------------------------------------------------------------------------------
# O:options — every documented reader option takes effect on every carrier (molecule and reaction records alike)
# ------------------------------------------------------------------------------------------------

OPTION_CARRIERS = (('SDFWrite', 'mol', 'file'), ('ESDFWrite', 'mol', 'file'), ('RDFWrite', 'mol', 'file'),
                   ('ERDFWrite', 'mol', 'file'), ('RDFWrite', 'rxn', 'file'), ('ERDFWrite', 'rxn', 'file'),
                   ('MRVWrite', 'mol', 'file'), ('MRVWrite', 'rxn', 'file'),
                   ('SDFWrite', 'mol', 'string'), ('ESDFWrite', 'mol', 'string'),
                   ('RDFWrite', 'rxn', 'string'), ('ERDFWrite', 'rxn', 'string'))
OPTIONS = ('remap', 'ignore', 'ignore_bad_isotopes', 'calc_cis_trans', 'ignore_stereo')
# `ignore` also reaches the RXN parsers: a reaction with one unreadable molecule (query atom) — dropped or refused
OPTION_RXN_PARSE = (('RDFWrite', 'rxn', 'file'), ('ERDFWrite', 'rxn', 'file'), ('RDFWrite', 'rxn', 'string'), ('ERDFWrite', 'rxn', 'string'))
OPTION_KNOWN = {('RDFWrite', 'mol', 'file', 'remap'): 'C11/options/RDFRead/mol-record/remap',
                ('ERDFWrite', 'mol', 'file', 'remap'): 'C11/options/RDFRead/mol-record/remap',
                ('RDFWrite', 'mol', 'file', 'ignore'): 'C11/options/RDFRead/mol-record/ignore',
                ('ERDFWrite', 'mol', 'file', 'ignore'): 'C11/options/RDFRead/mol-record/ignore'}


def _option_molecule(option):
    """the fixed record on which the option is observable (explicit coordinates, atom numbers 5 9 2 7)"""
    from chython import smiles
    if option == 'calc_cis_trans':
        m = smiles('C/C=C/C')
        xy = ((0, 0), (0.825, 0.5), (1.65, 0), (2.475, 0.5))
    else:
        m = smiles('C[C@H](N)O')
        xy = ((-0.7, -0.4), (0, 0), (0.7, -0.4), (0, 0.8))
    for n, (x, y) in zip((1, 2, 3, 4), xy):
        m.atom(n).x, m.atom(n).y = x, y
    m.flush_cache()
    m.remap({1: 5, 2: 9, 3: 2, 4: 7})
    if option == 'ignore_bad_isotopes':
        m.atom(5)._isotope = 3      # no carbon isotope: the containers refuse it
        m.flush_cache()
    return m


def _duplicate_numbers(fmt, text):
    """the same record with every atom-atom mapping number set to 1 (what `ignore=False` must refuse)"""
    if fmt == 'MRVWrite':
        return re.sub(r'mrvMap="\d+"', 'mrvMap="1"', text)
    out = []
    for l in text.split('\n'):
        if len(l) == 69 and l[30] == ' ' and l[34:36] == ' 0' and l[:10].strip().replace('.', '').replace('-', '').isdigit():
            l = l[:60] + '  1' + l[63:]         # V2000 atom line, `{m:3d}` in columns 61-63
        elif l.startswith('M  V30 ') and len(l.split()) >= 8 and '.' in l.split()[4]:
            t = l.split(' ')
            t[8] = '1'                          # M  V30 n sym x y z m
            l = ' '.join(t)
        out.append(l)
    return '\n'.join(out)


def _option_read(fmt, kind, api, text, **kw):
    """molecules of the first record (reaction: first reactant), [] when the record is skipped, or the exception name"""
    from chython.files import mdl_mol, mdl_rxn
    try:
        if api == 'string':
            lines = text.splitlines(keepends=True)
            if kind == 'rxn':
                i = next(k for k, l in enumerate(lines) if l.startswith('$RXN'))
                got = [mdl_rxn(''.join(lines[i:]), **kw)]
            else:
                j = next(k for k, l in enumerate(lines) if l.startswith('M  END'))
                got = [mdl_mol(''.join(lines[:j + 1]), **kw)]
        else:
            _, Rd = io_classes(fmt)
            f = io.BytesIO(text.encode()) if fmt == 'MRVWrite' else io.StringIO(text)
            got = list(Rd(f, **kw))
    except Exception as e:
        return type(e).__name__
    if kind == 'rxn':
        return [m for r in got for m in r.reactants][:1]
    return got[:1]


def _query_atom(text):
    """the one-atom molecule of the record gets a query atom symbol the MOL parsers refuse (V2000 `A`, V3000 `[C,N]`)"""
    lines = text.split('\n')
    for i, l in enumerate(lines):
        if l.startswith('  1  0') and l.endswith('V2000'):
            lines[i + 1] = lines[i + 1][:31] + 'A  ' + lines[i + 1][34:]
        elif l.startswith('M  V30 COUNTS 1 0'):
            lines[i + 2] = lines[i + 2].replace(' C ', ' [C,N] ', 1)
    return '\n'.join(lines)


def rxn_parse_ignore_check(inp):
    """`ignore` at the RXN parsers: default reads the reaction without the unreadable molecule, ignore=False refuses it"""
    from chython import ReactionContainer, smiles
    fmt, api = inp['fmt'], inp['api']
    m = _option_molecule('remap')
    q = smiles('C')
    q.remap({1: 30})
    text = _query_atom(write_text(fmt, [ReactionContainer([m, q], [m.copy()])]))

    def read(**kw):
        from chython.files import mdl_rxn
        try:
            if api == 'string':
                lines = text.splitlines(keepends=True)
                i = next(k for k, l in enumerate(lines) if l.startswith('$RXN'))
                return [mdl_rxn(''.join(lines[i:]), **kw)]
            return list(io_classes(fmt)[1](io.StringIO(text), **kw))
        except Exception as e:
            return type(e).__name__
    off, on = read(), read(ignore=False)
    sig = f'C11/options/{fmt}/rxn-{api}/ignore-parse'
    bad = None
    if not (isinstance(off, list) and len(off) == 1 and len(off[0].reactants) == 1 and len(off[0].products) == 1):
        bad = f'default ignore=True: expected the reaction without the unreadable molecule, got {off if isinstance(off, str) else [str(r) for r in off]}'
    elif isinstance(on, list) and on:
        bad = f'ignore=False accepts a reaction with an unreadable molecule: {[str(r) for r in on]}'
    return (sig, f'{fmt} reaction via {"mdl_rxn" if api == "string" else "reader"}: {bad}', dict(inp, signature=sig)) if bad else None


def options_check(inp):
    """property oracle on the real code: the reader option `inp['option']` has its documented effect on this carrier"""
    from chython import ReactionContainer
    fmt, kind, api, option = inp['fmt'], inp['kind2'], inp['api'], inp['option']
    if option == 'ignore-parse':
        return rxn_parse_ignore_check(inp)
    m = _option_molecule(option)
    obj = ReactionContainer([m], [m.copy()]) if kind == 'rxn' else m
    text = write_text(fmt, [obj])
    if option == 'ignore':
        text = _duplicate_numbers(fmt, text)
    base = {'calc_cis_trans': False}
    off = _option_read(fmt, kind, api, text, **base)
    on = _option_read(fmt, kind, api, text, **dict(base, **{option: option != 'ignore'}))
    sig = OPTION_KNOWN.get((fmt, kind, api, option), f'C11/options/{fmt}/{kind}-{api}/{option}')
    where = f'{fmt} {kind} record via {"mdl_" + kind if api == "string" else "reader"}'

    def nums(r):
        return [n for n, _ in r[0].atoms()] if isinstance(r, list) and r else r

    bad = None
    if option == 'remap':
        if nums(off) != [5, 9, 2, 7]:
            bad = f'default read gives atom numbers {nums(off)}, written 5 9 2 7'
        elif (nums(on) if kind == 'mol' else (isinstance(on, list) and sorted(nums(on)))) != [1, 2, 3, 4]:
            # molecules are renumbered in atom order; reactions close the gaps of the numbering (order of numbers kept)
            bad = f'remap=True gives atom numbers {nums(on)}, documented: renumbered from one'
    elif option == 'ignore':
        if not (isinstance(off, list) and off and sorted(set(nums(off))) == sorted(nums(off)) and len(nums(off)) == 4):
            bad = f'duplicated mapping numbers, default ignore=True: got {nums(off)}, expected the record with 4 distinct numbers'
        elif isinstance(on, list) and on:
            bad = f'duplicated mapping numbers are accepted with ignore=False (numbers {nums(on)}); MappingError is documented'
    elif option == 'ignore_bad_isotopes':
        if isinstance(off, list) and off and len(off[0]) == 4 and all(a.isotope is None for _, a in off[0].atoms()):
            bad = 'an impossible isotope (3C) is silently reset with the default ignore_bad_isotopes=False'
        elif not (isinstance(on, list) and on and [(n, a.atomic_symbol, a.isotope) for n, a in on[0].atoms()] ==
                  [(5, 'C', None), (9, 'C', None), (2, 'N', None), (7, 'O', None)]):
            bad = f'ignore_bad_isotopes=True does not read the record with the isotope reset: {nums(on)}'
    elif option == 'calc_cis_trans':
        c0 = len(stereo_record(off[0])[2]) if isinstance(off, list) and off else off
        c1 = len(stereo_record(on[0])[2]) if isinstance(on, list) and on else on
        if c1 != 1:
            bad = f'calc_cis_trans=True: {c1} cis/trans labels on a drawn trans-2-butene, expected 1'
        elif c0 != 0:
            bad = f'calc_cis_trans=False: {c0} cis/trans labels, expected none'
    elif option == 'ignore_stereo':
        c0 = len(stereo_record(off[0])[0]) if isinstance(off, list) and off else off
        c1 = len(stereo_record(on[0])[0]) if isinstance(on, list) and on else on
        if c0 != 1:
            bad = f'default read: {c0} tetrahedral labels from the wedge, expected 1'
        elif c1 != 0:
            bad = f'ignore_stereo=True: {c1} tetrahedral labels, expected none'
    if bad:
        return (sig, f'{where}, option {option}: {bad}', dict(inp, signature=sig))
    return None


def stream_options(ctx):
    """O:options — 12 carriers x 5 options on the real code; the static counterpart is the regenerated forwarding table"""
    for fmt, kind, api in OPTION_CARRIERS:
        for option in OPTIONS:
            inp = {'kind': 'options', 'fmt': fmt, 'kind2': kind, 'api': api, 'option': option}
            ctx.count(('O', fmt, kind, api, option))
            ctx.dist('O:options:' + option)
            r = options_check(inp)
            if r:
                ctx.fail(*r)
    for fmt, kind, api in OPTION_RXN_PARSE:
        inp = {'kind': 'options', 'fmt': fmt, 'kind2': kind, 'api': api, 'option': 'ignore-parse'}
        ctx.count(('O', fmt, kind, api, 'ignore-parse'))
        ctx.dist('O:options:ignore-parse')
        r = options_check(inp)
        if r:
            ctx.fail(*r)



# ------------------------------------------------------------------------------------------------
# N:meta-spec — the specification's domain / normalisation (Spec/CtfileData.lean) against the oracle's and the real code
# ------------------------------------------------------------------------------------------------

SPEC_LINES = ['', ' ', '   ', 'x', ' padded ', 'M  END', 'M  END  ', '$', '$ 5', 'a$$$$', '$$$$', '$$$$ x', '>', '> <', '>  <z>', '> <z> (1)',
              '>x', 'a > b', '<k>', '&gt;', 'a&lt;b', '$DTYPE q', '$DATUM r', ' $DATUM s', '$MFMT', '$RFMT x', '$RXN', 'DATUM', 'AT5 MUD',
              '-', 'text -', '\t', 'tab\there']
SPEC_KEYS = ['k', ' k ', 'a b', 'a  b', 'a>b', 'a<b', '<>', 'a&b', 'a&gt;b', '&lt;', '$DTYPE', 'M  END', '>  <k>', 'k2', ' k2', 'long key name']


def spec_meta(rng):
    md = {}
    for _ in range(rng.choice([1, 1, 2, 3])):
        k = rng.choice(SPEC_KEYS) if rng.random() < 0.7 else rand_text(rng, 1, 8)
        lines = [rng.choice(SPEC_LINES) if rng.random() < 0.6 else rand_text(rng, 0, 12) for _ in range(rng.choice([1, 1, 2, 3, 5]))]
        md[k] = '\n'.join(lines)
    return md


def out_of_domain_class(md, fmt):
    """the recorded limitation (known finding) a dictionary outside the domain falls under, or None"""
    lines = [l for v in md.values() for l in v.split('\n')]
    if fmt in ('SDFWrite', 'ESDFWrite'):
        if any(l.startswith('$$$$') for l in lines):
            return 'C11/meta/SDF/value-line-starts-with-$$$$'
        if any(re.match(r'^>([^<]+)<([^>]+)>([^><]*)$', l) for l in lines):
            return 'C11/meta/SDF/value-line-looks-like-key'
        if any('&gt;' in k or '&lt;' in k for k in md):
            return 'C11/meta/SDF/key-contains-escape-literal'
    else:
        if any(l.startswith(('$RFMT', '$MFMT')) for l in lines):
            return 'C11/meta/RDF/value-line-starts-with-record-marker'
        if any(l.startswith('$DTYPE') for l in lines):
            return 'C11/meta/RDF/value-line-starts-with-$DTYPE'
        if any(l.startswith('$DATUM') for l in lines):
            return 'C11/meta/RDF/value-line-starts-with-$DATUM'
    return None


def real_meta_roundtrip(fmt, md):
    from chython import smiles
    m = smiles('C')
    m.meta.update(md)
    try:
        got = read_text(fmt, write_text(fmt, [m]))
    except Exception as e:
        return 'crash:' + type(e).__name__
    if len(got) != 1:
        return f'records:{len(got)}'
    return list(_meta_of(got[0]).items())


def stream_meta_spec(ctx, n):
    """N:meta-spec. For each generated dictionary the driver evaluates the specification side (sdMetaOk, rdMetaOk, normMeta);
    (1) normMeta = the oracle's norm_meta; (2) inside the specification's domain the REAL write->read equals normMeta (the
    statement of sdf_meta_spec_roundtrip / rdf_meta_spec_roundtrip evaluated on the code) and the oracle's domain holds;
    (3) outside: the real code either still returns normMeta or the dictionary falls into a recorded limitation."""
    if not ctx.build_ok:
        return
    rng = ctx.rng
    mds = [dict(md) for md in META_SPECIAL] + [spec_meta(rng) for _ in range(n)] + [rich_meta(rng) for _ in range(n // 4)]
    mds = [md for md in mds if len({k.strip() for k in md}) == len(md) and all(c in PRINTABLE + '\n\t' for kv in md.items() for x in kv for c in x)
           and not any('\n' in k for k in md)]
    got = core.run_driver('C11', ['normmeta ' + ' '.join(map(str, meta_ints(md))) for md in mds])
    if len(got) != len(mds):
        ctx.broke('correspondence', 'N:meta-spec', f'driver answered {len(got)} lines for {len(mds)} requests')
        return
    bad = 0
    for md, g in zip(mds, got):
        ctx.count(('N:meta-spec', tuple(md.items())))
        ctx.cov['comparisons'] = ctx.cov.get('comparisons', 0) + 1
        try:
            _, sd, _, rd, rest = g.split(' ', 4)
        except ValueError:
            ctx.broke('correspondence', 'N:meta-spec', f'driver: {g[:200]}')
            return
        want = norm_meta(md)
        if rest != show_meta(want):
            bad += 1
            ctx.cov['disagreements_checked'] += 1
            if bad <= 3:
                ctx.broke('correspondence', 'N:meta-spec', f'normalisation of {md!r}\n model: {rest}\n oracle: {show_meta(want)}')
            continue
        for flag, fmts in ((sd, ('SDFWrite', 'ESDFWrite')), (rd, ('RDFWrite', 'ERDFWrite'))):
            for fmt in fmts:
                real = real_meta_roundtrip(fmt, md)
                same = real == list(want.items())
                if flag == '1':
                    ctx.dist('N:in-spec-domain:' + fmt)
                    # (the oracle's domain additionally leaves out items without text; the specification reads them as absent)
                    if not in_meta_domain({k: v for k, v in md.items() if norm_value(v)}, fmt):
                        ctx.broke('relational', 'N:meta-spec', f'{md!r} is inside the specification domain but outside the oracle domain ({fmt})')
                    if not same:
                        ctx.fail(f'C11/roundtrip/{fmt}/meta', f'metadata inside the CTfile domain not read back as its normalisation: '
                                 f'{md!r} -> {real!r}', {'kind': 'meta', 'fmt': fmt, 'meta': md})
                else:
                    ctx.dist('N:outside-spec-domain:' + ('same' if same else 'differs') + ':' + fmt)
                    if not same and not in_meta_domain(md, fmt):
                        cls = out_of_domain_class(md, fmt)
                        ctx.dist('N:outside:' + str(cls))
                        if cls is None and not (isinstance(real, list) and any(k == 'chython_unparsed_metadata' for k, _ in real)):
                            ctx.broke('relational', 'N:meta-spec', f'{md!r} ({fmt}) is outside the domain, is changed by write->read '
                                      f'({real!r}) and is neither rejected nor a recorded limitation')
                    elif not same:
                        ctx.fail(f'C11/roundtrip/{fmt}/meta', f'metadata inside the oracle domain not read back as its normalisation: '
                                 f'{md!r} -> {real!r}', {'kind': 'meta', 'fmt': fmt, 'meta': md})


# ------------------------------------------------------------------------------------------------
# C:v3000-continuation — physical-line splitting of the specification vs the reader's joining loop
# ------------------------------------------------------------------------------------------------

def split_v30(w, body):
    """Spec/CtfileData.lean `splitV30` in Python: chunks of at most w characters, all but the last end with '-'"""
    cs = []
    while len(body) > w and len(cs) < 10000:
        cs.append(body[:w])
        body = body[w:]
        if w == 0:
            break
    cs.append(body)
    return ['M  V30 ' + c + '-\n' for c in cs[:-1]] + ['M  V30 ' + cs[-1] + '\n']


def stream_continuation(ctx, n):
    rng = ctx.rng
    texts3 = _state.get('texts3') or []
    if not texts3 or not ctx.build_ok:
        return
    b = Batch(ctx, 'C:v3000-continuation')
    bp = Batch(ctx, 'P:v3000-continued')
    for _ in range(n):
        tag, m, text = rng.choice(texts3)
        lines = mol_block_lines(text)
        if any('\r' in l for l in lines):
            continue
        w = rng.choice([1, 2, 3, 5, 8, 13, 20, 40, 72, 72, 200])
        out = list(lines[:7])
        for l in lines[7:]:
            body = l[7:].rstrip('\n')
            if not l.startswith('M  V30 ') or not body or body[-1] in ' -\t' or rng.random() < 0.3:
                out.append(l)
                continue
            phys = split_v30(w, body)
            # other programs pad after the prefix: blanks between `M  V30 ` and the first token are not significant
            out += (['M  V30 ' + rng.choice([' ', '  ']) + phys[0][7:]] + phys[1:]) if rng.random() < 0.25 else phys
            b.add(f'v3cont {w} ' + raw(body), f'L {len(phys)} ' + ' '.join(cps(p) for p in phys) + ' J ' + cps(body.strip()),
                  (tag, 'cont', w), key=(w, body))
        real0 = real_parse3000(lines)
        real1 = real_parse3000(out)
        ctx.dist('C:continued-lines', len(out) - len(lines))
        if real0 != real1:
            # property level (records of other programs): the same record spelled with continuation lines reads differently
            ctx.fail('C11/foreign/V3000/continuation-lines', f'a V3000 block re-spelled with continuation lines (width {w}) is read '
                     f'differently: {real0[:200]} vs {real1[:200]}', {'kind': 'continuation', 'text': ''.join(lines), 'split': ''.join(out)})
        bp.add('pmol3000 ' + raw(''.join(out)), real1, (tag, 'continued', w), key=''.join(out))
    b.run()
    bp.run()



def correspond(ctx):
    ctx.cov['programs'] = 22  # (+ mdl_mol, mdl_rxn: option oracle and string-API oracle) MOLWrite/EMOLWrite._write_molecule, SDFWrite/ESDFWrite/RDFWrite/ERDFWrite.write, parse_mol_v2000/v3000,
    # emol.split, parse_rxn_v2000/v3000, postprocess_parsed_molecule, SDFRead/RDFRead._read_block/read_metadata/read_structure,
    # MDLRead.__iter__/__getitem__, reset_index x2, MRVWrite/MRVRead (oracle only)
    mols = molecules(ctx, 60 if ctx.quick else 1500)
    ctx.dist('molecules', len(mols))
    stream_prim(ctx)
    texts = stream_writer(ctx, mols)
    if texts:
        stream_parse_corrupt(ctx, texts, 400 if ctx.quick else 15000)
        stream_parse_corrupt_v3(ctx, 300 if ctx.quick else 12000)
        stream_framing(ctx, texts, 40 if ctx.quick else 1000)
        stream_rdf(ctx, texts, 40 if ctx.quick else 1000)
    stream_testfiles(ctx)
    stream_meta(ctx, 300 if ctx.quick else 8000)
    stream_meta_spec(ctx, 120 if ctx.quick else 3000)
    stream_continuation(ctx, 60 if ctx.quick else 2000)
    stream_roundtrip(ctx, mols, 25 if ctx.quick else 600)
    stream_options(ctx)
    # core starts the failing-input search only when no failure at all was recorded; failures that belong to known
    # findings (reported by the RT stream as well as by the standing probes) must not suppress it
    known = {f['signature'] for f in core.load_findings('C11') if f['status'] == 'known'}
    if ctx.broken and ctx.failures and all(f.signature in known for f in ctx.failures):
        search(ctx)


SEARCH_ALWAYS_IN_THOROUGH = False


def search(ctx):
    """failing-input search: property-level oracles on the real code (never the Lean model), seeded from the
    disagreeing cases' streams; larger budget than the RT stream that always runs."""
    import time
    if _state.get('searched'):
        return
    _state['searched'] = True
    rng = ctx.rng
    t_end = time.time() + (60 if ctx.quick else 600)
    mols = [(t, m) for t, m in molecules(ctx, 40 if ctx.quick else 300) if in_stereo_domain(m) and max(m) <= 999]
    # field-level stress inside the domain: every charge, isotopes, radicals, extreme numbers/coordinates
    from chython import smiles
    stress = []
    for c in range(-4, 5):
        m = smiles('[Fe]')
        m.atom(1)._charge = c
        m.flush_cache()
        stress.append((f'Fe{c:+d}', m))
    for smi in ('[13CH4]', '[2H]O[2H]', '[CH3]', 'C[CH2]', '[18OH2]', '[235U]', 'CC(C)=O', 'C/C=C/C', 'N[C@@H](C)C(O)=O', 'CC=[C@]=CC'):
        m = smiles(smi)
        layout(rng, m)
        stress.append((smi, m))
    m = smiles('CCO')
    m.remap({1: 999, 2: 500, 3: 7})
    stress.append(('high-numbers', layout(rng, m)))
    m = smiles('CCO')
    layout(rng, m)
    m.atom(1).x = 12345.6789
    m.atom(2).x = -9999.9999
    m.flush_cache()
    stress.append(('wide-coordinates', m))
    # (i) the molecules of the disagreeing correspondence cases themselves, through every writer
    seeds = []
    for stream, case in _state.get('disagreements', []):
        tag = case[0] if isinstance(case, tuple) and case else None
        m = _state.get('case_mols', {}).get(tag)
        if m is not None and len(seeds) < 40 and max(m) <= 999:
            seeds.append((f'disagreeing:{tag}', m))
    # (ii) their neighbourhood: the same records with field mixes that exercise every V2000/V3000 property line together
    def mixes(m):
        for k in range(6):
            c = m.copy()
            atoms = [a for _, a in c.atoms()]
            rng.shuffle(atoms)
            for j, a in enumerate(atoms[:4]):
                a._charge = [rng.choice([4, -4]), rng.choice([-1, 1, 2, -2, 3, -3]), rng.choice([-1, 1]), 0][j]
                if rng.random() < 0.4:
                    a._isotope = rng.choice(sorted(a.isotopes_distribution))
                if rng.random() < 0.3:
                    a._is_radical = True
            c.flush_cache()
            yield c
    special = _state.get('special') or [(t, m) for t, m in special_molecules(rng) if in_stereo_domain(m)]
    first = seeds + [(t + ':saturated', x) for t, m in seeds[:10] for x in saturate(rng, m)] + \
        [(t + ':mix', x) for t, m in seeds[:10] for x in mixes(m)] + special
    # (iii) disagreeing framing / metadata cases carry text, not molecules: their lines become metadata values of a record
    #       (lines the format cannot represent are dropped), and the normalisation-equivalent spellings are tried
    def text_of(rq):
        try:
            toks = rq.split(' ')
            start = 2 if toks[0] in ('sdfread', 'rdfread') else 1
            return ''.join(chr(int(x)) for x in toks[start:] if x)
        except ValueError:
            return ''
    metas = list(META_SPECIAL)
    for stream, rq in _state.get('disagreement_requests', [])[:20]:
        if stream.startswith(('M:', 'F:')):
            lines = [l for l in text_of(rq).split('\n')][:40]
            for fmt in WRITERS:
                keep = [l for l in lines if in_meta_domain({'k': (l or ' ') + '\nx'}, fmt) or not l.strip()]
                for i in range(0, len(keep), 6):
                    v = '\n'.join(keep[i:i + 6])
                    if norm_value(v):
                        metas.append({'k': v})
    for md in metas[:200]:
        if time.time() > t_end or len(ctx.failures) >= 5:
            break
        for fmt in WRITERS:
            if in_meta_domain(md, fmt):
                r = meta_probe({'kind': 'meta', 'fmt': fmt, 'meta': md, 'neighbours': True})
                if r:
                    ctx.fail(*r)
                    break
    for fmt in WRITERS:
        for _ in range(4):
            if time.time() > t_end or len(ctx.failures) >= 5:
                break
            r = sessions_check(rand_sessions(rng, fmt))
            if r:
                ctx.fail(*r)
    for tag, m in first:
        if time.time() > t_end:
            break
        for fmt in WRITERS:
            o = m.copy()
            o.meta.clear()
            r = roundtrip_check(fmt, [o])
            if r:
                ctx.fail(*r)
                break
        if len(ctx.failures) >= 5:
            ctx.notes.append(f'search: failing inputs found among the disagreeing cases / their field-mix neighbourhood / special records')
            return
    pool = stress + mols + special
    n = 0
    while time.time() < t_end and n < (400 if ctx.quick else 6000):
        n += 1
        fmt = WRITERS[n % len(WRITERS)]
        objs = make_objects(rng, pool if n % 3 else stress, fmt, rng.choice([1, 2, 3]))
        r = roundtrip_check(fmt, objs)
        if r:
            ctx.fail(*r)
            if len(ctx.failures) >= 5:
                return
    ctx.notes.append(f'search: {n} write->read cases on the real code, {len(ctx.failures)} failing')


def probe(inp):
    kind = inp.get('kind')
    if kind == 'roundtrip-text':
        r = check_text(inp)
    elif kind == 'index':
        r = index_check(inp['fmt'], inp['text'], inp['suffix'], inp.get('expect'), inp.get('how'))
    elif kind == 'damage':
        r = damage_check(inp)
    elif kind == 'meta':
        r = meta_probe(inp)
    elif kind == 'sessions':
        r = sessions_check(inp)
    elif kind == 'slice-past-end':
        r = slice_past_end_probe(inp)
    elif kind == 'options':
        r = options_check(inp)
    elif kind == 'continuation':
        a, b2 = real_parse3000(inp['text'].splitlines(keepends=True)), real_parse3000(inp['split'].splitlines(keepends=True))
        r = ('C11/foreign/V3000/continuation-lines', f'read differently: {a[:200]} vs {b2[:200]}', inp) if a != b2 else None
    elif kind == 'string-api':
        from chython.files import mdl_mol, mdl_rxn
        lines = inp['text'].splitlines(keepends=True)
        if inp.get('reaction'):
            i = next(k for k, l in enumerate(lines) if l.startswith('$RXN'))
            j = next((k for k, l in enumerate(lines) if l.startswith('$DTYPE')), len(lines))
            got = mdl_rxn(''.join(lines[i:j]), calc_cis_trans=True)
        else:
            i = next((k + 1 for k, l in enumerate(lines) if l.startswith('$MFMT')), 0)
            j = next(k for k, l in enumerate(lines) if l.startswith('M  END'))
            got = mdl_mol(''.join(lines[i:j + 1]), calc_cis_trans=True)
        g = _jsonish(obj_record(got))
        g['meta'] = {}
        d = diff_records(dict(inp['expect'], meta={}), g)
        r = (f"C11/string-api/{inp['fmt']}", f'fields changed: {d}', inp) if d else None
    elif kind == 'index-smiles':
        objs = _smiles_objs(inp)
        r = index_check(inp['fmt'], write_text(inp['fmt'], objs), '.sdf' if 'SDF' in inp['fmt'] else '.rdf')
    elif kind == 'damage-smiles':
        objs = _smiles_objs(inp)
        fmt = inp['fmt']
        pieces = [write_text(fmt, [o]) for o in objs]
        head = ''
        if fmt in ('RDFWrite', 'ERDFWrite'):
            h = pieces[0].split('\n', 2)
            head = h[0] + '\n' + h[1] + '\n'
            pieces = [p.split('\n', 2)[2] for p in pieces]
        good = [_jsonish(obj_record(o)) for o in read_text(fmt, head + ''.join(pieces))]
        k = inp['k']
        text = head + ''.join(pieces[:k] + [inp['damaged']] + pieces[k + 1:])
        r = damage_check({'kind': 'damage', 'fmt': fmt, 'text': text, 'k': k, 'how': inp.get('how', 'replaced'),
                          'before': good[:k], 'after': good[k + 1:]})
    else:
        return False, f'unknown probe kind {kind}'
    if r:
        return True, f'{r[0]}: {r[1]}'
    return False, 'property holds on this input'


def _smiles_objs(inp):
    from chython import smiles
    objs = []
    for i, smi in enumerate(inp['smiles']):
        m = smiles(smi)
        for j, (_, a) in enumerate(m.atoms()):
            a.x, a.y = j * 0.825, (j % 2) * 0.5
        m.flush_cache()
        if i == 0:
            m.meta.update(inp.get('meta0', {}))
        objs.append(m)
    return objs


def slice_past_end_probe(inp):
    """`reader[n:1]` on an indexable reader of n records: a list gives [], the reader seeks to offset n first"""
    fmt = inp['fmt']
    _, Rd = io_classes(fmt)
    objs = _smiles_objs(inp)
    d = tempfile.mkdtemp(prefix='c11_')
    p = os.path.join(d, 'f.sdf' if 'SDF' in fmt else 'f.rdf')
    try:
        with open(p, 'w', newline='') as f:
            f.write(write_text(fmt, objs))
        r = Rd(p, indexable=True)
        try:
            n = len(r)
            try:
                got = r[n:1]
            except Exception as e:
                return (inp['signature'], f'reader[{n}:1] of a {n}-record file raised {type(e).__name__}({e}); list(reader)[{n}:1] is []', inp)
            return None if got == [] else (inp['signature'], f'reader[{n}:1] returned {len(got)} records', inp)
        finally:
            r.close()
            try:
                os.remove(r._cache_path)
            except OSError:
                pass
    finally:
        import shutil
        shutil.rmtree(d, ignore_errors=True)


def meta_probe(inp):
    """one molecule `C` with the given name/metadata through writer `fmt`: is it read back (modulo the documented
    per-line whitespace normalisation)?"""
    from chython import smiles
    m = smiles('C')
    m.name = inp.get('name', '')
    m.meta.update(inp['meta'])
    others = [smiles('CC'), smiles('CCC')] if inp.get('neighbours') else []
    r = roundtrip_check(inp['fmt'], [m] + others)
    if r:
        return (inp.get('signature', r[0]), r[1], inp)
    return None


def _jsonish(x):
    import json
    return json.loads(json.dumps(x))
